"""E7 `cmpeval`: decides ordering properties of comparison functions by exhaustive evaluation.

A comparator that touches its two operands only through </>/== on corresponding fields is a
function of the finite vector of per-field orderings {<,=,>}.  The body (ifs, returns, !, &&, ||,
nested operator< on members, std::tie) is evaluated for every such vector; irreflexivity, asymmetry,
"equivalent => all fields equal" (needed for container keys) and transitivity (all 13^n weak orderings
of three elements per field) are then checked exactly."""
import itertools

from .facts import (Facts, AnalysisBroken, walk_expr, walk_all_exprs, walk_stmts, show, strip_casts, strip_copies)

REL = ('<', '=', '>')


class Unsupported(Exception):
    pass


def param_field(e, params, env=None):
    """member chain rooted at one of the two parameters -> (param index, 'a.b'); locals that alias a
    parameter (or a member chain of it) are looked through"""
    e = strip_copies(strip_casts(e))
    path = []
    hops = 0
    while e is not None and hops < 12:
        hops += 1
        if e.get('k') in ('member', 'unresolved') and e.get('base') is not None:
            path.append(e['name'])
            e = strip_copies(strip_casts(e['base']))
            continue
        if e.get('k') == 'ref' and env and e.get('d') in env and e.get('d') not in params:
            e = strip_copies(strip_casts(env[e['d']]))
            continue
        break
    if e is not None and e.get('k') == 'ref' and e.get('d') in params:
        return params[e['d']], '.'.join(reversed(path))
    return None


class CrossField(Exception):
    """the comparator relates different fields of its two operands"""


class Lossy(Exception):
    """the comparator orders a field through a helper that identifies distinct values (a witness is in the message)"""


LOSSY_CALLS = ('tolower', 'toupper', 'towlower', 'towupper', 'strcasecmp', 'strncasecmp', 'stricmp', 'isspace', 'abs')


def lossy_calls_in(facts, g):
    """names of case-folding / truncating calls in the body of g or of a lambda written in g"""
    bodies = [g['body']] + [h['body'] for h in facts.functions if h.get('kind') == 'lambda' and h.get('body') is not None and
                            ((h.get('parent') or '').split('(')[0] == g['q'] or (h.get('parent') or '').startswith(g['q'] + '('))]
    return sorted(set((x.get('callee') or '').split('::')[-1] for b in bodies for x in walk_all_exprs(b)
                      if x.get('k') == 'call' and (x.get('callee') or '').split('::')[-1] in LOSSY_CALLS))


class Cmp:
    def __init__(self, f, facts=None):
        self.f = f
        self.facts = facts
        if len(f['params']) != 2:
            raise Unsupported('comparator with %d parameters' % len(f['params']))
        self.params = {f['params'][0]['d']: 0, f['params'][1]['d']: 1}
        self.fields = []
        self.env = {}
        for st in walk_stmts(f['body']):
            if st['k'] == 'decl':
                for v in st['vars']:
                    if v.get('init') is not None:
                        self.env[v['d']] = v['init']
        for e in walk_all_exprs(f['body']):
            pf = param_field(e, self.params, self.env)
            if pf is not None and pf[1] and pf[1] not in self.fields:
                # keep only maximal chains (a.b, not a)
                self.fields.append(pf[1])
        self.fields = [x for x in self.fields if not any(y != x and y.startswith(x + '.') for y in self.fields)]
        if not self.fields:
            raise Unsupported('no fields compared')

    # ---- evaluation under sigma: field -> relation of (first operand's field) vs (second operand's field)
    def threeway(self, e, sigma):
        """relation computed by a three-way comparison (std::string::compare, <=>) or a local holding one"""
        e = strip_copies(strip_casts(e))
        if e is None:
            return None
        if e.get('k') == 'ref' and e.get('d') in self.env and e.get('d') not in self.params:
            return self.threeway(self.env[e['d']], sigma)
        if e.get('k') == 'call' and (e.get('callee') or '').split('::')[-1] == 'compare' and e.get('obj') is not None and len(e['args']) == 1:
            return self.rel(e['obj'], e['args'][0], sigma)
        if e.get('k') == 'call' and e.get('obj') is None and (e.get('callee') or '').split('::')[-1] in ('strcmp', 'strcoll', 'strcasecmp', 'strncasecmp', 'stricmp', 'strncmp', 'memcmp') and len(e.get('args', [])) >= 2:
            # the C three-way comparisons of the c_str() of one field of both operands
            def unc(a):
                a = strip_copies(strip_casts(a))
                if a is not None and a.get('k') == 'call' and (a.get('callee') or '').split('::')[-1] in ('c_str', 'data') and a.get('obj') is not None:
                    return a['obj']
                return a
            a0, a1 = unc(e['args'][0]), unc(e['args'][1])
            name = (e.get('callee') or '').split('::')[-1]
            if name == 'memcmp':
                name = 'strncmp'     # a byte comparison over a given length: a prefix comparison unless the lengths are known to be equal
            pa, pb = param_field(a0, self.params, self.env), param_field(a1, self.params, self.env)
            if pa is not None and pb is not None and pa[1] == pb[1] and pa[0] != pb[0]:
                if name in ('strcasecmp', 'strncasecmp', 'stricmp'):
                    raise Lossy('field %s is ordered by %s(), which ignores the case of letters: two keys that differ only in case are equivalent '
                                '(e.g. "Lib.theo" and "lib.theo")' % (pa[1], name))
                if name in ('strncmp',):
                    raise Lossy('field %s is ordered by %s(), which compares a prefix only: two keys that agree on it are equivalent' % (pa[1], name))
                if name == 'strcmp':
                    raise Lossy('field %s is ordered by strcmp() on c_str(): names that contain a NUL byte are compared up to it only' % pa[1])
            return self.rel(a0, a1, sigma)
        if e.get('k') in ('bin', 'call') and e.get('op') == '<=>':
            a, b = (e['l'], e['r']) if e.get('k') == 'bin' else ((e['obj'], e['args'][0]) if e.get('obj') is not None else (e['args'][0], e['args'][1]))
            return self.rel(a, b, sigma)
        if e.get('k') == 'call' and e.get('obj') is None and e.get('ck') != 'operator' and len(e.get('args', [])) == 2 and self.facts is not None:
            # a hand-written three-way helper over one field of both operands
            pa, pb = param_field(e['args'][0], self.params, self.env), param_field(e['args'][1], self.params, self.env)
            g = self.facts.fn(e.get('callee'), optional=True) if e.get('callee') else None
            if pa is not None and pb is not None and pa[1] == pb[1] and pa[0] != pb[0] and g is not None and g.get('body') is not None:
                lossy = sorted(set((x.get('callee') or '').split('::')[-1] for x in walk_all_exprs(g['body'])
                                   if x.get('k') == 'call' and (x.get('callee') or '').split('::')[-1] in LOSSY_CALLS))
                if lossy:
                    raise Lossy('field %s is ordered by %s(), which compares through %s: two keys that differ only in what %s removes are equivalent '
                                '(e.g. "Lib.theo" and "lib.theo")' % (pa[1], g['q'].split('::')[-1], '/'.join(lossy), '/'.join(lossy)))
                raise Unsupported('field %s is ordered by the hand-written helper %s()' % (pa[1], g['q'].split('::')[-1]))
        return None

    def rel(self, a, b, sigma):
        pa, pb = param_field(a, self.params, self.env), param_field(b, self.params, self.env)
        if pa is not None and pb is not None and pa[1] and pb[1] and pa[1] != pb[1] and pa[0] != pb[0]:
            raise CrossField('%s of one operand is compared with %s of the other: for a single element x the test "x.%s against x.%s" need not be false, so the '
                             'relation is not irreflexive - not a strict weak order (undefined behaviour in the standard algorithm, and a wrong winner)' % (pa[1], pb[1], pa[1], pb[1]))
        if pa is not None and pb is not None and pa[1] and pa[1] == pb[1] and pa[0] == pb[0]:
            return '='          # a field compared with itself (same operand on both sides): always equal
        if (pa is None or pb is None) and self.facts is not None:
            # both sides are the same helper applied to one field of the two operands: lower(a.file) < lower(b.file)
            def through(x):
                x = strip_copies(strip_casts(x))
                seen = 0
                while x is not None and x.get('k') == 'ref' and x.get('d') in self.env and x.get('d') not in self.params and seen < 5:
                    x = strip_copies(strip_casts(self.env[x['d']]))
                    seen += 1
                if x is not None and x.get('k') == 'call' and x.get('obj') is None and x.get('callee_in_repo') and len(x.get('args', [])) == 1:
                    return x.get('callee'), param_field(x['args'][0], self.params, self.env)
                return None, None
            (ga, fa), (gb, fb) = through(a), through(b)
            if ga and ga == gb and fa is not None and fb is not None and fa[1] and fa[1] == fb[1] and fa[0] != fb[0]:
                gf = self.facts.fn(ga, optional=True)
                if gf is not None and gf.get('body') is not None:
                    lossy = lossy_calls_in(self.facts, gf)
                    if lossy:
                        raise Lossy('field %s is ordered through %s(), which applies %s: two keys that differ only in what it removes are equivalent '
                                    '(e.g. "Lib.theo" and "lib.theo")' % (fa[1], ga.split('::')[-1], '/'.join(lossy)))
                    raise Unsupported('field %s is ordered through the helper %s()' % (fa[1], ga.split('::')[-1]))
        if pa is None or pb is None or pa[1] != pb[1] or pa[0] == pb[0]:
            raise Unsupported('comparison of %s with %s is not field-wise' % (show(a), show(b)))
        r = sigma[pa[1]]
        if pa[0] == 1:      # operands swapped
            r = {'<': '>', '>': '<', '=': '='}[r]
        return r

    def ev(self, e, sigma):
        e = strip_copies(strip_casts(e))
        k = e.get('k')
        if k == 'bool':
            return bool(e['v'])
        if k == 'int':
            return bool(e['v'])
        if k == 'ref' and e.get('d') in self.env and e.get('d') not in self.params:
            return self.ev(self.env[e['d']], sigma)
        if k == 'un' and e['op'] == '!':
            return not self.ev(e['e'], sigma)
        if k == 'bin' and e['op'] == '&&':
            return self.ev(e['l'], sigma) and self.ev(e['r'], sigma)
        if k == 'bin' and e['op'] == '||':
            return self.ev(e['l'], sigma) or self.ev(e['r'], sigma)
        if k == 'cond':
            return self.ev(e['t'], sigma) if self.ev(e['c'], sigma) else self.ev(e['e'], sigma)
        op, a, b = None, None, None
        if k == 'bin' and e['op'] in ('<', '>', '<=', '>=', '==', '!='):
            op, a, b = e['op'], e['l'], e['r']
        elif k == 'call' and e.get('op') in ('<', '>', '<=', '>=', '==', '!='):
            op = e['op']
            if e.get('obj') is not None:
                a, b = e['obj'], e['args'][0]
            else:
                a, b = e['args'][0], e['args'][1]
        if op is None and k == 'call' and e.get('callee_lambda_id') and len(e.get('args', [])) == 2 and self.facts is not None:
            # a local lambda used as "less" over one field of both operands: auto lt = [](const std::string &a, const std::string &b) { .. tolower .. }
            pa, pb = param_field(e['args'][0], self.params, self.env), param_field(e['args'][1], self.params, self.env)
            lams = [h for h in self.facts.functions if h.get('kind') == 'lambda' and h.get('body') is not None and (h.get('parent') or '').startswith(self.f['q'])]
            if pa is not None and pb is not None and pa[1] and pa[1] == pb[1] and pa[0] != pb[0] and lams:
                lossy = sorted(set((x.get('callee') or '').split('::')[-1] for h in lams for x in walk_all_exprs(h['body'])
                                   if x.get('k') == 'call' and (x.get('callee') or '').split('::')[-1] in LOSSY_CALLS))
                if lossy:
                    raise Lossy('field %s is ordered by a local lambda that compares through %s: two keys that differ only in what %s removes are equivalent '
                                '(e.g. "Lib.theo" and "lib.theo")' % (pa[1], '/'.join(lossy), '/'.join(lossy)))
                raise Unsupported('field %s is ordered by a local lambda' % pa[1])
        if op is None and k == 'call' and e.get('obj') is None and e.get('ck') != 'operator' and e.get('callee_in_repo') and len(e.get('args', [])) == 2 and \
                self.facts is not None:
            # a hand-written "less" over one field of both operands: less_nocase(a.file, b.file)
            pa, pb = param_field(e['args'][0], self.params, self.env), param_field(e['args'][1], self.params, self.env)
            gf = self.facts.fn(e.get('callee'), optional=True)
            if pa is not None and pb is not None and pa[1] and pa[1] == pb[1] and pa[0] != pb[0] and gf is not None and gf.get('body') is not None:
                lossy = lossy_calls_in(self.facts, gf)
                if lossy:
                    raise Lossy('field %s is ordered by %s(), which compares through %s: two keys that differ only in what %s removes are equivalent '
                                '(e.g. "Lib.theo" and "lib.theo")' % (pa[1], gf['q'].split('::')[-1], '/'.join(lossy), '/'.join(lossy)))
                raise Unsupported('field %s is ordered by the hand-written helper %s()' % (pa[1], gf['q'].split('::')[-1]))
        if op is not None:
            ta, tb = strip_copies(strip_casts(a)), strip_copies(strip_casts(b))
            # sign test of a three-way result:  c < 0, c == 0, 0 < c ...
            for x, y, flip in ((a, b, False), (b, a, True)):
                ty = strip_casts(y)
                if ty is not None and ty.get('k') == 'int' and ty['v'] == 0:
                    tw = self.threeway(x, sigma)
                    if tw is not None:
                        sign = {'<': -1, '=': 0, '>': 1}[tw]
                        l, r2 = (sign, 0) if not flip else (0, sign)
                        return {'<': l < r2, '>': l > r2, '<=': l <= r2, '>=': l >= r2, '==': l == r2, '!=': l != r2}[op]

            def tuple_maker(x):
                if x.get('k') == 'construct' and (x.get('rec') or '').startswith(('std::pair<', 'std::tuple<')) and len(x.get('args', [])) >= 2:
                    return 'pair' if (x.get('rec') or '').startswith('std::pair<') else 'tuple'     # std::pair(a, b) / std::tuple(a, b, ..): lexicographic as well
                if x.get('k') == 'other' and x.get('cls') == 'CXXUnresolvedConstructExpr' and (x.get('cty') or '').split('::')[-1].split('<')[0] in ('pair', 'tuple') and \
                        len(x.get('children', [])) >= 2:
                    x.setdefault('args', x['children'])      # the same construction inside a generic lambda (not yet resolved)
                    return (x.get('cty') or '').split('::')[-1].split('<')[0]
                if x.get('k') != 'call':
                    return None
                n = x.get('callee') or (x.get('fn') or {}).get('name') or ''
                n = n.split('::')[-1]
                return n if n in ('tie', 'make_tuple', 'forward_as_tuple', 'make_pair') else None
            if tuple_maker(ta) and tuple_maker(ta) == tuple_maker(tb) and len(ta['args']) == len(tb['args']):
                # lexicographic
                rels = [self.rel(x, y, sigma) for x, y in zip(ta['args'], tb['args'])]
                r = '='
                for x in rels:
                    if x != '=':
                        r = x
                        break
            else:
                r = self.rel(a, b, sigma)
            return {'<': r == '<', '>': r == '>', '<=': r != '>', '>=': r != '<', '==': r == '=', '!=': r != '='}[op]
        raise Unsupported('expression %s' % show(e))

    def run(self, s, sigma):
        """returns bool or None (fell through)"""
        k = s['k']
        if k == 'block':
            for c in s['s']:
                r = self.run(c, sigma)
                if r is not None:
                    return r
            return None
        if k == 'return':
            return self.ev(s['e'], sigma)
        if k == 'if':
            if self.ev(s['c'], sigma):
                return self.run(s['t'], sigma)
            return self.run(s['e'], sigma) if s.get('e') else None
        if k in ('empty', 'decl'):
            return None
        raise Unsupported('statement %s' % k)

    def less(self, sigma):
        r = self.run(self.f['body'], sigma)
        if r is None:
            raise Unsupported('comparator can fall off its end')
        return r

    def table(self):
        out = {}
        for combo in itertools.product(REL, repeat=len(self.fields)):
            sigma = dict(zip(self.fields, combo))
            out[combo] = self.less(sigma)
        return out

    # ---- properties
    def analyse(self, need_discriminating=True):
        tbl = self.table()
        n = len(self.fields)
        flip = {'<': '>', '>': '<', '=': '='}
        problems = []
        alleq = tuple('=' for _ in range(n))
        if tbl[alleq]:
            problems.append(('irreflexivity', 'less(x, x) is true'))
        for combo, v in tbl.items():
            fc = tuple(flip[c] for c in combo)
            if v and tbl[fc]:
                problems.append(('asymmetry', 'both less(a,b) and less(b,a) hold when fields compare %s' % dict(zip(self.fields, combo))))
                break
        if need_discriminating:
            for combo, v in tbl.items():
                fc = tuple(flip[c] for c in combo)
                if not v and not tbl[fc] and combo != alleq:
                    problems.append(('discrimination', 'a and b are equivalent although fields compare %s: distinct keys collapse' % dict(zip(self.fields, combo))))
                    break
        # transitivity over all weak orderings of three elements per field
        worders = weak_orderings3()
        cnt = 0
        bad = None
        for combo in itertools.product(worders, repeat=n):
            ab = tuple(w[0] for w in combo)
            bc = tuple(w[1] for w in combo)
            ac = tuple(w[2] for w in combo)
            cnt += 1
            lab, lbc, lac = tbl[ab], tbl[bc], tbl[ac]
            if lab and lbc and not lac:
                bad = ('transitivity', 'a<b and b<c but not a<c with per-field relations ab=%s bc=%s ac=%s' % (ab, bc, ac))
                break
            # incomparability must be transitive too
            fl = lambda t: tuple(flip[c] for c in t)
            eq_ab = not lab and not tbl[fl(ab)]
            eq_bc = not lbc and not tbl[fl(bc)]
            eq_ac = not lac and not tbl[fl(ac)]
            if eq_ab and eq_bc and not eq_ac:
                bad = ('transitivity of equivalence', 'a~b and b~c but not a~c with per-field relations ab=%s bc=%s ac=%s' % (ab, bc, ac))
                break
        if bad:
            problems.append(bad)
        return tbl, problems, cnt


def weak_orderings3():
    """all consistent (rel(a,b), rel(b,c), rel(a,c)) for a total preorder on three elements: 13"""
    out = []
    for ranks in itertools.product(range(3), repeat=3):
        a, b, c = ranks

        def r(x, y):
            return '<' if x < y else ('>' if x > y else '=')
        t = (r(a, b), r(b, c), r(a, c))
        if t not in out:
            out.append(t)
    return out


def lexicographic(fields_dirs):
    """reference order: fields_dirs = [(field, '<' ascending | '>' descending)] -> function combo-dict -> bool"""
    def less(sigma):
        for f, d in fields_dirs:
            if sigma[f] == '=':
                continue
            return sigma[f] == d
        return False
    return less


def find_comparators(facts):
    """operator< definitions under the repo and lambdas passed to ordering algorithms"""
    out = []
    for f in facts.functions:
        if f['tmpl'] == 'pattern' and f['kind'] != 'lambda':
            continue
        if f['name'] == 'operator<' and len(f['params']) == 2:
            out.append((f, 'operator<', None))
    ALGOS = ('std::min_element', 'std::max_element', 'std::sort', 'std::stable_sort', 'std::lower_bound', 'std::upper_bound',
             'std::ranges::sort', 'std::partial_sort', 'std::nth_element', 'std::minmax_element')
    lambdas = {f['q']: f for f in facts.functions if f['kind'] == 'lambda'}
    for f in facts.functions:
        if f['tmpl'] == 'pattern':
            continue
        for e in walk_all_exprs(f['body']):
            if e.get('k') == 'call' and (e.get('callee') or '') in ALGOS:
                for a in e['args']:
                    for x in walk_expr(a):
                        if x.get('k') == 'lambda' and x['fn'] in lambdas:
                            out.append((lambdas[x['fn']], e['callee'], f))
                        elif x.get('k') == 'ref' and x.get('dk') == 'func' and x.get('in_repo'):
                            # a named function handed to the algorithm
                            named = [g for g in facts.functions if g['q'] == x.get('q') and g.get('body') is not None and len(g.get('params', [])) == 2 and g['tmpl'] in ('none', 'inst')]
                            if len(named) == 1:
                                out.append((named[0], e['callee'], f))
    return out
