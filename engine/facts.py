"""E0 driver: obtains compile flags, runs the libTooling extractor (tools/theo_facts.cc)
on the units a check needs, caches by content hash, loads and indexes the facts.

Nothing under /repo is executed or built; cmake is only asked to *configure* into a
temporary directory so that the real include paths / definitions are used."""
import glob
import hashlib
import json
import os
import shutil
import subprocess
import sys
import tempfile
import concurrent.futures

VERIF = os.path.dirname(os.path.dirname(os.path.abspath(__file__)))
REPO = os.environ.get('VERIF_REPO', '/repo')
BUILD = os.path.join(VERIF, 'build')
CACHE = os.path.join(BUILD, 'cache')
TOOL = os.path.join(BUILD, 'theo_facts')

LIB_GLOBS = ['Compiler/src/*.cpp', 'Compiler/src/*.c', 'Compiler/src/ParserGenerator/*.cpp',
             'VM/src/*.cpp', 'CLI/*.cpp']


class AnalysisBroken(Exception):
    """An anchor vanished, a count fell below its floor, an unsupported construct was
    met, or the front end failed under /repo: exit code 2, never a pass or a violation."""


def sha(*parts):
    h = hashlib.sha256()
    for p in parts:
        if isinstance(p, str):
            p = p.encode()
        h.update(p)
        h.update(b'\0')
    return h.hexdigest()


def all_units(repo=None):
    repo = repo or REPO
    res = []
    for g in LIB_GLOBS:
        res.extend(sorted(glob.glob(os.path.join(repo, g))))
    return res


def _resource_dir():
    try:
        return subprocess.run(['clang++', '-print-resource-dir'], capture_output=True, text=True,
                              check=True).stdout.strip()
    except Exception:
        return '/usr/lib/llvm-14/lib/clang/14.0.6'


_flags_cache = {}


def compile_flags(repo=None):
    """Returns (flags, info).  Flags come from a cmake configure (compilation database)
    when possible, otherwise from the fixed fallback; -std/-x/-UNDEBUG are forced."""
    repo = repo or REPO
    if repo in _flags_cache:
        return _flags_cache[repo]
    cm = sorted(glob.glob(os.path.join(repo, '**/CMakeLists.txt'), recursive=True))
    cm = [c for c in cm if '/_build/' not in c]
    key = sha(*[open(c, 'rb').read() for c in cm], repo)
    os.makedirs(CACHE, exist_ok=True)
    cfile = os.path.join(CACHE, 'compdb-%s.json' % key[:24])
    info = {'source': 'fallback', 'units_in_db': None}
    incs = None
    db_units = None
    if os.path.exists(cfile):
        try:
            saved = json.load(open(cfile))
            incs, db_units, info = saved['incs'], saved['units'], saved['info']
        except Exception:
            incs = None
    if incs is None and shutil.which('cmake') and shutil.which('ninja'):
        tmp = tempfile.mkdtemp(prefix='theo-verif-cmake-')
        try:
            r = subprocess.run(['cmake', '-G', 'Ninja', '-S', repo, '-B', tmp,
                                '-DCMAKE_EXPORT_COMPILE_COMMANDS=ON'],
                               capture_output=True, text=True, timeout=120)
            if r.returncode == 0:
                r2 = subprocess.run(['ninja', '-C', tmp, '-t', 'compdb'], capture_output=True,
                                    text=True, timeout=60)
                db = json.loads(r2.stdout)
                incs_set, defs = [], []
                units = set()
                for e in db:
                    cmd = e.get('command', '')
                    f = e.get('file', '')
                    if not cmd or ' -c ' not in cmd:
                        continue
                    if '/test/' in f:
                        continue
                    units.add(os.path.relpath(f, repo))
                    toks = cmd.split()
                    for i, t in enumerate(toks):
                        if t.startswith('-I'):
                            p = t[2:] or toks[i + 1]
                            if p not in incs_set:
                                incs_set.append(p)
                        elif t.startswith('-D') and t not in defs:
                            defs.append(t)
                        elif t == '-isystem':
                            p = toks[i + 1]
                            if p not in incs_set:
                                incs_set.append(p)
                incs = ['-I' + p for p in incs_set] + [d for d in defs if 'EXPORTS' not in d]
                db_units = sorted(units)
                info = {'source': 'cmake compdb (configure only)', 'units_in_db': len(db_units)}
                tmpn = cfile + '.%d.tmp' % os.getpid()
                json.dump({'incs': incs, 'units': db_units, 'info': info}, open(tmpn, 'w'))
                os.replace(tmpn, cfile)
        except Exception as ex:  # fall back
            info = {'source': 'fallback (cmake failed: %s)' % ex, 'units_in_db': None}
        finally:
            shutil.rmtree(tmp, ignore_errors=True)
    if incs is None:
        incs = ['-I' + repo, '-I' + os.path.join(repo, 'Compiler/include')]
    # -Wno-c++11-narrowing: clang rejects a narrowing conversion in a braced initialiser that g++ (the compiler of the build) accepts with a
    # warning; such a tree builds and runs, so it is analysed (the narrowing itself is what the width rules report)
    flags = ['-std=gnu++20', '-x', 'c++', '-UNDEBUG', '-w', '-Wno-c++11-narrowing', '-resource-dir', _resource_dir()] + incs
    info['db_units'] = db_units
    _flags_cache[repo] = (flags, info)
    return flags, info


def _repo_headers(repo):
    hs = sorted(glob.glob(os.path.join(repo, '**/*.h'), recursive=True) +
                glob.glob(os.path.join(repo, '**/*.hpp'), recursive=True))
    return [h for h in hs if '/_build/' not in h and '/test/' not in h]


def _extract_one(args):
    unit, repo, flags, key = args
    out = os.path.join(CACHE, 'facts-%s.json' % key[:32])
    if os.path.exists(out):
        return out, True
    tmpn = out + '.%d.tmp' % os.getpid()
    r = subprocess.run([TOOL, tmpn, repo, unit, '--'] + flags, capture_output=True, text=True)
    if not os.path.exists(tmpn):
        raise AnalysisBroken('extractor produced no output for %s: %s' % (unit, r.stderr[-500:]))
    os.replace(tmpn, out)
    return out, False


def extract(units, repo=None):
    """Run the extractor on the given units (absolute paths), in parallel; returns dict
    unit -> facts.  Cache key: the unit, every header under the repo, the flags, the tool."""
    repo = repo or REPO
    if not os.path.exists(TOOL):
        raise AnalysisBroken('extractor binary %s missing: run ./setup.sh' % TOOL)
    flags, info = compile_flags(repo)
    tool_hash = sha(open(TOOL, 'rb').read())
    hdr_hash = sha(*[h + '\n' + open(h, 'rb').read().decode('latin1') for h in _repo_headers(repo)])
    jobs = []
    for u in units:
        if not os.path.exists(u):
            raise AnalysisBroken('unit %s does not exist (anchor vanished)' % u)
        key = sha(open(u, 'rb').read(), u, hdr_hash, ' '.join(flags), tool_hash)
        jobs.append((u, repo, flags, key))
    res = {}
    hits = 0
    with concurrent.futures.ThreadPoolExecutor(max_workers=16) as ex:
        for (u, _, _, _), (path, hit) in zip(jobs, ex.map(_extract_one, jobs)):
            hits += 1 if hit else 0
            res[u] = json.load(open(path))
    return res, {'flags': flags, 'flags_info': info, 'cache_hits': hits, 'units': list(units)}


class Facts:
    """Indexed view over the facts of several units."""

    def __init__(self, units, repo=None):
        self.repo = repo or REPO
        self.units = [u if os.path.isabs(u) else os.path.join(self.repo, u) for u in units]
        self.raw, self.meta = extract(self.units, self.repo)
        self.functions = []      # all function entries (dedup by (sig, file, line))
        self.by_q = {}
        self.by_sig = {}
        self.records = {}
        self.enums = {}
        self.typedefs = {}
        self.globals = {}
        self.diagnostics = []
        seen = set()
        for u in self.units:
            d = self.raw[u]
            for diag in d['diagnostics']:
                diag = dict(diag)
                diag['unit'] = u
                self.diagnostics.append(diag)
            for f in d['functions']:
                key = (f['sig'], tuple(f['loc']), f['tmpl'])
                f['unit'] = u
                f['file'] = f['loc'][0]
                if key in seen:
                    continue
                seen.add(key)
                self.functions.append(f)
                self.by_q.setdefault(f['q'], []).append(f)
                self.by_sig.setdefault(f['sig'], []).append(f)
            for r in d['records']:
                self.records.setdefault(r['q'] + '@%s:%d' % (r['loc'][0], r['loc'][1]), r)
            for e in d['enums']:
                self.enums[e['q']] = e
            for t in d['typedefs']:
                self.typedefs[t['q']] = t
            for g in d['globals']:
                k = g['q']
                if k not in self.globals or g['is_def']:
                    self.globals[k] = g
        # named constants read like the literal they stand for: a reference to a const global that is initialised from one
        # integer constant expression or one string literal becomes that literal (the reference is kept in 'from_global')
        for f in self.functions:
            if f.get('body') is None:
                continue
            for e in walk_all_exprs(f['body']):
                if e.get('k') == 'ref' and e.get('dk') == 'global':
                    g = self.globals.get(e.get('q'))
                    if g is None or not (g.get('const') or g.get('constexpr')):
                        continue
                    if g.get('const_value') is not None:
                        e['from_global'] = e.get('q')
                        e['k'], e['v'] = 'int', g['const_value']
                    elif g.get('const_str') is not None:
                        e['from_global'] = e.get('q')
                        e['k'], e['v'] = 'str', g['const_str']
        # explicit iterator loops over a whole container read like the range-for they are:
        #   for (auto it = X.begin(); it != X.end(); ++it) { ... *it ... it->m ... }   ==>   for (auto &elem : X) { ... elem ... elem.m ... }
        for f in self.functions:
            if f.get('body') is not None and not f['file'].endswith('lex.yy.c'):
                for st in walk_stmts(f['body']):
                    if st.get('k') == 'for':
                        _desugar_iterator_loop(st)
                    if st.get('k') == 'for':
                        _iterator_to_index_loop(st)
        # one spelling for 'is the key in the container': a local iterator from find() that is only compared with end(),
        # dereferenced or handed back to erase() reads as contains(k) / X[k] / erase(k); count(k) of a unique-key container
        # reads as contains(k)
        for f in self.functions:
            if f.get('body') is not None and not f['file'].endswith('lex.yy.c'):
                _desugar_lookups(f)
        # an if / else-if chain that compares one expression with enumerators reads like the switch it replaces
        for f in self.functions:
            if f.get('body') is not None and not f['file'].endswith('lex.yy.c'):
                _chains_to_switch(f['body'])
        # one-line const predicates: bool p() const { return <expression over members>; }
        try:
            from . import cfg as _cfg
            for f in self.functions:
                b = f.get('body')
                if f.get('kind') == 'method' and not f.get('params') and b is not None and f['tmpl'] in ('none', 'inst') and b.get('k') == 'block' and len(b.get('s', [])) == 1 and \
                        b['s'][0].get('k') == 'return' and b['s'][0].get('e') is not None and (b['s'][0]['e'].get('cty') or '') == 'bool' and \
                        not any(x.get('k') == 'call' and x.get('callee_in_repo') for x in walk_expr(b['s'][0]['e'])):
                    _cfg.PREDICATE_BODIES[f['sig']] = b['s'][0]['e']
        except ImportError:
            pass
        # front-end health
        bad = [x for x in self.diagnostics if x['level'] == 'error' and x['in_root']]
        if bad:
            raise AnalysisBroken('front-end error under the repository: %s:%s %s' % (
                bad[0]['file'], bad[0]['line'], bad[0]['msg']))

    def tolerated_diagnostics(self):
        return [{'file': d['file'], 'line': d['line'], 'msg': d['msg'][:160]}
                for d in self.diagnostics if d['level'] == 'error' and not d['in_root']]

    def record(self, q):
        """Record by qualified name (first match)."""
        for k, r in self.records.items():
            if r['q'] == q:
                return r
        raise AnalysisBroken('record %s not found (anchor vanished)' % q)

    def enum(self, q):
        if q not in self.enums:
            raise AnalysisBroken('enum %s not found (anchor vanished)' % q)
        return self.enums[q]

    def fn(self, q, unit_suffix=None, tmpl=('none', 'inst'), optional=False):
        """Unique function by qualified name (optionally restricted to a unit)."""
        c = [f for f in self.by_q.get(q, []) if f['tmpl'] in tmpl]
        if unit_suffix:
            c = [f for f in c if f['file'].endswith(unit_suffix)]
        if len(c) == 1:
            return c[0]
        if len(c) > 1 and all(f.get('kind') == 'ctor' for f in c):
            # a user-written copy / move constructor next to the documented one: the documented one is meant
            own = q.rsplit('::', 1)[0]
            def is_copy_move(f):
                ps = f.get('params', [])
                t = (ps[0].get('cty') or '').replace('const ', '').replace('&', '').strip() if len(ps) == 1 else ''
                return len(ps) == 1 and (t == own or t == own.split('::')[-1] or own.endswith('::' + t))
            c2 = [f for f in c if not is_copy_move(f)]
            if len(c2) == 1:
                return c2[0]
        if not c and optional:
            return None
        if not c:
            raise AnalysisBroken('function %s not found (anchor vanished)' % q)
        raise AnalysisBroken('function %s is ambiguous (%d overloads): %s' % (
            q, len(c), [f['sig'] for f in c]))

    def fns(self, q, tmpl=('none', 'inst')):
        return [f for f in self.by_q.get(q, []) if f['tmpl'] in tmpl]

    def functions_in(self, file_suffix, tmpl=('none', 'inst')):
        return [f for f in self.functions if f['file'].endswith(file_suffix) and f['tmpl'] in tmpl]

    def check_recovery(self, f):
        if f.get('recovery'):
            raise AnalysisBroken('function %s contains %d RecoveryExpr (front end could not '
                                 'type it)' % (f['sig'], f['recovery']))


# ------------------------------------------------------------------ tree helpers

EXPR_CHILD_KEYS = ('base', 'obj', 'fn', 'l', 'r', 'e', 'c', 't', 'init', 'idx')


def expr_children(e):
    if e is None:
        return
    for k in EXPR_CHILD_KEYS:
        v = e.get(k)
        if isinstance(v, dict):
            yield v
    for a in e.get('args', ()) or ():
        if a is not None:
            yield a
    for a in e.get('children', ()) or ():
        if a is not None:
            yield a
    for a in e.get('elems', ()) or ():
        if a is not None:
            yield a
    for fld in e.get('fields', ()) or ():
        if fld[1] is not None:
            yield fld[1]


def walk_expr(e):
    """Pre-order over an expression tree."""
    if e is None:
        return
    yield e
    for c in expr_children(e):
        yield from walk_expr(c)


def stmt_children(s):
    """(child statements, expressions evaluated by this statement itself)"""
    k = s['k']
    if k == 'block':
        return list(s['s']), []
    if k == 'expr':
        return [], [s['e']]
    if k == 'decl':
        return [], [v['init'] for v in s['vars'] if v.get('init')]
    if k == 'if':
        ss = [x for x in (s.get('init'), s['t'], s['e']) if x]
        es = [s['c']]
        if s.get('var') and s['var'].get('init'):
            es.insert(0, s['var']['init'])
        return ss, es
    if k == 'switch':
        ss = [x for x in (s.get('init'),) if x]
        for c in s['cases']:
            ss.extend(c['s'])
        return ss, [s['c']]
    if k == 'for':
        return [x for x in (s['init'], s['body']) if x], [x for x in (s['c'], s['inc']) if x]
    if k in ('while', 'do'):
        return [s['body']] if s['body'] else [], [s['c']]
    if k == 'rangefor':
        return [s['body']] if s['body'] else [], [s['range']]
    if k == 'return':
        return [], [s['e']] if s['e'] else []
    if k == 'label':
        return [s['s']] if s['s'] else [], []
    if k == 'stray_case':
        return [s['s']] if s['s'] else [], []
    if k == 'try':
        return [s['body']] + list(s['handlers']), []
    if k == 'other_stmt':
        return [c for c in s['children'] if c], []
    return [], []


def walk_stmts(s):
    if s is None:
        return
    yield s
    ss, _ = stmt_children(s)
    for c in ss:
        yield from walk_stmts(c)


_SYNTH = [10 ** 9]


def _iterator_to_index_loop(st):
    """for (auto it = v.begin(); it != v.end(); ++it) over a std::vector, where `it` is also used as a position (it - v.begin(),
    subrange(it, v.end())): the same loop counted by an index:  it  ==>  v.begin() + i,  it - v.begin()  ==>  i,  *it  ==>  v[i]."""
    init = st.get('init')
    if not init or init.get('k') != 'decl' or len(init.get('vars', [])) != 1 or st.get('c') is None or st.get('inc') is None:
        return
    it = init['vars'][0]
    i0 = strip_conv(strip_casts(it.get('init'))) if it.get('init') is not None else None
    if i0 is None or i0.get('k') != 'call' or (i0.get('callee') or '').split('::')[-1] not in ('begin', 'cbegin') or i0.get('obj') is None:
        return
    cont = i0['obj']
    cty = (strip_casts(cont).get('cty') or '').replace('const ', '')
    if not cty.startswith('std::vector<'):
        return
    c = strip_casts(st['c'])
    sides = None
    if c.get('k') == 'bin' and c.get('op') == '!=':
        sides = (c['l'], c['r'])
    elif c.get('k') == 'call' and c.get('op') == '!=':
        sides = ((c['obj'], c['args'][0]) if c.get('obj') is not None else tuple(c['args'][:2]))
    if not sides or len(sides) != 2:
        return
    a, b = strip_conv(strip_casts(sides[0])), strip_conv(strip_casts(sides[1]))
    if b is not None and b.get('k') == 'ref' and b.get('d') == it['d']:
        a, b = b, a
    if not (a is not None and a.get('k') == 'ref' and a.get('d') == it['d'] and b is not None and b.get('k') == 'call' and
            (b.get('callee') or '').split('::')[-1] in ('end', 'cend') and b.get('obj') is not None and show(strip_casts(b['obj'])) == show(strip_casts(cont))):
        return
    inc = strip_casts(st['inc'])
    tgt = inc.get('e') if inc.get('k') == 'un' and inc.get('op') == '++' else (inc.get('obj') if inc.get('k') == 'call' and inc.get('op') == '++' and not
                                                                              [x for x in inc.get('args', []) if x.get('k') != 'int'] else None)
    if tgt is None or strip_casts(tgt).get('d') != it['d']:
        return
    # the iterator is not written in the body and the container is not resized there
    for x in walk_all_exprs(st.get('body')):
        t2 = None
        if x.get('k') == 'assign':
            t2 = strip_casts(x['l'])
        elif x.get('k') == 'un' and x.get('op') in ('++', '--'):
            t2 = strip_casts(x['e'])
        elif x.get('k') == 'call' and x.get('obj') is not None and ((x.get('callee') or '').split('::')[-1] in _STD_MUTATORS or x.get('op') in ('++', '--', '+=', '-=', '=')):
            t2 = strip_casts(x['obj'])
        if t2 is not None and (t2.get('d') == it['d'] or (show(t2) == show(strip_casts(cont)) and x.get('k') == 'call' and (x.get('callee') or '').split('::')[-1] in _STD_MUTATORS)):
            return
    _SYNTH[0] += 1
    nd = _SYNTH[0]
    iname = it['name'] + '_index'

    def iref(loc=None):
        _SYNTH[0] += 1
        return {'k': 'ref', 'dk': 'var', 'd': nd, 'name': iname, 'cty': 'unsigned long', 'ty': 'std::size_t', 'loc': loc, 'sid': _SYNTH[0]}

    def is_it(x):
        x = strip_conv(strip_casts(x)) if x is not None else None
        return x is not None and x.get('k') == 'ref' and x.get('d') == it['d']

    def is_begin(x):
        x = strip_conv(strip_casts(x)) if x is not None else None
        return x is not None and x.get('k') == 'call' and (x.get('callee') or '').split('::')[-1] in ('begin', 'cbegin') and x.get('obj') is not None and \
            show(strip_casts(x['obj'])) == show(strip_casts(cont))

    def rewrite(x):
        if isinstance(x, list):
            for y in x:
                rewrite(y)
            return
        if not isinstance(x, dict):
            return
        k = x.get('k')
        # it - v.begin()
        if (k == 'call' and x.get('op') == '-') or (k == 'bin' and x.get('op') == '-'):
            ops = [x.get('l'), x.get('r')] if k == 'bin' else (([x['obj']] if x.get('obj') is not None else []) + list(x.get('args', [])))
            if len(ops) == 2 and is_it(ops[0]) and is_begin(ops[1]):
                keep = {kk: x.get(kk) for kk in ('loc', 'sid')}
                new = iref(keep['loc'])
                x.clear()
                x.update(new)
                if keep['sid'] is not None:
                    x['sid'] = keep['sid']
                return
        # *it  /  it->f
        if k == 'call' and x.get('op') == '*' and x.get('obj') is not None and not x.get('args') and is_it(x['obj']):
            keep = {kk: x.get(kk) for kk in ('loc', 'sid', 'cty', 'ty')}
            x.clear()
            x.update({'k': 'call', 'ck': 'operator', 'op': '[]', 'callee': cty.split('<')[0] + '::operator[]', 'callee_in_repo': False, 'obj': _fresh(cont), 'args': [iref(keep['loc'])],
                      'arrow': False, 'method_const': False, 'method_static': False})
            x.update(keep)
            return
        if k == 'member' and x.get('arrow') and x.get('base') is not None:
            bb = strip_casts(x['base'])
            if bb is not None and bb.get('k') == 'call' and bb.get('op') == '->' and bb.get('obj') is not None and is_it(bb['obj']):
                x['base'] = {'k': 'call', 'ck': 'operator', 'op': '[]', 'callee': cty.split('<')[0] + '::operator[]', 'callee_in_repo': False, 'obj': _fresh(cont), 'args': [iref(x.get('loc'))],
                             'arrow': False, 'method_const': False, 'method_static': False, 'cty': None, 'loc': x.get('loc'), 'sid': None}
                x['arrow'] = False
                return
        if k == 'ref' and x.get('d') == it['d']:
            keep = {kk: x.get(kk) for kk in ('loc', 'sid', 'cty', 'ty')}
            x.clear()
            x.update({'k': 'call', 'ck': 'operator', 'op': '+', 'callee': 'iterator::operator+', 'callee_in_repo': False, 'synthetic': True, 'obj': _fresh(i0), 'args': [iref(keep['loc'])],
                      'arrow': False, 'method_const': True, 'method_static': False, 'from_iterator': it['name']})
            x.update(keep)
            return
        for kk, v in list(x.items()):
            if kk == 'vars':
                for vv in v:
                    rewrite(vv.get('init'))
            elif isinstance(v, (dict, list)):
                rewrite(v)
    rewrite(st.get('body'))
    loc = it.get('loc')
    st['init'] = {'k': 'decl', 'loc': init.get('loc'), 'sid': init.get('sid'),
                  'vars': [{'d': nd, 'name': iname, 'cty': 'unsigned long', 'ty': 'std::size_t', 'is_ref': False, 'const': False, 'loc': loc, 'static_local': False, 'tls': False,
                            'init': {'k': 'int', 'v': 0, 'cty': 'int', 'ty': 'int', 'loc': loc, 'sid': None}}]}
    _SYNTH[0] += 1
    st['c'] = {'k': 'bin', 'op': '<', 'cty': 'bool', 'loc': c.get('loc'), 'sid': c.get('sid'), 'l': iref(c.get('loc')),
               'r': {'k': 'call', 'ck': 'method', 'callee': cty.split('<')[0] + '::size', 'callee_in_repo': False, 'obj': _fresh(cont), 'args': [], 'cty': 'unsigned long', 'arrow': False,
                     'method_const': True, 'method_static': False, 'loc': c.get('loc'), 'sid': _SYNTH[0]}}
    st['inc'] = {'k': 'un', 'op': '++', 'postfix': False, 'cty': 'unsigned long', 'loc': inc.get('loc'), 'sid': inc.get('sid'), 'e': iref(inc.get('loc'))}
    st['index_loop_from_iterator'] = it['name']


def _desugar_iterator_loop(st):
    init = st.get('init')
    if not init or init.get('k') != 'decl' or len(init.get('vars', [])) != 1 or st.get('c') is None or st.get('inc') is None:
        return
    it = init['vars'][0]
    i0 = strip_conv(strip_casts(it.get('init'))) if it.get('init') is not None else None
    if i0 is None or i0.get('k') != 'call' or (i0.get('callee') or '').split('::')[-1] not in ('begin', 'cbegin') or i0.get('obj') is None:
        return
    cont = i0['obj']
    cty = (strip_casts(cont).get('cty') or '').replace('const ', '')
    if not cty.startswith(('std::set<', 'std::map<', 'std::vector<', 'std::multiset<', 'std::unordered_')):
        return
    c = strip_casts(st['c'])
    sides = None
    if c.get('k') == 'bin' and c.get('op') == '!=':
        sides = (c['l'], c['r'])
    elif c.get('k') == 'call' and c.get('op') == '!=':
        sides = ((c['obj'], c['args'][0]) if c.get('obj') is not None else tuple(c['args'][:2]))
    if not sides or len(sides) != 2:
        return
    a, b = strip_conv(strip_casts(sides[0])), strip_conv(strip_casts(sides[1]))
    if b.get('k') == 'ref' and b.get('d') == it['d']:
        a, b = b, a
    if not (a.get('k') == 'ref' and a.get('d') == it['d'] and b.get('k') == 'call' and (b.get('callee') or '').split('::')[-1] in ('end', 'cend') and
            b.get('obj') is not None and show(strip_casts(b['obj'])) == show(strip_casts(cont))):
        return
    inc = strip_casts(st['inc'])
    tgt = inc.get('e') if inc.get('k') == 'un' and inc.get('op') == '++' else (inc.get('obj') if inc.get('k') == 'call' and inc.get('op') == '++' else None)
    if tgt is None or strip_casts(tgt).get('d') != it['d']:
        return
    # every use of the iterator in the body is a dereference
    derefs, arrows, others = [], [], []

    def scan(x, parent_is_deref=False):
        if isinstance(x, dict):
            k = x.get('k')
            if (k == 'un' and x.get('op') == '*' and strip_casts(x.get('e') or {}).get('d') == it['d']) or \
                    (k == 'call' and x.get('op') == '*' and x.get('obj') is not None and strip_casts(x['obj']).get('d') == it['d'] and not x.get('args')):
                derefs.append(x)
                return
            if k == 'member' and x.get('arrow') and x.get('base') is not None:
                bb = strip_casts(x['base'])
                if bb.get('d') == it['d'] and bb.get('k') == 'ref':
                    arrows.append(x)
                    return
                if bb.get('k') == 'call' and bb.get('op') == '->' and bb.get('obj') is not None and strip_casts(bb['obj']).get('d') == it['d']:
                    arrows.append(x)
                    return
            if k == 'ref' and x.get('d') == it['d']:
                others.append(x)
                return
            for v in x.values():
                scan(v)
        elif isinstance(x, list):
            for y in x:
                scan(y)
    scan(st.get('body'))
    if others or not (derefs or arrows):
        return
    _SYNTH[0] += 1
    nd = _SYNTH[0]
    ety = (derefs[0].get('cty') if derefs else None) or ''
    name = it['name'] + '_elem'
    for x in derefs:
        loc, sid = x.get('loc'), x.get('sid')
        x.clear()
        x.update({'k': 'ref', 'dk': 'var', 'd': nd, 'name': name, 'cty': ety, 'ty': ety, 'loc': loc, 'sid': sid})
    for x in arrows:
        x['base'] = {'k': 'ref', 'dk': 'var', 'd': nd, 'name': name, 'cty': ety, 'ty': ety, 'loc': x.get('loc'), 'sid': None}
        x['arrow'] = False
    var = {'d': nd, 'name': name, 'cty': ety or 'auto', 'ty': ety or 'auto', 'is_ref': True, 'const': False, 'loc': it.get('loc'), 'init': None,
           'static_local': False, 'tls': False}
    body = st.get('body')
    keep = {k2: v2 for k2, v2 in st.items() if k2 in ('loc', 'sid')}
    st.clear()
    st.update(keep)
    st.update({'k': 'rangefor', 'var': var, 'range': cont, 'body': body, 'desugared_from_iterator_loop': True})


_STD_MUTATORS = ('insert', 'emplace', 'emplace_back', 'emplace_hint', 'try_emplace', 'insert_or_assign', 'erase', 'clear', 'operator=', 'operator[]',
                 'push_back', 'pop_back', 'swap', 'operator+=', 'append', 'assign', 'resize', 'merge', 'extract', 'replace', 'push_front', 'pop_front')
_UNIQUE_ASSOC = ('std::map<', 'std::set<', 'std::unordered_map<', 'std::unordered_set<')


def _fresh(e):
    """deep copy of an expression with fresh statement ids (the copy is a different evaluation)"""
    if isinstance(e, dict):
        out = {k: _fresh(v) for k, v in e.items()}
        if 'sid' in out and out['sid'] is not None:
            _SYNTH[0] += 1
            out['sid'] = _SYNTH[0]
        return out
    if isinstance(e, list):
        return [_fresh(x) for x in e]
    return e


def _assoc_ty(obj):
    t = (strip_casts(obj).get('cty') or '').replace('const ', '') if obj is not None else ''
    return t if t.startswith(_UNIQUE_ASSOC) else None


def _desugar_lookups(f):
    body = f['body']
    # count(k) on a unique-key container is contains(k); compared with 0/1 it is a plain (negated) membership test
    for e in list(walk_all_exprs(body)):
        if e.get('k') == 'call' and (e.get('callee') or '').endswith('::count') and e.get('obj') is not None and len(e.get('args', [])) == 1 and _assoc_ty(e['obj']):
            e['callee'] = e['callee'][:-len('count')] + 'contains'
            if e.get('callee_sig'):
                e['callee_sig'] = e['callee_sig'].replace('::count(', '::contains(')
            e['was_count'] = True
            e['cty'] = 'bool'
    for e in list(walk_all_exprs(body)):
        if e.get('k') == 'bin' and e.get('op') in ('==', '!=', '>', '<', '>=', '<='):
            l, r = strip_casts(e['l']), strip_casts(e['r'])
            op = e['op']
            if r is not None and r.get('was_count') and l is not None and l.get('k') == 'int':
                l, r = r, l
                op = {'<': '>', '>': '<', '<=': '>=', '>=': '<='}.get(op, op)
            if l is not None and l.get('was_count') and r is not None and r.get('k') == 'int' and r.get('v') in (0, 1):
                truth = {('==', 0): False, ('!=', 0): True, ('>', 0): True, ('<=', 0): False, ('==', 1): True, ('!=', 1): False,
                         ('>=', 1): True, ('<', 1): False}.get((op, r['v']))
                if truth is None:
                    continue
                keep = {k2: e.get(k2) for k2 in ('loc', 'sid')}
                e.clear()
                if truth:
                    e.update(l)
                    e.update({k2: v2 for k2, v2 in keep.items() if v2 is not None})
                else:
                    e.update({'k': 'un', 'op': '!', 'postfix': False, 'cty': 'bool', 'e': l})
                    e.update(keep)
    # iterators from find()
    cands = {}
    later_defs = {}
    for x in walk_all_exprs(body):
        tgt = None
        if x.get('k') == 'assign':
            tgt = strip_casts(x['l'])
        elif x.get('k') == 'un' and x.get('op') in ('++', '--'):
            tgt = strip_casts(x['e'])
        elif x.get('k') == 'call' and x.get('obj') is not None and not x.get('method_const', True) and \
                (x.get('callee_in_repo') or (x.get('callee') or '').split('::')[-1] in _STD_MUTATORS):
            tgt = strip_casts(x['obj'])
        if tgt is not None and tgt.get('k') == 'ref' and tgt.get('d') is not None and x.get('loc'):
            later_defs.setdefault(tgt['d'], []).append(tuple(x['loc'][:2]))
    for st in walk_stmts(body):
        vs = st.get('vars', []) if st['k'] == 'decl' else ([st['var']] if st['k'] == 'if' and st.get('var') else [])
        for v in vs:
            i0 = strip_conv(strip_casts(v.get('init'))) if v.get('init') is not None else None
            if i0 is None or i0.get('k') != 'call' or not (i0.get('callee') or '').endswith('::find') or i0.get('obj') is None or len(i0.get('args', [])) != 1:
                continue
            if not _assoc_ty(i0['obj']) or v.get('is_ref'):
                continue
            key = strip_conv(strip_casts(i0['args'][0]))
            # the key (and the container expression) must mean the same thing wherever the iterator is used
            stable = True
            for y in list(walk_expr(key)) + list(walk_expr(i0['obj'])):
                if y.get('k') == 'call' and not (y.get('k') == 'call' and y.get('ck') == 'operator' and y.get('op') in ('+', '-')):
                    stable = False
                if y.get('k') == 'ref' and y.get('dk') in ('var', 'param') and any(l > tuple(v['loc'][:2]) for l in later_defs.get(y.get('d'), []) if v.get('loc')):
                    stable = False
                if y.get('k') in ('un',) and y.get('op') in ('++', '--', '*'):
                    stable = False
                if y.get('k') == 'assign':
                    stable = False
            if stable and v.get('d') not in later_defs:
                cands[v['d']] = (v, i0['obj'], key, i0)
    if not cands:
        return
    pats = {d: [] for d in cands}
    others = set()

    def is_it(x, d=None):
        x = strip_conv(strip_casts(x)) if x is not None else None
        if x is not None and x.get('k') == 'ref' and x.get('d') in cands and (d is None or x['d'] == d):
            return x['d']
        return None

    def scan(x):
        if isinstance(x, list):
            for y in x:
                scan(y)
            return
        if not isinstance(x, dict):
            return
        k = x.get('k')
        if k in ('bin', 'call') and x.get('op') in ('==', '!='):
            if k == 'bin':
                sides = [x.get('l'), x.get('r')]
            else:
                sides = ([x['obj']] if x.get('obj') is not None else []) + list(x.get('args', []))
            if len(sides) == 2:
                for a, b in ((sides[0], sides[1]), (sides[1], sides[0])):
                    d = is_it(a)
                    bb = strip_conv(strip_casts(b)) if b is not None else None
                    if d is not None and bb is not None and bb.get('k') == 'call' and (bb.get('callee') or '').split('::')[-1] in ('end', 'cend') and \
                            bb.get('obj') is not None and show(strip_casts(bb['obj'])) == show(strip_casts(cands[d][1])):
                        pats[d].append(('cmp', x))
                        return
        if k == 'member' and x.get('name') in ('first', 'second') and x.get('base') is not None:
            b = strip_casts(x['base'])
            if b is not None and b.get('k') == 'paren':
                b = strip_casts(b['e'])
            if b is not None and b.get('k') == 'call' and b.get('op') in ('->', '*') and b.get('obj') is not None and not b.get('args') and is_it(b['obj']) is not None:
                pats[is_it(b['obj'])].append((x['name'], x))
                return
        if k == 'call' and x.get('op') == '*' and x.get('obj') is not None and not x.get('args') and is_it(x['obj']) is not None and \
                cands[is_it(x['obj'])][1] is not None and _assoc_ty(cands[is_it(x['obj'])][1]).startswith(('std::set<', 'std::unordered_set<')):
            pats[is_it(x['obj'])].append(('elem', x))
            return
        if k == 'call' and (x.get('callee') or '').endswith('::erase') and x.get('obj') is not None and len(x.get('args', [])) == 1 and is_it(x['args'][0]) is not None and \
                show(strip_casts(x['obj'])) == show(strip_casts(cands[is_it(x['args'][0])][1])):
            pats[is_it(x['args'][0])].append(('erase', x))
            scan(x['obj'])
            return
        if k == 'ref' and x.get('d') in cands:
            others.add(x['d'])
            return
        for kk, v in x.items():
            if kk == 'vars':
                for vv in v:
                    scan(vv.get('init'))
            elif isinstance(v, (dict, list)):
                scan(v)
    scan(body)
    for d, (v, X, key, find) in cands.items():
        if d in others or not pats[d]:
            continue
        for kind, x in pats[d]:
            keep = {k2: x.get(k2) for k2 in ('loc', 'sid')}
            cty = x.get('cty')
            if kind == 'cmp':
                present = x.get('op') == '!='
                c = {'k': 'call', 'ck': 'method', 'callee': find['callee'][:-len('find')] + 'contains', 'callee_rec': find.get('callee_rec'),
                     'callee_in_repo': False, 'obj': _fresh(X), 'args': [_fresh(key)], 'cty': 'bool', 'arrow': False, 'method_const': True,
                     'method_static': False, 'from_find': v['name'], 'loc': keep['loc']}
                x.clear()
                if present:
                    x.update(c)
                    x['sid'] = keep['sid']
                else:
                    _SYNTH[0] += 1
                    c['sid'] = _SYNTH[0]
                    x.update({'k': 'un', 'op': '!', 'postfix': False, 'cty': 'bool', 'e': c})
                    x.update(keep)
            elif kind == 'second':
                x.clear()
                # at(): the element of a key that is present, and no insertion when it is not (like the dereference it replaces)
                x.update({'k': 'call', 'ck': 'method', 'callee': find['callee'][:-len('find')] + 'at', 'callee_rec': find.get('callee_rec'),
                          'callee_in_repo': False, 'obj': _fresh(X), 'args': [_fresh(key)], 'cty': cty, 'arrow': False, 'method_const': True,
                          'method_static': False, 'from_find': v['name']})
                x.update(keep)
            elif kind in ('first', 'elem'):
                x.clear()
                x.update(_fresh(key))
                x.update({k2: v2 for k2, v2 in keep.items() if v2 is not None})
            elif kind == 'erase':
                x['args'] = [_fresh(key)]
                x['from_find'] = v['name']
        v['desugared_lookup'] = True


def _enum_test(c):
    """(subject expression, enumerator ref) of a condition `subject == Enumerator`"""
    c = strip_casts(c)
    while c is not None and c.get('k') == 'paren':
        c = strip_casts(c['e'])
    if c is None or c.get('k') != 'bin' or c.get('op') != '==':
        return None
    l, r = strip_casts(c['l']), strip_casts(c['r'])
    for a, b in ((l, r), (r, l)):
        if b is not None and b.get('k') == 'ref' and b.get('dk') == 'enumerator' and a is not None and a.get('k') in ('ref', 'member'):
            if not any(x.get('k') == 'call' for x in walk_expr(a)):
                return a, b
    return None


def _has_loose_break(s):
    if s is None:
        return False
    if s['k'] == 'break':
        return True
    if s['k'] in ('for', 'while', 'do', 'rangefor', 'switch'):
        return False
    ss, _ = stmt_children(s)
    return any(_has_loose_break(c) for c in ss)


def _chains_to_switch(s):
    """in place, bottom-up: if (S == A) X else if (S == B) Y [else Z]  ->  switch (S) { case A: X break; case B: Y break; default: Z }"""
    if s is None:
        return
    ss, _ = stmt_children(s)
    for c in ss:
        _chains_to_switch(c)
    if s['k'] != 'if' or s.get('var') or s.get('init'):
        return
    arms = []
    cur = s
    subj_txt = None
    tail = None
    while cur is not None and cur.get('k') == 'if' and not cur.get('var') and not cur.get('init'):
        t = _enum_test(cur['c'])
        if t is None or (subj_txt is not None and show(t[0]) != subj_txt):
            break
        subj_txt = show(t[0])
        arms.append((t, cur['t']))
        tail = cur.get('e')
        cur = cur.get('e')
        if cur is not None and cur.get('k') == 'block' and len(cur.get('s', [])) == 1 and cur['s'][0].get('k') == 'if':
            cur = cur['s'][0]
    else:
        tail = None if cur is None else tail
    if len(arms) < 2:
        return
    # the statement after the recognised arms: `cur` when the chain stopped at a non-matching else-if, otherwise the final else
    rest = cur if (cur is not None and (cur.get('k') != 'if' or _enum_test(cur['c']) is None or show(_enum_test(cur['c'])[0]) != subj_txt)) else None
    if rest is None:
        rest = None
    if any(_has_loose_break(body) for _, body in arms) or _has_loose_break(rest):
        return
    cases = []
    for (subj, en), body in arms:
        lab = {'enumerator': en.get('q'), 'name': en.get('name'), 'loc': en.get('loc')}
        if en.get('v') is not None:
            lab['v'] = en['v']
        stmts = list(body['s']) if body is not None and body.get('k') == 'block' else ([body] if body is not None else [])
        cases.append({'labels': [lab], 's': [{'k': 'block', 's': stmts, 'loc': (body or s).get('loc'), 'sid': None}, {'k': 'break', 'loc': (body or s).get('loc'), 'sid': None}]})
    if rest is not None:
        stmts = list(rest['s']) if rest.get('k') == 'block' else [rest]
        cases.append({'labels': ['default'], 's': [{'k': 'block', 's': stmts, 'loc': rest.get('loc'), 'sid': None}]})
    keep = {k: s.get(k) for k in ('loc', 'sid')}
    subj = arms[0][0][0]
    s.clear()
    s.update({'k': 'switch', 'c': subj, 'cases': cases, 'from_if_chain': True})
    s.update(keep)


def walk_all_exprs(s):
    """Every expression node in a statement subtree (pre-order, source order)."""
    for st in walk_stmts(s):
        _, es = stmt_children(st)
        for e in es:
            yield from walk_expr(e)


def calls_in(s, callee=None):
    for e in walk_all_exprs(s):
        if e.get('k') == 'call' and (callee is None or e.get('callee') == callee):
            yield e


def is_structured(f):
    for st in walk_stmts(f['body']):
        if st['k'] in ('goto', 'label', 'try', 'other_stmt', 'stray_case'):
            return False
    return True


def show(e, depth=0):
    """Compact, position-free rendering of an expression (for reports and finding keys)."""
    if e is None:
        return ''
    if depth > 12:
        return '…'
    k = e.get('k')
    d = depth + 1
    if k == 'ref':
        return e['name']
    if k == 'member':
        b = e['base']
        if b and b.get('k') == 'this':
            return e['name']
        return show(b, d) + ('->' if e['arrow'] else '.') + e['name']
    if k == 'this':
        return 'this'
    if k == 'call':
        name = (e.get('callee') or '?')
        short = name.split('::')[-1]
        args = ', '.join(show(a, d) for a in e['args'])
        if e.get('ck') == 'operator':
            op = e.get('op')
            if e.get('obj') is not None:
                if op == '[]':
                    return '%s[%s]' % (show(e['obj'], d), args)
                if op == '()':
                    return '%s(%s)' % (show(e['obj'], d), args)
                if not e['args']:
                    if op == '->':
                        return show(e['obj'], d)
                    return '%s%s' % (op, show(e['obj'], d))
                return '(%s %s %s)' % (show(e['obj'], d), op, args)
            if len(e['args']) == 2:
                return '(%s %s %s)' % (show(e['args'][0], d), op, show(e['args'][1], d))
            return '%s(%s)' % (short, args)
        if e.get('obj') is not None:
            o = e['obj']
            if o.get('k') == 'this':
                return '%s(%s)' % (short, args)
            return '%s%s%s(%s)' % (show(o, d), '->' if e.get('arrow') else '.', short, args)
        if e.get('callee') is None and e.get('fn') is not None:
            return '%s(%s)' % (show(e['fn'], d), args)
        return '%s(%s)' % (name if name.startswith('std::') else short, args)
    if k in ('bin', 'assign'):
        return '(%s %s %s)' % (show(e['l'], d), e['op'], show(e['r'], d))
    if k == 'un':
        return ('%s%s' % (show(e['e'], d), e['op'])) if e.get('postfix') else ('%s%s' % (e['op'], show(e['e'], d)))
    if k == 'cast':
        if e.get('implicit'):
            return show(e['e'], d)
        return '(%s)%s' % (e['cty'], show(e['e'], d))
    if k in ('int', 'char'):
        return str(e['v'])
    if k == 'bool':
        return 'true' if e['v'] else 'false'
    if k == 'str':
        return json.dumps(e['v'])
    if k == 'null':
        return 'NULL'
    if k == 'cond':
        return '(%s ? %s : %s)' % (show(e['c'], d), show(e['t'], d), show(e['e'], d))
    if k == 'construct':
        if e.get('copy_or_move') and len(e['args']) == 1:
            return show(e['args'][0], d)
        return '%s(%s)' % (e['rec'].split('::')[-1], ', '.join(show(a, d) for a in e['args']))
    if k == 'init':
        if e.get('fields'):
            return '{' + ', '.join('.%s=%s' % (n, show(v, d)) for n, v in e['fields']) + '}'
        return '{' + ', '.join(show(v, d) for v in e.get('elems', [])) + '}'
    if k == 'lambda':
        return '[lambda]'
    if k == 'index':
        return '%s[%s]' % (show(e['base'], d), show(e['idx'], d))
    if k == 'new':
        return 'new %s' % e['alloc_ty']
    if k == 'delete':
        return 'delete %s' % show(e['e'], d)
    if k == 'unresolved':
        b = e.get('base')
        return (show(b, d) + '.' if b else '') + e['name']
    if k == 'zeroinit':
        return '{}'
    if k == 'sizeof':
        return 'sizeof'
    return '<%s>' % k


def strip_copies(e):
    """Look through copy/move constructions and value-preserving wrappers."""
    while e is not None:
        if e.get('k') == 'construct' and e.get('copy_or_move') and len(e['args']) == 1:
            e = e['args'][0]
        elif e.get('k') == 'call' and (e.get('callee') or '').split('<')[0] in ('std::move', 'std::forward', 'std::as_const') and len(e.get('args', [])) == 1 and e.get('obj') is None:
            e = e['args'][0]          # std::move(x) denotes x (whether x may be moved from is a question some rules ask of the call itself)
        elif e.get('k') == 'cast':
            # a cast wrapped around a copy / move: keep peeling only when something value-preserving follows
            inner = e.get('e')
            if inner is not None and ((inner.get('k') == 'construct' and inner.get('copy_or_move')) or
                                      (inner.get('k') == 'call' and (inner.get('callee') or '').split('<')[0] in ('std::move', 'std::forward', 'std::as_const'))):
                e = inner
            else:
                break
        else:
            break
    return e


def strip_casts(e):
    while e is not None:
        e = strip_copies(e)
        if e is not None and e.get('k') == 'cast':
            e = e['e']
        else:
            break
    return e


def strip_conv(e):
    """strip casts, copies and single-argument converting constructions (iterator -> const_iterator ...)"""
    while e is not None:
        e2 = strip_casts(e)
        if e2 is not None and e2.get('k') == 'construct' and len(e2['args']) == 1 and not e2.get('ctor_in_repo'):
            e = e2['args'][0]
            continue
        return e2
    return e


def member_path(e):
    """For member(member(ref x, a), b) returns (root expr, ['a','b'])."""
    path = []
    while e is not None and e.get('k') == 'member' and e.get('mk') == 'field':
        path.append(e['name'])
        e = e['base']
    path.reverse()
    return e, path


def locstr(f, e_or_loc):
    loc = e_or_loc.get('loc') if isinstance(e_or_loc, dict) else e_or_loc
    fn = f['file'] if isinstance(f, dict) else f
    if loc and len(loc) == 2:
        return '%s:%d' % (os.path.relpath(fn, REPO) if fn.startswith(REPO) else fn, loc[0])
    return fn
