"""Undoing "extract function": a copy of a function in which the calls of in-repo helpers with exactly one call site are
replaced by the helper's body.

Used on demand by rule engines whose anchor (a loop nest, a call sequence) is no longer found in the function itself: the
rules then run on the inlined copy.  The copy is a statement tree in the vocabulary of the fact base plus

  {'k': 'block', 's': [...], 'inlined_from': <helper>, 'leave_id': n}   the body of the helper
  {'k': 'leave', 'target': n}                                          a `return` of the helper (control continues after the block)

which the CFG builder understands.  Reference parameters are replaced by the argument expression, value parameters become
locals initialised with the argument, a returned value is assigned to what the call statement assigned to."""
import copy

from .facts import walk_stmts, walk_all_exprs, strip_casts, stmt_children, _fresh, _SYNTH

_LEAVE = [0]


def _calls_in(facts, q):
    out = []
    for g in facts.functions:
        if g.get('body') is None or g['tmpl'] == 'pattern':
            continue
        for e in walk_all_exprs(g['body']):
            if e.get('k') == 'call' and e.get('callee') == q:
                out.append((g, e))
    return out


def inlinable_helper(facts, f, call, single_use=True):
    """the helper called by `call` (in f) when it may be inlined: an in-repo free function in the same file with a body, not
    recursive, called from this one place only, with as many arguments as parameters"""
    if call.get('callee_lambda_id'):
        # a local lambda (auto resolve = [this, &x](T &a, U b) { .. }): its body sees the enclosing function's variables under
        # the same declarations; captures by value of anything but `this` would be copies taken at the lambda expression
        hs = [h for h in facts.functions if h['q'] == call['callee_lambda_id'] and h.get('body') is not None and h['kind'] == 'lambda' and h['tmpl'] in ('none', 'inst')]
        if len(hs) != 1 or len(hs[0].get('params', [])) != len(call.get('args', [])):
            return None
        h = hs[0]
        lam = [x for x in walk_all_exprs(f['body']) if x.get('k') == 'lambda' and x.get('fn') == h['q']]
        if len(lam) != 1 or any(not c.get('byref') and c.get('name') != 'this' for c in lam[0].get('captures', [])):
            return None
        if any(e.get('callee_lambda_id') == h['q'] for e in walk_all_exprs(h['body']) if e.get('k') == 'call'):
            return None
        if any(st['k'] in ('goto', 'label', 'try') for st in walk_stmts(h['body'])):
            return None
        if single_use and sum(1 for x in walk_all_exprs(f['body']) if x.get('k') == 'call' and x.get('callee_lambda_id') == h['q']) != 1:
            return None
        return h
    if not call.get('callee_in_repo') or call.get('ck') == 'operator':
        return None
    on_this = False
    if call.get('obj') is not None:
        # a member function called on this very object (this->helper(..)) from a member function of the same class
        o = strip_casts(call['obj'])
        if o is None or o.get('k') != 'this' or not f.get('rec'):
            return None
        on_this = True
    hs = [h for h in facts.functions if h['q'] == call.get('callee') and h.get('body') is not None and h['tmpl'] in ('none', 'inst') and
          h['file'] == f['file'] and h.get('kind') not in ('lambda', 'ctor', 'dtor') and
          ((on_this and h.get('rec') == f.get('rec')) or (not on_this and h.get('kind') != 'method'))]
    if len(hs) != 1:
        return None
    h = hs[0]
    if h is f or len(h.get('params', [])) != len(call.get('args', [])):
        return None
    if single_use:
        sites = _calls_in(facts, h['q'])
        if len(sites) != 1:
            return None
    if any(e.get('callee') == h['q'] for e in walk_all_exprs(h['body']) if e.get('k') == 'call'):
        return None
    if any(st['k'] in ('goto', 'label', 'try') for st in walk_stmts(h['body'])):
        return None
    return h


def _subst_refs(node, mapping, to_var):
    """in place: references to the parameters in `mapping` become a fresh copy of the argument; parameters in `to_var`
    become locals"""
    if isinstance(node, list):
        for x in node:
            _subst_refs(x, mapping, to_var)
        return
    if not isinstance(node, dict):
        return
    if node.get('k') == 'ref' and node.get('d') in mapping:
        keep = {k: node.get(k) for k in ('loc', 'sid')}
        new = _fresh(mapping[node['d']])
        node.clear()
        node.update(new)
        for k, v in keep.items():
            if v is not None:
                node[k] = v
        return
    if node.get('k') == 'ref' and node.get('d') in to_var:
        node['dk'] = 'var'
    for k, v in list(node.items()):
        if isinstance(v, (dict, list)):
            _subst_refs(v, mapping, to_var)


def _replace_returns(s, target_expr, leave_id):
    """in place: `return e;` -> { target = e; leave }   (statements of nested lambdas are not part of the tree)"""
    if s is None:
        return s
    if s['k'] == 'return':
        out = []
        if s.get('e') is not None and target_expr is not None:
            _SYNTH[0] += 1
            out.append({'k': 'expr', 'loc': s.get('loc'), 'sid': None,
                        'e': {'k': 'assign', 'op': '=', 'l': _fresh(target_expr), 'r': s['e'], 'cty': target_expr.get('cty'), 'loc': s.get('loc'), 'sid': _SYNTH[0]}})
        elif s.get('e') is not None:
            out.append({'k': 'expr', 'loc': s.get('loc'), 'sid': None, 'e': s['e']})
        out.append({'k': 'leave', 'target': leave_id, 'loc': s.get('loc')})
        return {'k': 'block', 's': out, 'loc': s.get('loc')}
    k = s['k']
    if k == 'block':
        s['s'] = [_replace_returns(c, target_expr, leave_id) for c in s['s']]
    elif k == 'if':
        for key in ('t', 'e'):
            if s.get(key):
                s[key] = _replace_returns(s[key], target_expr, leave_id)
    elif k in ('for', 'while', 'do', 'rangefor'):
        if s.get('body'):
            s['body'] = _replace_returns(s['body'], target_expr, leave_id)
    elif k == 'switch':
        for c in s['cases']:
            c['s'] = [_replace_returns(x, target_expr, leave_id) for x in c['s']]
    return s


def _inline_one(facts, f, stmt, want=None, single_use=True):
    """the replacement for statement `stmt` of f when it is `h(..);`, `x = h(..);`, `T x = h(..);` or `return h(..);`
    with an inlinable h; None otherwise"""
    call = target = None
    pre = []
    is_return = False
    if stmt['k'] == 'expr':
        e = strip_casts(stmt['e'])
        if e is not None and e.get('k') == 'call':
            call = e
        elif e is not None and e.get('k') == 'assign' and e.get('op', '=') == '=' and strip_casts(e['r']) is not None and strip_casts(e['r']).get('k') == 'call':
            call, target = strip_casts(e['r']), e['l']
    elif stmt['k'] == 'decl' and len(stmt['vars']) == 1 and stmt['vars'][0].get('init') is not None:
        v = stmt['vars'][0]
        e = strip_casts(v['init'])
        if e is not None and e.get('k') == 'call' and not v.get('is_ref'):
            call = e
            v2 = dict(v)
            v2['init'] = None
            pre = [{'k': 'decl', 'vars': [v2], 'loc': stmt.get('loc'), 'sid': stmt.get('sid')}]
            target = {'k': 'ref', 'dk': 'var', 'd': v['d'], 'name': v['name'], 'cty': v.get('cty'), 'ty': v.get('ty'), 'loc': v.get('loc'), 'sid': None}
    elif stmt['k'] == 'return' and stmt.get('e') is not None:
        e = strip_casts(stmt['e'])
        if e is not None and e.get('k') == 'call':
            call, is_return = e, True
    if call is None:
        return None
    h = inlinable_helper(facts, f, call, single_use)
    if h is None or (want is not None and not want(h, call)):
        return None
    body = _fresh(h['body']) if not single_use else copy.deepcopy(h['body'])
    params = h['params']
    if not single_use:
        # several copies of one helper in one function: the locals (and value parameters) of each copy are its own
        params = copy.deepcopy(params)
        ren = {}
        for st in walk_stmts(body):
            for v in (st.get('vars', []) if st['k'] == 'decl' else [st['var']] if st['k'] == 'rangefor' and isinstance(st.get('var'), dict) else []):
                if v.get('d') is not None and not v.get('static_local'):
                    _SYNTH[0] += 1
                    ren[v['d']] = 50000000 + _SYNTH[0]
                    v['d'] = ren[v['d']]
        for p in params:
            if '&' not in (p.get('cty') or ''):
                _SYNTH[0] += 1
                ren[p['d']] = 50000000 + _SYNTH[0]
                p['d'] = ren[p['d']]
        if ren:
            def _ren(n):
                if isinstance(n, list):
                    for x in n:
                        _ren(x)
                elif isinstance(n, dict):
                    if n.get('k') == 'ref' and n.get('d') in ren:
                        n['d'] = ren[n['d']]
                    for v in n.values():
                        if isinstance(v, (dict, list)):
                            _ren(v)
            _ren(body)
    mapping, to_var, decls = {}, set(), []
    for p, a in zip(params, call['args']):
        pty = p.get('cty') or ''
        if '&' in pty:
            mapping[p['d']] = a
        else:
            to_var.add(p['d'])
            decls.append({'k': 'decl', 'loc': call.get('loc'), 'sid': None,
                          'vars': [{'d': p['d'], 'name': p['name'], 'cty': p.get('cty'), 'ty': p.get('ty'), 'is_ref': False, 'const': False,
                                    'init': _fresh(a), 'loc': call.get('loc'), 'static_local': False, 'tls': False}]})
    _subst_refs(body, mapping, to_var)
    if is_return:
        return {'k': 'block', 's': decls + [body], 'inlined_from': h['q'], 'loc': stmt.get('loc'), 'sid': stmt.get('sid')}
    if pre and body.get('k') == 'block' and body.get('s') and body['s'][-1].get('k') == 'return' and body['s'][-1].get('e') is not None and \
            sum(1 for x in walk_stmts(body) if x['k'] == 'return') == 1:
        # `T x = h(..)` where h ends in its only return: the statements of h, then `T x = <returned expression>` - x keeps a single definition
        v2 = dict(stmt['vars'][0])
        v2['init'] = body['s'][-1]['e']
        inner = {'k': 'block', 's': decls + body['s'][:-1], 'inlined_from': h['q'], 'loc': stmt.get('loc')}
        return {'k': 'block', 's': [inner, {'k': 'decl', 'vars': [v2], 'loc': stmt.get('loc'), 'sid': stmt.get('sid')}],
                'loc': stmt.get('loc'), 'sid': None, 'flattened': True}
    _LEAVE[0] += 1
    lid = _LEAVE[0]
    body = _replace_returns(body, target, lid)
    return {'k': 'block', 's': pre + [{'k': 'block', 's': decls + [body], 'inlined_from': h['q'], 'leave_id': lid, 'loc': stmt.get('loc')}],
            'loc': stmt.get('loc'), 'sid': stmt.get('sid'), 'flattened': bool(pre)}


def _rewrite(facts, f, s, done, want=None, single_use=True):
    if s is None:
        return s
    rep = _inline_one(facts, f, s, want, single_use)
    if rep is not None:
        done.append(rep)
        return rep
    k = s['k']
    if k == 'block':
        new = []
        for c in s['s']:
            r = _rewrite(facts, f, c, done, want, single_use)
            # a declaration hoisted out of its initialiser stays visible to the following statements
            if r is not c and r.get('flattened'):
                new.extend(r['s'])
            else:
                new.append(r)
        s['s'] = new
    elif k == 'if':
        for key in ('t', 'e'):
            if s.get(key):
                s[key] = _rewrite(facts, f, s[key], done, want, single_use)
    elif k in ('for', 'while', 'do', 'rangefor'):
        if s.get('body'):
            s['body'] = _rewrite(facts, f, s['body'], done, want, single_use)
    elif k == 'switch':
        for c in s['cases']:
            c['s'] = [_rewrite(facts, f, x, done, want, single_use) for x in c['s']]
    return s


def inlined(facts, f, rounds=2, want=None, single_use=True):
    """a copy of f with its single-use helpers inlined (at most `rounds` levels); (copy, names of the inlined helpers).
    The copy has its own 'sig' so that per-function caches (CFG, definitions) do not mix it up with the original."""
    g = copy.deepcopy(f)
    names = []
    for _ in range(rounds):
        done = []
        g['body'] = _rewrite(facts, f, g['body'], done, want, single_use)
        if not done:
            break
        for d in done:
            for b in walk_stmts(d):
                if b.get('inlined_from'):
                    names.append(b['inlined_from'])
    if names:
        g['sig'] = f['sig'] + ' [inlined: %s]' % ', '.join(sorted(set(names)))
        g['inlined'] = sorted(set(names))
    return g, sorted(set(names))
