"""E4 `grammar`: the parser as a recogniser, compared with the reference grammar.

From the statement trees of the grammar functions in parse.cpp a *skeleton* is derived that keeps
exactly what decides acceptance: look-ahead tests, match()/matchmk() calls, calls of other grammar
functions, pushes onto the error list, returns and loops.  The skeleton is then run as a
non-deterministic *generator*: look-ahead tests constrain the next token, match(T) emits T, any
error push kills the branch.  This enumerates exactly the token sequences (up to N tokens) that the
real parser accepts without recording an error.  The reference grammar (spec/grammar.txt) is
enumerated to the same bound; the two finite sets must be equal, a differing sentence is the witness."""
import os
import re

from .facts import (Facts, AnalysisBroken, VERIF, walk_expr, walk_stmts, show, strip_casts, strip_copies, member_path,
                    expr_children)
from .nullshape import ParserShapes


# ----------------------------------------------------------------------------- reference grammar
def load_reference():
    prods = {}
    start = None
    for ln in open(os.path.join(VERIF, 'spec', 'grammar.txt')):
        if ln.startswith('#') or '->' not in ln:
            m = re.match(r'#\s*start symbol:\s*(\w+)', ln)
            if m:
                start = m.group(1)
            continue
        lhs, rhs = ln.split('->', 1)
        lhs = lhs.strip()
        for alt in rhs.split('|'):
            syms = [s for s in alt.split() if s != 'eps']
            prods.setdefault(lhs, []).append(syms)
    return start, prods


def enumerate_grammar(start, prods, n):
    """all sentences (tuples of terminals) with at most n tokens"""
    nts = set(prods)
    # minimal yield length per symbol
    minlen = {k: 10 ** 6 for k in nts}
    changed = True
    while changed:
        changed = False
        for a, alts in prods.items():
            for alt in alts:
                l = sum(minlen[s] if s in nts else 1 for s in alt)
                if l < minlen[a]:
                    minlen[a] = l
                    changed = True
    memo = {}

    def gen(sym, budget):
        key = (sym, budget)
        if key in memo:
            return memo[key]
        memo[key] = set()      # cycle guard (left recursion would need more; the reference is LL(1))
        out = set()
        if sym not in nts:
            out = {(sym,)} if budget >= 1 else set()
        else:
            for alt in prods[sym]:
                partial = {()}
                rest_min = [sum(minlen[s] if s in nts else 1 for s in alt[i + 1:]) for i in range(len(alt))]
                for i, s in enumerate(alt):
                    nxt = set()
                    for p in partial:
                        b = budget - len(p) - rest_min[i]
                        if b < 0:
                            continue
                        for y in gen(s, b):
                            nxt.add(p + y)
                    partial = nxt
                    if not partial:
                        break
                out |= partial
        memo[key] = out
        return out
    return gen(start, n)


# ----------------------------------------------------------------------------- skeleton of the real parser
class Skeleton:
    def __init__(self, facts=None):
        self.facts = facts or Facts(['Compiler/src/parse.cpp'])
        self.ps = ParserShapes.__new__(ParserShapes)     # only for la_cond
        self.tokens = [n for n, _ in self.facts.enum('Theo::Token::Type')['enumerators']]
        self.ps.ALL = set(self.tokens)
        self.ps.facts = self.facts
        self.ALL = frozenset(self.tokens)
        self.fns = {}
        for f in self.facts.functions_in('parse.cpp'):
            if f['tmpl'] in ('none', 'inst'):
                self.fns.setdefault(f['q'], f)
        self.grammar_fns = {q: f for q, f in self.fns.items() if any('ParseState' in p['cty'] for p in f['params'])}
        self.match_fn = self.fns.get('ParseState::match')
        if self.match_fn is None:
            raise AnalysisBroken('ParseState::match not found (anchor vanished)')
        self.skel = {}
        self._bind = {}
        for q, f in self.grammar_fns.items():
            if any(self._is_enum_param(p) for p in f['params']):
                continue              # specialised per call site (constant enumerator arguments)
            self._alias = {}
            self.skel[q] = self.stmt(f['body'], f)
        self.alternatives = 0

    @staticmethod
    def _is_enum_param(p):
        c = (p.get('cty') or '').replace('const ', '')
        return (c.endswith('::Type') or c == 'bool') and '&' not in c and '*' not in c

    def skeleton(self, key):
        """key: function name, or (function name, ((param decl, enumerator), ...)) for a specialisation"""
        if key not in self.skel:
            q, binding = key
            saved_alias, saved_bind = getattr(self, '_alias', {}), self._bind
            self._alias, self._bind = {}, dict(binding)
            try:
                self.skel[key] = self.stmt(self.grammar_fns[q]['body'], self.grammar_fns[q])
            finally:
                self._alias, self._bind = saved_alias, saved_bind
        return self.skel[key]

    def const_cond(self, c):
        """truth of a condition over enumerator parameters bound by the specialisation, None when it is something else"""
        c = strip_casts(c)
        if c is None:
            return None
        k = c.get('k')
        if k == 'paren':
            return self.const_cond(c['e'])
        if k == 'ref' and c.get('d') in self._bind and isinstance(self._bind[c['d']], bool):
            return self._bind[c['d']]
        if k == 'bool':
            return bool(c['v'])
        if k == 'un' and c['op'] == '!':
            v = self.const_cond(c['e'])
            return None if v is None else not v
        if k == 'bin' and c['op'] in ('&&', '||'):
            a, b = self.const_cond(c['l']), self.const_cond(c['r'])
            if c['op'] == '&&':
                return False if (a is False or b is False) else (True if (a and b) else None)
            return True if (a or b) else (False if (a is False and b is False) else None)
        if k == 'bin' and c['op'] in ('==', '!='):
            l, r = strip_casts(c['l']), strip_casts(c['r'])
            for a, b in ((l, r), (r, l)):
                if a.get('k') == 'ref' and a.get('d') in self._bind and b.get('k') == 'ref' and b.get('dk') == 'enumerator':
                    return (self._bind[a['d']] == b['name']) == (c['op'] == '==')
        return None

    # events of one expression, in evaluation order
    def events(self, e, f, out):
        if e is None:
            return
        e = strip_copies(e)
        k = e.get('k')
        if k == 'lambda':
            return
        if k == 'cond' or (k == 'bin' and e.get('op') in ('&&', '||')):
            lc = self.lacond(e['c'] if k == 'cond' else e)
            if k == 'cond' and lc is not None:
                a, b = [], []
                self.events(e['t'], f, a)
                self.events(e['e'], f, b)
                out.append(('if', frozenset(lc[0]), frozenset(lc[1]), ('seq', a), ('seq', b)))
                return
        for c in expr_children(e):
            self.events(c, f, out)
        if k == 'call':
            callee = e.get('callee') or ''
            if callee in ('ParseState::match', 'ParseState::matchmk'):
                t = strip_casts(e['args'][0])
                if t.get('k') == 'ref' and t.get('dk') == 'enumerator':
                    out.append(('match', t['name']))
                elif t.get('k') == 'ref' and t.get('d') in self._bind:
                    out.append(('match', self._bind[t['d']]))
                elif callee == 'ParseState::match' and (t.get('callee') or '').endswith('::lookahead'):
                    out.append(('advance',))
                else:
                    raise AnalysisBroken('parse.cpp: match() with a non-constant token in %s: %s' % (f['q'], show(e)))
            elif callee in self.grammar_fns:
                gfn = self.grammar_fns[callee]
                if any(self._is_enum_param(p) for p in gfn['params']):
                    binding = []
                    for p, a in zip(gfn['params'], e['args']):
                        if not self._is_enum_param(p):
                            continue
                        a = strip_casts(a)
                        if a.get('k') == 'ref' and a.get('dk') == 'enumerator':
                            binding.append((p['d'], a['name']))
                        elif a.get('k') == 'bool':
                            binding.append((p['d'], bool(a['v'])))       # a flag of the helper (has_neq_zero): constant per call site
                        elif a.get('k') == 'ref' and a.get('d') in self._bind:
                            binding.append((p['d'], self._bind[a['d']]))
                        else:
                            raise AnalysisBroken('parse.cpp: %s is called with a non-constant kind argument in %s: %s' % (callee, f['q'], show(e)))
                    out.append(('call', (callee, tuple(binding))))
                else:
                    out.append(('call', callee))
            elif callee.endswith('::push_back') and e.get('obj') is not None and member_path(strip_casts(e['obj']))[1][-1:] == ['errors']:
                out.append(('error',))

    def is_node_ptr(self, cty):
        return (cty or '').replace('const ', '').replace('Theo::', '').strip() in ('Node *', 'Node *const')

    def classify(self, e):
        """nullness of a Node* valued expression: 'N', 'P', 'last' (result of the grammar function called last), ('var', d) or 'U'"""
        e = strip_casts(strip_copies(e)) if e is not None else None
        if e is None:
            return 'U'
        k = e.get('k')
        if k == 'paren':
            return self.classify(e['e'])
        if k == 'null' or (k == 'int' and e.get('v') == 0):
            return 'N'
        if k == 'new':
            return 'P'
        if k == 'call':
            callee = e.get('callee') or ''
            if callee in self.grammar_fns:
                return 'last'
            if callee.endswith('::mk') or callee.endswith('::matchmk'):
                return 'P'
        if k == 'ref' and e.get('dk') == 'var':
            return ('var', e['d'])
        return 'U'

    def nulltest(self, c):
        """(d, True) when c is true iff variable d is NULL, (d, False) when c is true iff it is not; None otherwise"""
        c = strip_casts(c)
        if c is None:
            return None
        k = c.get('k')
        if k == 'paren':
            return self.nulltest(c['e'])
        if k == 'un' and c['op'] == '!':
            r = self.nulltest(c['e'])
            return None if r is None else (r[0], not r[1])
        if k == 'ref' and c.get('dk') == 'var' and self.is_node_ptr(c.get('cty')):
            return (c['d'], False)
        if k == 'bin' and c['op'] in ('==', '!='):
            l, r = strip_casts(c['l']), strip_casts(c['r'])
            isn = lambda x: x.get('k') == 'null' or (x.get('k') == 'int' and x.get('v') == 0)
            v = l if isn(r) else (r if isn(l) else None)
            if v is not None and v.get('k') == 'ref' and v.get('dk') == 'var' and self.is_node_ptr(v.get('cty')):
                return (v['d'], c['op'] == '==')
        return None

    def ends_with_jump(self, n):
        if n[0] in ('return', 'break', 'continue'):
            return True
        if n[0] == 'seq':
            return bool(n[1]) and self.ends_with_jump(n[1][-1])
        if n[0] == 'if':
            return self.ends_with_jump(n[3]) and self.ends_with_jump(n[4])
        if n[0] == 'ifnull':
            return self.ends_with_jump(n[2]) and self.ends_with_jump(n[3])
        return False

    def consumes_on_fallthrough(self, n):
        """can control fall out of n (to the next statement) after a grammar action was performed inside n?"""
        k = n[0]
        if k in ('match', 'call', 'advance'):
            return True
        if k == 'seq':
            if self.ends_with_jump(n):
                return False
            return any(self.consumes_on_fallthrough(x) for x in n[1])
        if k == 'if':
            return self.consumes_on_fallthrough(n[3]) or self.consumes_on_fallthrough(n[4])
        if k == 'ifnull':
            return self.consumes_on_fallthrough(n[2]) or self.consumes_on_fallthrough(n[3])
        if k == 'switch':
            return any(self.has_grammar_action(b) for _, b in n[1])
        if k == 'loop':
            return self.has_grammar_action(n[2])
        return False

    def has_flow(self, n):
        if n[0] in ('return', 'break', 'continue', 'bind'):
            return True
        if n[0] == 'seq':
            return any(self.has_flow(x) for x in n[1])
        if n[0] in ('if',):
            return self.has_flow(n[3]) or self.has_flow(n[4])
        if n[0] == 'ifnull':
            return self.has_flow(n[2]) or self.has_flow(n[3])
        if n[0] == 'switch':
            return any(self.has_flow(b) for _, b in n[1])
        if n[0] == 'loop':
            return self.has_flow(n[2])
        return False

    def lacond(self, e):
        """la_cond with look-ahead aliases / boolean look-ahead locals of the current function substituted"""
        return self.ps.la_cond(self.subst_alias(e))

    def subst_alias(self, e, depth=0):
        if not isinstance(e, dict) or depth > 6:
            return e
        al = getattr(self, '_alias', {})
        if e.get('k') == 'ref' and e.get('d') in al:
            return self.subst_alias(al[e['d']], depth + 1)
        out = {}
        for k, v in e.items():
            if isinstance(v, dict):
                out[k] = self.subst_alias(v, depth + 1)
            elif isinstance(v, list):
                out[k] = [self.subst_alias(x, depth + 1) if isinstance(x, dict) else x for x in v]
            else:
                out[k] = v
        return out

    def stmt(self, s, f):
        if s is None:
            return ('seq', [])
        k = s['k']
        if k == 'block':
            out = []
            saved = dict(getattr(self, '_alias', {}))
            for c in s['s']:
                node = self.stmt(c, f)
                out.append(node)
                if self.consumes_on_fallthrough(node):
                    self._alias = {}          # a token may have been consumed: remembered look-aheads are stale
                if c['k'] == 'decl':
                    for v in c['vars']:
                        init = strip_casts(v.get('init')) if v.get('init') is not None else None
                        if init is None:
                            continue
                        if init.get('k') == 'call' and (init.get('callee') or '').endswith('::lookahead'):
                            self._alias = dict(getattr(self, '_alias', {}))
                            self._alias[v['d']] = init
                        elif (v.get('cty') or '').replace('const ', '') == 'bool' and self.lacond(init) is not None:
                            self._alias = dict(getattr(self, '_alias', {}))
                            self._alias[v['d']] = init
            self._alias = saved if not any(self.consumes_on_fallthrough(n) for n in out) else {}
            return ('seq', out)
        if k in ('empty',):
            return ('seq', [])
        if k == 'expr':
            ev = []
            self.events(s['e'], f, ev)
            e0 = strip_casts(s['e'])
            if e0 is not None and e0.get('k') == 'assign' and e0.get('op') == '=':
                tgt = strip_casts(e0['l'])
                if tgt.get('k') == 'ref' and tgt.get('dk') == 'var' and self.is_node_ptr(tgt.get('cty')):
                    ev.append(('bind', tgt['d'], self.classify(e0['r'])))
            return ('seq', ev)
        if k == 'decl':
            ev = []
            for v in s['vars']:
                self.events(v.get('init'), f, ev)
                if self.is_node_ptr(v.get('cty')):
                    ev.append(('bind', v['d'], self.classify(v.get('init')) if v.get('init') is not None else 'U'))
            return ('seq', ev)
        if k == 'return':
            ev = []
            self.events(s.get('e'), f, ev)
            return ('seq', ev + [('return', self.classify(s.get('e')))])
        if k == 'break':
            return ('break',)
        if k == 'continue':
            return ('continue',)
        if k == 'if':
            cv = self.const_cond(s['c']) if self._bind else None
            if cv is not None:
                return self.stmt(s['t'] if cv else s.get('e'), f)
            lc = self.lacond(s['c'])
            pre = []
            self.events(s['c'], f, pre)
            pre = [x for x in pre if x[0] != 'lookahead']
            nt = self.nulltest(s['c']) if lc is None else None
            saved_alias = dict(getattr(self, '_alias', {}))

            def arms():
                # the two arms are alternatives: both start with the look-ahead aliases valid at the test
                self._alias = dict(saved_alias)
                a_ = self.stmt(s['t'], f)
                self._alias = dict(saved_alias)
                b_ = self.stmt(s.get('e'), f)
                self._alias = dict(saved_alias) if not (self.consumes_on_fallthrough(a_) or self.consumes_on_fallthrough(b_)) else {}
                return a_, b_
            if nt is not None:
                a, b = arms()
                return ('seq', pre + [('ifnull', nt[0], a, b) if nt[1] else ('ifnull', nt[0], b, a)])
            if lc is None:
                # conditions that are not about the look-ahead must not guard grammar actions
                inner = arms()
                if self.has_flow(inner[0]) or self.has_flow(inner[1]):
                    raise AnalysisBroken('parse.cpp: %s branches on %s around control flow (neither a look-ahead test nor a NULL test of a result)' % (f['q'], show(s['c'])))
                if self.has_grammar_action(inner[0]) or self.has_grammar_action(inner[1]):
                    raise AnalysisBroken('parse.cpp: %s branches on %s around grammar actions (not a look-ahead test)' % (f['q'], show(s['c'])))
                return ('seq', pre)
            a, b = arms()
            return ('seq', pre + [('if', frozenset(lc[0]), frozenset(lc[1]), a, b)])
        if k == 'switch':
            c = strip_casts(self.subst_alias(s['c']))
            if not (c.get('k') == 'call' and (c.get('callee') or '').endswith('::lookahead')):
                raise AnalysisBroken('parse.cpp: switch on %s in %s is not a look-ahead switch' % (show(c), f['q']))
            cases = []
            all_labels = set()
            for case in s['cases']:
                labs = [l.get('name') for l in case['labels'] if isinstance(l, dict)]
                all_labels |= set(labs)
            for i, case in enumerate(s['cases']):
                labs = [l.get('name') for l in case['labels'] if isinstance(l, dict)]
                sel = frozenset(labs)
                if 'default' in case['labels']:
                    sel = sel | (self.ALL - all_labels)
                # fall through
                body = []
                for c2 in s['cases'][i:]:
                    body.extend(self.stmt(x, f) for x in c2['s'])
                    if self.ends(c2['s']):
                        break
                cases.append((sel, ('seq', body)))
            if not any('default' in case['labels'] for case in s['cases']):
                cases.append((self.ALL - all_labels, ('seq', [])))
            return ('switch', cases)
        if k in ('for', 'while', 'do'):
            cond = s.get('c')
            lc = self.lacond(cond) if cond is not None else None
            if cond is not None and lc is None and not (cond.get('k') == 'bool' and cond['v']):
                raise AnalysisBroken('parse.cpp: loop condition %s in %s is not a look-ahead test' % (show(cond), f['q']))
            return ('loop', None if lc is None else (frozenset(lc[0]), frozenset(lc[1])), self.stmt(s['body'], f))
        raise AnalysisBroken('parse.cpp: unsupported statement %s in %s' % (k, f['q']))

    def ends(self, stmts):
        for st in stmts:
            for x in walk_stmts(st):
                if x['k'] in ('break', 'return'):
                    return True
        return False

    def has_grammar_action(self, n):
        if n[0] in ('match', 'call', 'error', 'advance'):
            return True
        if n[0] == 'seq':
            return any(self.has_grammar_action(x) for x in n[1])
        if n[0] == 'if':
            return self.has_grammar_action(n[3]) or self.has_grammar_action(n[4])
        if n[0] == 'ifnull':
            return self.has_grammar_action(n[2]) or self.has_grammar_action(n[3])
        if n[0] == 'switch':
            return any(self.has_grammar_action(b) for _, b in n[1])
        if n[0] == 'loop':
            return self.has_grammar_action(n[2])
        return False

    # ------------------------------------------------------------------ recursion shape
    def _has_match(self, n):
        if n[0] in ('match', 'advance'):
            return True
        if n[0] == 'seq':
            return any(self._has_match(x) for x in n[1])
        if n[0] == 'if':
            return self._has_match(n[3]) or self._has_match(n[4])
        if n[0] == 'ifnull':
            return self._has_match(n[2]) or self._has_match(n[3])
        if n[0] == 'switch':
            return any(self._has_match(b) for _, b in n[1])
        if n[0] == 'loop':
            return self._has_match(n[2])
        return False

    def _call_sites(self, n, later, out):
        """collects (callee, may a token still be matched in this function after the call returns?)"""
        k = n[0]
        if k == 'call':
            out.append((n[1], later, id(n)))
        elif k == 'seq':
            lm = later
            for c in reversed(n[1]):
                if c[0] == 'return':
                    lm = False          # nothing after a return is executed
                    continue
                self._call_sites(c, lm, out)
                lm = lm or self._has_match(c)
        elif k == 'if':
            self._call_sites(n[3], later, out)
            self._call_sites(n[4], later, out)
        elif k == 'ifnull':
            self._call_sites(n[2], later, out)
            self._call_sites(n[3], later, out)
        elif k == 'switch':
            for _, b in n[1]:
                self._call_sites(b, later, out)
        elif k == 'loop':
            self._call_sites(n[2], later or self._has_match(n[2]), out)

    def sequence_recursion(self):
        """cycles of grammar functions in which no call is followed by the match of a closing token: every repetition of the
        construct (statement after ';', argument after ',') adds stack frames, so the depth grows with the LENGTH of the
        input and not with its nesting.  Returns a sorted list of cycles (tuples of function names)."""
        keys = list(self.skel.keys())
        und = {}
        und_sites = {}
        for q in keys:
            sites = []
            self._call_sites(self.skeleton(q) if q not in self.skel else self.skel[q], False, sites)
            und[q] = set(c for c, later, nid in sites if not later)
            und_sites[q] = set(nid for c, later, nid in sites if not later)
            for c, later, nid in sites:
                if c not in self.skel:
                    self.skeleton(c)
                    if c not in keys:
                        keys.append(c)
        # strongly connected components of the undelimited-call graph
        name = lambda q: q if isinstance(q, str) else q[0]
        reach = {q: set(und.get(q, ())) for q in und}
        changed = True
        while changed:
            changed = False
            for q in reach:
                new = set()
                for r in reach[q]:
                    new |= reach.get(r, set())
                if not new <= reach[q]:
                    reach[q] |= new
                    changed = True
        comps = {}
        for q in reach:
            if q in reach[q]:
                members = set(r for r in reach[q] if q in reach.get(r, set())) | {q}
                comp = tuple(sorted(set(name(r) for r in members)))
                comps[comp] = members
        out = []
        for comp, members in sorted(comps.items()):
            # the steps of the sequence: a token matched and, right after it, an undelimited call that stays in the cycle
            seps = set()
            for q in members:
                steps = set()
                self._steps(self.skel[q], members, und_sites.get(q, set()), steps, None)
                fm = self._first_match(self.skel[q])
                for st in steps:
                    tok, callee = st.split(' ')
                    # the step that repeats the sequence: a self call, or the call of a "more?" function whose first action
                    # is to match the separator
                    if callee == name(q) or (tok == fm and tok not in ('ID', 'INT', 'NV_ID', 'FNAME')):
                        seps.add('%s: %s then %s' % (name(q), tok, callee))
            out.append((comp, sorted(seps)))
        return out

    def _first_match(self, n):
        """token matched first on the fall-through path of a function (None when a call or a branch comes first)"""
        k = n[0]
        if k == 'match':
            return n[1]
        if k == 'seq':
            for c in n[1]:
                if c[0] in ('if', 'ifnull'):
                    a_, b_ = (c[3], c[4]) if c[0] == 'if' else (c[2], c[3])
                    # an early return on one side does not count
                    live = [x for x in (a_, b_) if not self.ends_with_return(x)]
                    acting = [x for x in (a_, b_) if self._has_match(x) or self.has_grammar_action(x)]
                    if len(acting) == 1:
                        # whichever way the test is written (early return of the empty case, or the work inside the branch): the
                        # side that does something is what the function does first
                        return self._first_match(acting[0])
                    if len(live) == 1 and not self._has_match(live[0]) and not self.has_grammar_action(live[0]):
                        continue
                    if len(live) == 1:
                        return self._first_match(live[0])
                    return None
                r = self._first_match(c)
                if r is not None:
                    return r
                if self.has_grammar_action(c):
                    return None
            return None
        return None

    def _steps(self, n, members, undelimited, out, last=None):
        """threads the token matched last on the straight-line path; records (token, callee) for undelimited calls that stay
        in the cycle.  Returns the last token after n (None when paths disagree)."""
        k = n[0]
        if k == 'match':
            return n[1]
        if k == 'call':
            if n[1] in members:
                if id(n) in undelimited and last is not None:
                    out.add('%s %s' % (last, n[1] if isinstance(n[1], str) else n[1][0]))
                return None
            return last
        if k == 'seq':
            for c in n[1]:
                last = self._steps(c, members, undelimited, out, last)
            return last
        if k in ('if', 'ifnull'):
            a_, b_ = (n[3], n[4]) if k == 'if' else (n[2], n[3])
            la, lb = self._steps(a_, members, undelimited, out, last), self._steps(b_, members, undelimited, out, last)
            ra, rb = self.ends_with_return(a_), self.ends_with_return(b_)
            if ra and not rb:
                return lb
            if rb and not ra:
                return la
            return la if la == lb else None
        if k == 'switch':
            outs = set()
            for _, body in n[1]:
                l2 = self._steps(body, members, undelimited, out, last)
                if not self.ends_with_return(body):
                    outs.add(l2)
            return outs.pop() if len(outs) == 1 else None
        if k == 'loop':
            self._steps(n[2], members, undelimited, out, last)
            return None
        return last

    def ends_with_return(self, n):
        if n[0] == 'return':
            return True
        if n[0] == 'seq':
            return bool(n[1]) and self.ends_with_return(n[1][-1])
        return False

    # ------------------------------------------------------------------ generator
    def language(self, start, n):
        """token sequences (without the final T_EOF) of length <= n accepted without error"""
        self.memo = {}
        self.budget_hits = 0
        out = set()
        for toks, pending, ret in self.run_fn(start, n, self.ALL):
            if 'T_EOF' in pending:
                out.add(toks)
        return out

    def run_fn(self, q, budget, pending):
        """set of (tokens, pending after, nullness of the returned node: 'N'/'P'/'U')"""
        key = (q, budget, pending)
        if key in self.memo:
            return self.memo[key]
        self.memo[key] = set()        # recursion without consumption yields nothing new
        res = set()
        for toks, pend, flow, env in self.run(self.skel[q] if q in self.skel else self.skeleton(q), budget, pending, frozenset()):
            res.add((toks, pend, dict(env).get('ret', 'U') if flow == 'return' else 'U'))
        self.memo[key] = res
        return res

    @staticmethod
    def _set(env, k, v):
        d = dict(env)
        d[k] = v
        return frozenset(d.items())

    def _resolve(self, env, kind):
        d = dict(env)
        if kind == 'last':
            return d.get('last', 'U')
        if isinstance(kind, tuple) and kind[0] == 'var':
            return d.get(kind[1], 'U')
        return kind

    def run(self, node, budget, pending, env):
        """returns set of (emitted tokens, pending constraint after, flow, env) ; flow in next/return/break/continue;
        env: nullness of Node* locals, of the last grammar-function result ('last') and of the returned value ('ret')"""
        k = node[0]
        if k == 'seq':
            cur = {((), pending, 'next', env)}
            for c in node[1]:
                nxt = set()
                for toks, pend, flow, en in cur:
                    if flow != 'next':
                        nxt.add((toks, pend, flow, en))
                        continue
                    for t2, p2, f2, e2 in self.run(c, budget - len(toks), pend, en):
                        nxt.add((toks + t2, p2, f2, e2))
                cur = nxt
                if not cur:
                    break
            return cur
        if k == 'match':
            t = node[1]
            if t not in pending or t == 'T_EOF':
                return set()      # mismatch -> error recorded -> rejected
            if budget < 1:
                return set()
            return {((t,), self.ALL, 'next', env)}
        if k == 'advance':
            out = set()
            for t in pending:
                if t != 'T_EOF' and budget >= 1:
                    out.add(((t,), self.ALL, 'next', env))
            return out
        if k == 'error':
            return set()
        if k == 'bind':
            return {((), pending, 'next', self._set(env, node[1], self._resolve(env, node[2])))}
        if k == 'return':
            return {((), pending, 'return', self._set(env, 'ret', self._resolve(env, node[1]) if len(node) > 1 else 'U'))}
        if k in ('break', 'continue'):
            return {((), pending, k, env)}
        if k == 'call':
            return {(t, p, 'next', self._set(env, 'last', r)) for t, p, r in self.run_fn(node[1], budget, pending)}
        if k == 'if':
            out = set()
            pt = pending & node[1]
            pf = pending & node[2]
            if pt:
                out |= self.run(node[3], budget, pt, env)
            if pf:
                out |= self.run(node[4], budget, pf, env)
            return out
        if k == 'ifnull':
            v = dict(env).get(node[1], 'U')
            if v == 'N':
                return self.run(node[2], budget, pending, env)
            if v == 'P':
                return self.run(node[3], budget, pending, env)
            raise AnalysisBroken('grammar skeleton: a branch tests a node pointer for NULL whose nullness is not determined by the path taken')
        if k == 'switch':
            out = set()
            for sel, body in node[1]:
                p2 = pending & sel
                if p2:
                    for t, p, f, e2 in self.run(body, budget, p2, env):
                        out.add((t, p, 'next' if f == 'break' else f, e2))
            return out
        if k == 'loop':
            out = set()
            work = {((), pending, env)}
            seen = set()
            while work:
                toks, pend, en = work.pop()
                if (toks, pend, en) in seen:
                    continue
                seen.add((toks, pend, en))
                if node[1] is not None:
                    pf = pend & node[1][1]
                    if pf:
                        out.add((toks, pf, 'next', en))
                    pend = pend & node[1][0]
                    if not pend:
                        continue
                for t2, p2, f2, e2 in self.run(node[2], budget - len(toks), pend, en):
                    if f2 in ('next', 'continue'):
                        if len(t2) == 0 and p2 == pend and e2 == en:
                            continue      # no progress: same state again
                        work.add((toks + t2, p2, e2))
                    elif f2 == 'break':
                        out.add((toks + t2, p2, 'next', e2))
                    else:
                        out.add((toks + t2, p2, f2, e2))
            return out
        raise AnalysisBroken('grammar skeleton: unknown node %s' % k)
