"""Rules over the VM (engine E1): C19, C20.A1, C17, C05, C06 and the VM-side clauses of
C01 / C03.  Every rule is evaluated on the effect summaries computed from the *current*
VM/src/vm.cpp; nothing here matches source text or positions."""
from .facts import AnalysisBroken, show, walk_stmts, walk_all_exprs, walk_expr, locstr, stmt_children, strip_casts
from .symex import (Val, C, INT_MAX, is_const, lin_parts, t_add, t_show, lp_show)
from .vmfx import VMModel, fmt_iv, THIS

EXEC_METHODS = ('executeSingle', 'execute', 'reset')


def _where(model, fn, loc):
    f = fn['file']
    import os
    rel = os.path.relpath(f, model.facts.repo)
    if loc and len(loc) >= 2:
        return '%s:%d' % (rel, loc[0])
    return rel


def all_vm_paths(model, rep):
    """(method-name, PathSummary) for every method of VM and VM::Activation with a body."""
    out = []
    # private helpers that are only reached through other VM methods are covered by inlining at their call sites
    private = set()
    for rname in ('Theo::VM', 'Theo::VM::Activation'):
        try:
            for mth in model.facts.record(rname)['methods']:
                if mth['access'] != 'public':
                    private.add(mth['sig'])
        except AnalysisBroken:
            pass
    called = set()
    for f in model.facts.functions:
        if f.get('rec') in ('Theo::VM', 'Theo::VM::Activation'):
            for e in walk_all_exprs(f['body']):
                if e.get('k') == 'call' and e.get('callee_sig'):
                    called.add(e['callee_sig'])
    for f in model.facts.functions:
        if f.get('rec') in ('Theo::VM', 'Theo::VM::Activation') and f['tmpl'] in ('none', 'inst'):
            if f['sig'] in private and f['sig'] in called and f['kind'] != 'ctor':
                continue
            rep.analysed(f)
            rec = f['rec']
            name = f['name']
            if f['kind'] == 'ctor':
                name = f['q'].split('::')[-1]
            for s in _paths_of(model, f):
                out.append((f, s))
    return out


def _paths_of(model, f):
    key = ('fn', f['sig'])
    if f['q'] == 'Theo::VM::executeSingle':
        model.handler_paths()
        # a path whose guards contradict each other about the opcode (op == HALT before the switch, case PREPARE_EXEC in it) is infeasible
        return [p for p in model.paths('executeSingle') if getattr(p, 'opcodes', None) != set()]
    if key not in model._summ:
        from .vmfx import PathSummary
        noinl = ('Theo::VM::executeSingle',) if f['name'] == 'execute' else ()
        model.sx.no_inline = set(noinl)
        ps = model.sx.run(f)
        model.sx.no_inline = set()
        model._summ[key] = [PathSummary(model, p, f) for p in ps]
    return model._summ[key]


def _unknowns(s):
    return [ef for ef in s.p.effects if ef[0] == 'unknown'] + \
           [ef for ef in s.p.effects if ef[0] == 'vecop' and str(ef[2]).startswith('unknown')]


# =============================================================================== C19
def growth_of(model, op):
    """(count term, fill Val) when op appends words to data: append_n, or resize(size()+n, fill)"""
    from .symex import mk_lin
    dlp = model.lp('data')
    if op[0] == 'append_n':
        return op[1].term, op[2]
    if op[0] == 'resize':
        c, atoms = lin_parts(op[1].term)
        sizes = [a for a in atoms if isinstance(a, tuple) and a[0] == 'size' and a[1] == dlp and a[2] == 0 and atoms[a] == 1]
        if len(sizes) == 1:
            rest = {a: k for a, k in atoms.items() if a is not sizes[0]}
            return mk_lin(c, rest), op[2]
    return None


def shrink_target(model, s, op):
    """For a data-shrinking op returns the term of the new length, or None."""
    if op[0] == 'resize':
        return op[1].term
    if op[0] == 'erase' and len(op[1]) == 2:
        a, b = op[1]
        dlp = model.lp('data')
        if isinstance(a, tuple) and a[0] == 'vit' and a[1] == dlp and a[2] == 'begin' and \
                isinstance(b, tuple) and b[0] == 'vit' and b[1] == dlp and b[2] == 'end' and b[3] == C(0):
            return a[3]
    return None


def c19(rep, model):
    dlp, slp = model.lp('data'), model.lp('stack')
    paths = all_vm_paths(model, rep)
    F1 = rep.rule('C19.F1', 'data grows only in the frame-creating handler; the pushed activation records '
                            'start = size before growth and size = words appended', floor=1)
    F2 = rep.rule('C19.F2', 'every pop of an activation shrinks data to that activation\'s data_start '
                            '(read before the pop) on the same path', floor=1)
    F3 = rep.rule('C19.F3', 'clearing the activation stack is paired with clearing data', floor=1)
    GROW = ('push', 'append_n', 'assign', 'unknown')
    # the storage behind data follows its size: capacity is never requested on top of the capacity there already is
    for f in model.facts.functions_in('VM/src/vm.cpp'):
        for e in walk_all_exprs(f.get('body')):
            if e.get('k') == 'call' and (e.get('callee') or '').endswith('::reserve') and e.get('obj') is not None and show(e['obj']).replace('this->', '') == model.roles['data'] and e.get('args'):
                if any(x.get('k') == 'call' and (x.get('callee') or '').endswith('::capacity') for x in walk_all_exprs({'k': 'expr', 'e': e['args'][0]})):
                    F1.violation('%s: %s' % (f['q'].split('::')[-1], show(e)[:50]), 'storage is reserved relative to the current capacity: every call adds to the allocation although the frame is '
                                 'released on return, so memory grows with the number of calls executed, not with the depth of the call chain', _where(model, f, e['loc']),
                                 witness={'program': 'a LOOP that calls a program many times'})
    for f, s in paths:
        name = f['q']
        dops = s.p.vec.get(dlp).ops if dlp in s.p.vec else []
        sops = s.p.vec.get(slp).ops if slp in s.p.vec else []
        for u in _unknowns(s):
            if (len(u) > 1 and isinstance(u[1], tuple) and u[1] in (dlp, slp)) or u[0] == 'unknown':
                F1.unknown('%s' % name, 'unsupported construct: %s' % (u[1],), _where(model, f, u[-1]))
        # ---- F1 growth
        grow = [o for o in dops if o[0] in GROW or (o[0] == 'resize')]
        growth_ops = []
        for o in dops:
            if o[0] in ('push', 'append_n', 'unknown'):
                growth_ops.append(o)
            elif o[0] == 'assign':
                if not (isinstance(o[1].term, tuple) and o[1].term[0] == 'empty'):
                    growth_ops.append(o)
            elif o[0] == 'resize':
                # growth when the new length is size()+n
                c, atoms = lin_parts(o[1].term)
                if any(isinstance(a, tuple) and a[0] == 'size' and a[1] == dlp for a in atoms):
                    growth_ops.append(o)
        pushes = [o for o in sops if o[0] == 'push']
        if growth_ops or pushes:
            inst = '%s: frame creation' % name
            ok = True
            why = []
            if f['name'] != 'executeSingle' or s.opcodes != {'PREPARE_EXEC'}:
                ok = False
                why.append('data/stack grows outside the PREPARE_EXEC handler (opcodes %s)' % (sorted(s.opcodes) if s.opcodes else name))
            zero_count = False
            if not growth_ops and len(pushes) == 1 and pushes[0][1].struct and pushes[0][1].struct.get('seg_size') is not None:
                # a path on which nothing is appended is fine when the guards bound the frame size by zero
                szt = pushes[0][1].struct['seg_size'].term
                rng = s.p.refine.get(szt)
                zero_count = rng is not None and rng[1] <= 0
            if zero_count:
                st0 = pushes[0][1].struct
                if st0.get('data_start') is None or st0['data_start'].term != ('size', dlp, 0):
                    ok = False
                    why.append('activation.data_start is not size(data)')
            elif len(growth_ops) != 1 or len(pushes) != 1:
                ok = False
                why.append('expected one growth of data and one activation push, found %d and %d' % (len(growth_ops), len(pushes)))
            else:
                g = growth_ops[0]
                cnt = None
                if g[0] == 'append_n':
                    cnt = g[1].term
                    if g[2].term != C(0):
                        ok = False
                        why.append('new words are not zero-initialised (%s)' % t_show(g[2].term))
                elif g[0] == 'resize':
                    c, atoms = lin_parts(g[1].term)
                    rest = {a: k for a, k in atoms.items() if not (isinstance(a, tuple) and a[0] == 'size' and a[1] == dlp and a[2] == 0)}
                    from .symex import mk_lin
                    cnt = mk_lin(c, rest)
                    if g[2].term != C(0):
                        ok = False
                        why.append('resize fill value is not zero')
                else:
                    ok = False
                    why.append('unrecognised growth %s' % g[0])
                act = pushes[0][1]
                st = act.struct or {}
                ds = st.get('data_start')
                sz = st.get('seg_size')
                # index of the growth relative to the size() read
                if ds is None or sz is None:
                    ok = False
                    why.append('pushed activation has no data_start/seg_size')
                else:
                    # data_start must be size(data) read before any growth (epoch 0)
                    if ds.term != ('size', dlp, 0):
                        ok = False
                        why.append('activation.data_start = %s, expected size(data) before growth' % t_show(ds.term))
                    if cnt is not None and sz.term != cnt:
                        ok = False
                        why.append('activation.seg_size = %s but %s words are appended' % (t_show(sz.term), t_show(cnt)))
                    if cnt is not None and model.operand_of(cnt) != 'prepare.count':
                        ok = False
                        why.append('number of words appended is %s, not the prepare.count operand' % t_show(cnt))
            if ok and zero_count:
                F1.ok(inst + ' [count <= 0]', 'nothing to append when the frame size is not positive; activation starts at size(data)', _where(model, f, f['loc'][1:]))
            elif ok:
                F1.ok(inst, 'appends prepare.count zeros; pushed activation has data_start=size(data) at entry, seg_size=prepare.count',
                      _where(model, f, f['loc'][1:]))
            else:
                F1.violation(inst, '; '.join(why), _where(model, f, f['loc'][1:]))
        # ---- F2 release
        for o in sops:
            if o[0] == 'pop':
                popped_lp = o[1]
                inst = '%s%s: stack.pop_back' % (name, '/' + '+'.join(sorted(s.opcodes)) if s.opcodes else '')
                want = ('init', popped_lp + (('f', 'data_start'),))
                got = [shrink_target(model, s, d) for d in dops]
                got = [g for g in got if g is not None]
                if o[-1]:
                    F2.unknown(inst, 'pop inside a loop (%s): pairing with the shrink not supported' % (o[-1],))
                elif want in got:
                    F2.ok(inst, 'data is shrunk to %s on the same path' % t_show(want), _where(model, f, f['loc'][1:]))
                elif got:
                    F2.violation(inst, 'data is shrunk to %s, not to the popped activation\'s data_start %s'
                                 % (t_show(got[0]), t_show(want)), _where(model, f, f['loc'][1:]),
                                 witness={'path_guards': [(t_show(t), pol) for t, pol in s.p.guards]})
                else:
                    F2.violation(inst, 'the activation record is popped but data is never shrunk to its data_start: '
                                       'memory grows with the number of calls executed', _where(model, f, f['loc'][1:]),
                                 witness={'handler': sorted(s.opcodes) if s.opcodes else name,
                                          'data_ops': [d[0] for d in dops], 'expected_shrink_to': t_show(want)})
            elif o[0] in ('clear', 'assign', 'resize', 'erase'):
                if o[0] == 'assign' and f['kind'] == 'ctor':
                    continue
                inst = '%s: stack.%s' % (name, o[0])
                cleared = any(d[0] == 'clear' or (d[0] == 'resize' and d[1].term == C(0)) or
                              (d[0] == 'assign' and isinstance(d[1].term, tuple) and d[1].term[0] == 'empty')
                              for d in dops)
                if o[0] == 'clear' or (o[0] == 'assign' and isinstance(o[1].term, tuple) and o[1].term[0] == 'empty'):
                    if cleared:
                        F3.ok(inst, 'data is cleared on the same path', _where(model, f, f['loc'][1:]))
                    else:
                        F3.violation(inst, 'all activations are dropped but data keeps their frames',
                                     _where(model, f, f['loc'][1:]))
                else:
                    F3.unknown(inst, 'unsupported bulk operation on the activation stack')
            elif o[0] == 'unknown':
                F2.unknown('%s: stack.%s' % (name, o[1]), 'unmodelled vector operation')
    rep.extra['paths_analysed'] = len(paths)


# =============================================================================== C20.A1
def c20_vm(rep, model):
    dlp = model.lp('data')
    paths = all_vm_paths(model, rep)
    A1 = rep.rule('C20.A1', 'every store into data keeps the word in [0, 2^31-1] assuming all loads are, and no '
                            'arithmetic on the value path can leave the range of its static type', floor=6)
    seen = set()
    dlp_act = (('this',), ('f', 'vm'), ('deref',)) + tuple(dlp[1:])
    for f, s in paths:
        name = f['q'] + ('/' + '+'.join(sorted(s.opcodes)) if s.opcodes else '')
        dops = s.p.vec.get(dlp).ops if dlp in s.p.vec else []
        if f.get('rec') == 'Theo::VM::Activation' and dlp_act in s.p.vec:
            dops = list(dops) + list(s.p.vec.get(dlp_act).ops)       # an activation reaches the memory through its vm pointer
        for o in dops:
            vals = []
            if o[0] == 'store':
                vals.append(('store', o[2]))
            elif o[0] == 'push':
                vals.append(('push_back', o[1]))
            elif o[0] == 'append_n':
                vals.append(('append', o[2]))
            elif o[0] == 'resize':
                vals.append(('resize fill', o[2]))
            elif o[0] == 'assign':
                if not (isinstance(o[1].term, tuple) and o[1].term[0] == 'empty') and f['kind'] != 'ctor':
                    A1.unknown(name, 'whole-vector assignment to data: %s' % t_show(o[1].term))
            elif o[0] == 'unknown':
                A1.unknown(name, 'unmodelled operation on data: %s' % o[1])
            for kind, v in vals:
                inst = '%s: %s %s' % (name, kind, t_show(v.term)[:120])
                if inst in seen:
                    continue
                seen.add(inst)
                bad_notes = [n for n in v.notes if n[0] in ('overflow', 'narrowing', 'div-by-zero-possible', 'opaque', 'wraps')]
                where = _where(model, f, f['loc'][1:])
                if any(n[0] == 'opaque' for n in bad_notes):
                    A1.unknown(inst, 'value not understood: %s' % (bad_notes,))
                    continue
                ovf = [n for n in bad_notes if n[0] in ('overflow', 'div-by-zero-possible')]
                if ovf:
                    n = ovf[0]
                    A1.violation(inst, 'signed arithmetic %s of type %s can reach %s: undefined behaviour'
                                 % (n[1], n[3] if len(n) > 3 else '?', fmt_iv(n[4]) if len(n) > 4 else ''),
                                 _where(model, f, n[2]), witness={'expression': n[1], 'range': list(n[4]) if len(n) > 4 else None,
                                                                  'operand_ranges': 'data words in [0,2^31-1], add.constant in [-(2^31-2), 2^31-2]'})
                    continue
                if v.iv is None:
                    A1.unknown(inst, 'no interval for stored value')
                    continue
                if v.iv[0] < 0 or v.iv[1] > INT_MAX or [n for n in bad_notes if n[0] in ('narrowing', 'wraps')]:
                    A1.violation(inst, 'stored value ranges over %s, outside [0, 2^31-1]%s' % (
                        fmt_iv(v.iv), (' after ' + str(bad_notes[0][:2])) if bad_notes else ''), where)
                    continue
                A1.ok(inst, 'value in %s' % fmt_iv(v.iv), where)
    # conditions on the value path (comparisons of words) must not overflow either
    for f, s in paths:
        for (t, pol) in s.p.guards:
            pass


# =============================================================================== shared: break-site restoration
def code_op_writes(model, s):
    """store effects into code.code[...] .op"""
    out = []
    cc = model.lp('code.code')
    for ef in s.p.effects:
        if ef[0] == 'write' and ef[1][:len(cc)] == cc:
            out.append(ef)
    return out


def is_seq_of_sites(model, idx_term, key_pred):
    """idx_term iterates a site list of potential_breaks: each(seq(potential_breaks[key]...))"""
    pb = model.lp('potential_breaks')
    if not (isinstance(idx_term, tuple) and idx_term[0] == 'each'):
        return None
    seq = idx_term[1]
    if not (isinstance(seq, tuple) and seq[0] == 'seq'):
        return None
    lp = seq[1]
    if lp[:len(pb)] != pb or seq[2] != 'pre':
        return None
    rest = lp[len(pb):]
    if len(rest) == 1 and rest[0][0] == 'key':
        return ('subscript', rest[0][1])
    if len(rest) == 2 and rest[0][0] == 'mappair' and rest[1] == ('f', 'second'):
        return ('found', rest[0][1])
    return None


def classify_site_write(model, ef):
    """('BREAK'|'POTENTIAL_BREAK', how, key term, loopctx) or None if not a recognised site rewrite."""
    lp, val, lctx = ef[1], ef[2], ef[3]
    cc = model.lp('code.code')
    rest = lp[len(cc):]
    if len(rest) != 2 or rest[0][0] != 'idx' or rest[1] != ('f', 'op'):
        return None
    if not (isinstance(val.term, tuple) and val.term[0] == 'enum'):
        return None
    name = val.term[1].split('::')[-1]
    how = is_seq_of_sites(model, rest[0][1], None)
    if how is None:
        return None
    return name, how[0], how[1], lctx


def restoration_ok(model, s):
    """clearBreakpoints shape on path s: for every bp in enabled(pre): for every site of bp: op := PB;
    returns (ok, reason)."""
    en = model.lp('enabled')
    ws = code_op_writes(model, s)
    good = False
    for ef in ws:
        c = classify_site_write(model, ef)
        if c is None:
            continue
        name, how, key, lctx = c
        if name != 'POTENTIAL_BREAK':
            continue
        # key must iterate the enabled set as it was at entry (or before it was cleared)
        if isinstance(key, tuple) and key[0] == 'each' and isinstance(key[1], tuple) and key[1][0] == 'seq' \
                and key[1][1] == en and key[1][2] == 'pre':
            good = True
        elif isinstance(key, tuple) and key[0] == 'each' and isinstance(key[1], tuple) and key[1][0] == 'seq' \
                and key[1][1][:1] == (('var',),)[:0]:
            pass
    return good


# =============================================================================== C05
def c05(rep, model):
    paths = all_vm_paths(model, rep)
    cc = model.lp('code.code')
    code = model.lp('code')
    A = rep.rule('C05.a', 'the loaded program is written only by the constructor and the breakpoint bookkeeping, '
                          'only in the opcode field, only with BREAK/POTENTIAL_BREAK, only at listed sites', floor=3)
    B = rep.rule('C05.b', 'BREAK and POTENTIAL_BREAK handlers have identical effects: ip+1 and nothing else', floor=2)
    Cc = rep.rule('C05.c', 'in executeSingle no effect is control- or data-dependent on debugger state '
                           '(stepping flag, enabled set); it may only select the return value', floor=12)
    D = rep.rule('C05.d', 'debugger entry points write no computation state (ip, data, activations, program '
                          'except site opcodes); execute is a loop of executeSingle only', floor=7)
    E = rep.rule('C05.e', 'variable inspection is read-only', floor=1)
    comp_roles = {'ip': model.lp('ip'), 'data': model.lp('data'), 'stack': model.lp('stack')}
    # ---- a
    n_writes = 0
    for f, s in paths:
        name = f['q']
        for ef in s.p.effects:
            lp = None
            if ef[0] in ('write', 'store', 'vecop', 'assoc', 'map_subscript'):
                lp = ef[1]
            if ef[0] == 'call' and ef[3] is not None:
                lp = ef[3]
                if ef[7]:      # const method on an unmodelled object: a read
                    continue
            if lp is None or lp[:len(code)] != code:
                continue
            n_writes += 1
            inst = '%s: %s %s' % (name, ef[0], lp_show(lp))
            where = _where(model, f, ef[-1] if ef[0] not in ('call',) else ef[5])
            if f['kind'] == 'ctor' and f.get('rec') == 'Theo::VM':
                A.ok(inst, 'constructor initialises its private copy', where)
                continue
            if ef[0] == 'map_subscript':
                key = ef[2]
                en = model.lp('enabled')
                if isinstance(key, tuple) and key[0] == 'each' and key[1][0] == 'seq' and key[1][1] == en:
                    A.ok(inst, 'std::map::operator[] with a key drawn from the enabled set, which only ever receives '
                               'keys found in potential_breaks (C06.b/c): cannot insert', where)
                else:
                    A.violation(inst, 'std::map::operator[] on the site table with key %s may insert a location'
                                % t_show(key), where)
                continue
            if ef[0] == 'write':
                c = classify_site_write(model, ef)
                if c and c[0] in ('BREAK', 'POTENTIAL_BREAK'):
                    A.ok(inst, 'opcode := %s at every site listed for %s' % (c[0], t_show(c[2])), where)
                else:
                    A.violation(inst, 'write into the loaded program that is not a BREAK/POTENTIAL_BREAK rewrite at a '
                                      'listed site: %s := %s' % (lp_show(lp), t_show(ef[2].term)), where)
                continue
            A.violation(inst, 'the loaded program is modified (%s)' % ef[0], where)
    # ---- b, c
    groups = model.handler_paths()
    ip = model.lp('ip')
    sigs = {}
    for op in ('BREAK', 'POTENTIAL_BREAK'):
        ps = groups.get(op, [])
        if not ps:
            B.unknown(op, 'no handler path found')
            continue
        for s in ps:
            sig = model.effect_signature(s)
            want = [('write', lp_show(ip), t_show(t_add(model.ip0(), C(1))), ())]
            B.check(sig == want, 'executeSingle/%s%s' % (op, ' [%s]' % ', '.join('%s=%s' % (t_show(t), p) for t, p in s.guards) if s.guards else ''),
                    'effects: ip := ip+1 only', 'effects are %s, expected ip := ip+1 only' % (sig,),
                    _where(model, s.fn, s.fn['loc'][1:]))
    for op, ps in groups.items():
        inst = 'executeSingle/%s' % op
        if not ps:
            Cc.unknown(inst, 'no path for opcode')
            continue
        # two paths whose purely non-debug guards do not contradict each other can both be taken from the
        # same computation state (depending on debugger state only): their effects must then be identical
        bad = None
        info = []
        for s in ps:
            sig = model.effect_signature(s)
            nd = set((t_show(t), pol) for t, pol in s.guards if not model.is_debug_term(t))
            tainted = any(model.is_debug_term(t) for t, pol in s.guards)
            for ef in s.p.effects:
                for v in [x for x in ef if isinstance(x, Val)]:
                    if model.is_debug_term(v.term):
                        bad = 'effect value %s depends on debugger state' % t_show(v.term)
                if ef[0] == 'store' and model.is_debug_term(ef[2]):
                    bad = 'store index depends on debugger state'
            info.append((s, sig, nd, tainted))
        for i in range(len(info)):
            for j in range(i + 1, len(info)):
                s1, sig1, nd1, t1 = info[i]
                s2, sig2, nd2, t2 = info[j]
                if not (t1 or t2):
                    continue
                if any((t, not pol) in nd2 for t, pol in nd1):
                    continue
                if sig1 != sig2:
                    dg = [(t_show(t), pol) for t, pol in s1.guards + s2.guards if model.is_debug_term(t)]
                    bad = 'effects differ depending on debugger state %s: %s vs %s' % (dg, sig1, sig2)
        if bad:
            Cc.violation(inst, bad, _where(model, ps[0].fn, ps[0].fn['loc'][1:]))
        else:
            Cc.ok(inst, '%d path(s); effects independent of stepping flag and enabled set' % len(ps),
                  _where(model, ps[0].fn, ps[0].fn['loc'][1:]))
    # ---- d
    entry = ['setBreakPoint', 'clearBreakpoints', 'setSteppingMode', 'isSteppingModeEnabled', 'getCurrentBreak',
             'getEnabledBreakPoints', 'getActivations', 'isDone']
    for name in entry:
        f = model.method(name) if model.facts.fns('Theo::VM::' + name) else None
        if f is None:
            continue
        bad = None
        for s in _paths_of(model, f):
            for ef in s.p.effects:
                lp = ef[1] if ef[0] in ('write', 'store', 'vecop', 'assoc') else None
                if ef[0] == 'call' and ef[3] is not None and not ef[7]:
                    lp = ef[3]
                if ef[0] == 'unknown':
                    bad = ('unknown', ef[1])
                if lp is None:
                    continue
                for role, rlp in comp_roles.items():
                    if lp[:len(rlp)] == rlp:
                        bad = ('writes', role, ef[0], lp_show(lp))
        inst = 'Theo::VM::%s' % name
        if bad and bad[0] == 'unknown':
            D.unknown(inst, str(bad))
        elif bad:
            D.violation(inst, 'debugger entry point modifies computation state: %s' % (bad,), _where(model, f, f['loc'][1:]))
        else:
            D.ok(inst, 'no write to ip / data / activation stack', _where(model, f, f['loc'][1:]))
    ex = model.facts.fn('Theo::VM::execute')
    rep.analysed(ex)
    shape = execute_shape(ex)
    if shape[0] == 'ok':
        D.ok('Theo::VM::execute', shape[1], _where(model, ex, ex['loc'][1:]))
    elif shape[0] == 'bad':
        D.violation('Theo::VM::execute', shape[1], _where(model, ex, ex['loc'][1:]))
    else:
        D.unknown('Theo::VM::execute', shape[1])
    # ---- e
    gv = model.facts.fn('Theo::VM::Activation::getActivationVariables')
    bad = None
    for s in _paths_of(model, gv):
        for ef in s.p.effects:
            if ef[0] in ('write', 'store', 'vecop', 'assoc'):
                lp = ef[1]
                if lp and lp[0][0] in ('var',):
                    continue   # its own result object
                bad = (ef[0], lp_show(lp))
            if ef[0] == 'call' and ef[3] is not None and not ef[7] and ef[3][0][0] != 'var':
                bad = ('call', ef[1])
            if ef[0] == 'map_subscript' and ef[1][0][0] != 'var':
                bad = ('map_subscript', lp_show(ef[1]))
    E.check(bad is None, 'Theo::VM::Activation::getActivationVariables', 'writes only its local result',
            'inspection writes VM state: %s' % (bad,), _where(model, gv, gv['loc'][1:]))


def execute_shape(ex):
    """execute() must be: loop { executeSingle() } leaving at the first true, and nothing else.
    Accepted idioms (enumerated): the call (optionally negated) is the loop condition with an empty or
    call-free body; or an endless loop whose body is `if (call) break/return;` (possibly negated with
    else/continue)."""
    calls = [e for e in walk_all_exprs(ex['body']) if e.get('k') == 'call']
    es = [c for c in calls if (c.get('callee') or '').endswith('VM::executeSingle')]
    others = [c for c in calls if c not in es]
    if not es:
        return ('bad', 'execute() does not call executeSingle')
    for e in walk_all_exprs(ex['body']):
        if e.get('k') in ('assign',) or (e.get('k') == 'un' and e['op'] in ('++', '--')):
            tgt = strip_casts(e.get('l') or e.get('e'))
            if tgt.get('k') == 'member':
                return ('bad', 'execute() writes VM state directly: %s' % show(e))
    if others:
        return ('unknown', 'execute() calls something besides executeSingle: %s' % show(others[0]))
    if len(es) != 1:
        return execute_by_cases(ex, es)
    loops = [s for s in walk_stmts(ex['body']) if s['k'] in ('while', 'do', 'for')]
    if len(loops) != 1:
        return execute_by_cases(ex, es)
    lp = loops[0]
    call = es[0]

    def polarity(c):
        neg = False
        while c is not None and c.get('k') == 'un' and c['op'] == '!':
            neg = not neg
            c = c['e']
        return c, neg
    cond = lp.get('c')
    c0, neg = polarity(cond) if cond else (None, False)
    if c0 is call:
        if not neg:
            return ('bad', 'loop continues while executeSingle() returns true (stops are skipped)')
        return ('ok', 'while (!executeSingle()): leaves at the first true, no other effect')
    # endless loop with if (call) break
    ifs = [s for s in walk_stmts(lp['body']) if s['k'] == 'if']
    if cond is None or (cond.get('k') == 'bool' and cond['v']):
        if len(ifs) == 1:
            c1, neg1 = polarity(ifs[0]['c'])
            if c1 is call:
                taken = ifs[0]['e'] if neg1 else ifs[0]['t']
                kinds = [s['k'] for s in walk_stmts(taken)] if taken else []
                if 'break' in kinds or 'return' in kinds:
                    return ('ok', 'loop { if (executeSingle()) leave; }')
                return ('bad', 'execute() does not leave its loop when executeSingle() returns true')
    return execute_by_cases(ex, [call])


class _Leave(Exception):
    def __init__(self, kind):
        self.kind = kind


def execute_by_cases(ex, calls):
    """Any other control skeleton around the single executeSingle() call (do/while with a flag, for(;;) with a
    local, ...): the body is evaluated over the booleans for every answer sequence false^n true (n = 0..3) and
    for six times false; it must ask exactly n+1 times and return, resp. still be asking.  Only boolean locals,
    !, &&, ||, ==, != and structured statements are understood; anything else is 'unknown'."""
    class Unsupported(Exception):
        pass

    scaled = {}

    def run(answers, limit):
        env = {}
        asked = [0]

        def ev(e):
            e = strip_casts(e)
            if e is None:
                raise Unsupported('empty expression')
            k = e.get('k')
            if any(e is c_ for c_ in calls):
                if asked[0] >= limit:
                    raise _Leave('limit')
                asked[0] += 1
                return answers[asked[0] - 1] if asked[0] - 1 < len(answers) else False
            if k == 'paren':
                return ev(e['e'])
            if k == 'bool':
                return bool(e['v'])
            if k == 'int':
                return e['v']
            if k == 'ref' and e.get('dk') == 'var':
                if e['d'] not in env:
                    raise Unsupported('read of %s before it is set' % e.get('name'))
                return env[e['d']]
            if k == 'un' and e['op'] == '!':
                return not ev(e['e'])
            if k == 'bin' and e['op'] == '&&':
                return bool(ev(e['l'])) and bool(ev(e['r']))
            if k == 'bin' and e['op'] == '||':
                return bool(ev(e['l'])) or bool(ev(e['r']))
            if k == 'bin' and e['op'] in ('==', '!=', '<', '<=', '>', '>='):
                # a large constant bound of a counter is scaled down (the loop is the same, only shorter): what matters is whether
                # execute() can leave through it
                def side(x):
                    x0 = strip_casts(x)
                    if x0 is not None and x0.get('k') == 'int' and x0['v'] > 64:
                        scaled[x0['v']] = 8
                        return 8
                    return ev(x)
                a, b = side(e['l']), side(e['r'])
                return {'==': a == b, '!=': a != b, '<': a < b, '<=': a <= b, '>': a > b, '>=': a >= b}[e['op']]
            if k == 'bin' and e['op'] in ('+', '-'):
                a, b = ev(e['l']), ev(e['r'])
                return a + b if e['op'] == '+' else a - b
            if k == 'un' and e['op'] in ('++', '--'):
                t = strip_casts(e['e'])
                if t.get('k') == 'ref' and t.get('dk') == 'var' and t['d'] in env and isinstance(env[t['d']], int):
                    old_ = env[t['d']]
                    env[t['d']] = old_ + (1 if '++' in str(e['op']) else -1)
                    return env[t['d']] if not e.get('postfix') else old_
                raise Unsupported(show(e)[:60])
            if k == 'assign' and strip_casts(e['l']).get('k') == 'ref' and strip_casts(e['l']).get('dk') == 'var':
                v = ev(e['r'])
                d_ = strip_casts(e['l'])['d']
                op_ = e.get('op', '=')
                if op_ in ('+=', '-=') and d_ in env:
                    v = env[d_] + v if op_ == '+=' else env[d_] - v
                elif op_ != '=':
                    raise Unsupported(show(e)[:60])
                env[d_] = v
                return v
            if k == 'cond':
                return ev(e['t']) if ev(e['c']) else ev(e['f'] if 'f' in e else e['e'])
            raise Unsupported(show(e)[:60])

        def st(s):
            if s is None:
                return
            k = s['k']
            if k == 'block':
                for c in s['s']:
                    st(c)
            elif k == 'expr':
                ev(s['e'])
            elif k == 'decl':
                for v in s['vars']:
                    if v.get('init') is not None:
                        env[v['d']] = ev(v['init'])
            elif k == 'if':
                if s.get('var') or s.get('init'):
                    raise Unsupported('if with initialiser')
                if ev(s['c']):
                    st(s['t'])
                else:
                    st(s.get('e'))
            elif k in ('while', 'do', 'for'):
                if k == 'for' and s.get('init') is not None:
                    st(s['init']) if s['init'].get('k') in ('decl', 'expr', 'block') else ev(s['init'])
                first = True
                while True:
                    if not (k == 'do' and first):
                        if s.get('c') is not None and not ev(s['c']):
                            break
                    first = False
                    try:
                        st(s['body'])
                    except _Leave as l:
                        if l.kind == 'break':
                            break
                        if l.kind != 'continue':
                            raise
                    if k == 'for' and s.get('inc') is not None:
                        ev(s['inc'])
            elif k == 'break':
                raise _Leave('break')
            elif k == 'continue':
                raise _Leave('continue')
            elif k == 'return':
                if s.get('e') is not None:
                    ev(s['e'])
                raise _Leave('return')
            elif k in ('null', 'empty'):
                pass
            else:
                raise Unsupported('statement %s' % k)
        try:
            st(ex['body'])
            return asked[0], 'returned'
        except _Leave as l:
            return asked[0], ('returned' if l.kind == 'return' else l.kind)
    try:
        for n in range(4):
            asked, how = run([False] * n + [True], 12)
            if how != 'returned' or asked != n + 1:
                if asked > n + 1 or how == 'limit':
                    return ('bad', 'execute() goes on after executeSingle() returned true (asked %d times for the answers %s)' % (asked, ['false'] * n + ['true']))
                return ('bad', 'execute() returns although executeSingle() has not returned true yet (after %d answer(s) false)' % asked)
        asked, how = run([False] * 6, 6)
        if how != 'limit':
            return ('bad', 'execute() returns although executeSingle() has not returned true yet (after %d answer(s) false)' % asked)
        if scaled:
            asked, how = run([False] * 40, 40)
            if how != 'limit':
                return ('bad', 'execute() returns although executeSingle() has not returned true yet: its loop is also left through the bound %s '
                               '(the machine is then neither at a site nor at the end)' % ', '.join(str(k_) for k_ in sorted(scaled)))
        return ('ok', 'evaluated for the answers false^n true (n = 0..3) and false^6: asks exactly n+1 times, returns only after true')
    except Unsupported as u:
        return ('unknown', 'unrecognised loop shape in execute() (%s)' % u)


# =============================================================================== C06
def c06(rep, model):
    groups = model.handler_paths()
    st = model.lp('stepping')
    # a copy of a machine is that machine: a hand-written copy / move constructor or assignment of VM transfers every field (the implicit one does)
    M_ = rep.rule('C06.m', 'a copied machine has the state of the original: VM has the implicit copy operations, or hand-written ones that transfer every field', floor=0)
    try:
        vrec = model.facts.record('Theo::VM')
        vfields = [x['name'] for x in vrec['fields']]
        found = False
        for f2 in model.facts.functions:
            if f2.get('rec') != 'Theo::VM' or f2.get('body') is None or len(f2.get('params', [])) != 1 or f2['tmpl'] == 'pattern':
                continue
            pt = (f2['params'][0].get('cty') or '').replace('const ', '').replace('&', '').strip()
            if pt not in ('Theo::VM', 'VM') or not (f2.get('kind') == 'ctor' or f2.get('name') == 'operator='):
                continue
            found = True
            pd_ = f2['params'][0]['d']
            moved = set(ci.get('field') for ci in (f2.get('ctor_inits') or []) if ci.get('init') is not None and
                        any(y.get('k') == 'ref' and y.get('d') == pd_ for y in walk_expr(ci['init'])))
            for x in walk_all_exprs(f2['body']):
                t_ = strip_casts(x.get('l')) if x.get('k') == 'assign' else (strip_casts(x.get('obj')) if x.get('k') == 'call' and (x.get('callee') or '').endswith('::operator=') else None)
                src_ = x.get('r') if x.get('k') == 'assign' else ((x.get('args') or [None])[0] if x.get('k') == 'call' else None)
                if t_ is not None and t_.get('k') == 'member' and src_ is not None and any(y.get('k') == 'ref' and y.get('d') == pd_ for y in walk_expr(src_)):
                    moved.add(t_['name'])
            # a delegating constructor VM(other.code) initialises `code` from the original
            for ci in (f2.get('ctor_inits') or []):
                if ci.get('delegating') or ci.get('field') is None:
                    moved.add('code')
            if any(x.get('k') in ('construct', 'call') and 'VM' in (x.get('rec') or x.get('callee') or '') and any(y.get('k') == 'member' and y.get('name') == 'code' for a in x.get('args', []) for y in walk_expr(a))
                   for ci in (f2.get('ctor_inits') or []) for x in walk_expr(ci.get('init') or {})):
                moved.add('code')
            missing = [n_ for n_ in vfields if n_ not in moved]
            M_.check(not missing, 'VM::%s(%s)' % (f2['name'], f2['params'][0].get('cty')), 'transfers every field %s' % vfields,
                     'the hand-written copy operation of VM does not transfer %s: a copied machine (a snapshot, a machine passed by value) differs from the original in its debugger state - '
                     'armed sites without a recorded location, or a stepping flag that is lost' % missing, _where(model, f2, f2['loc'][1:]),
                     witness={'history': 'setBreakPoint / setSteppingMode(true), copy the machine, execute() on the copy'} if missing else None)
        if not found:
            M_.ok('VM copy operations', 'implicit (member-wise) copy and assignment', 'VM/include/vm.hpp', nontrivial=False)
    except AnalysisBroken as ex_:
        M_.unknown('VM copy operations', str(ex_))
    A = rep.rule('C06.a', 'stop conditions: POTENTIAL_BREAK returns the stepping flag, BREAK and HALT return true, '
                          'every other opcode returns false', floor=12)
    for op, ps in groups.items():
        inst = 'executeSingle/%s' % op
        if not ps:
            A.unknown(inst, 'no path')
            continue
        ok = True
        why = ''
        for s in ps:
            r = s.ret()
            if r is None:
                ok, why = False, 'path without return value'
                continue
            if op in ('BREAK', 'HALT'):
                if r.term != C(1):
                    ok, why = False, 'returns %s, expected true' % t_show(r.term)
            elif op == 'POTENTIAL_BREAK':
                flag = ('init', st)
                if r.term == flag:
                    continue
                # path-split form: guard on the flag decides the constant
                g = [(t, pol) for t, pol in s.guards if t == flag]
                if len(g) == 1 and is_const(r.term) and bool(r.term[1]) == g[0][1]:
                    continue
                ok, why = False, 'returns %s under guards %s, expected the stepping flag' % (
                    t_show(r.term), [(t_show(t), p) for t, p in s.guards])
            else:
                if r.term != C(0):
                    ok, why = False, 'returns %s, expected false (a stop that nobody asked for)' % t_show(r.term)
        A.check(ok, inst, '%d path(s), return value as specified' % len(ps), why, _where(model, ps[0].fn, ps[0].fn['loc'][1:]))
    # ---- b/c setBreakPoint
    B = rep.rule('C06.b', 'enable: insert into the enabled set and write BREAK at every site of the location; '
                          'disable: erase and write POTENTIAL_BREAK; clear: restore every site of every location '
                          'enabled at entry, then empty the set', floor=3)
    Cr = rep.rule('C06.c', 'setBreakPoint fails exactly when the location is not listed, and then has no effect', floor=2)
    sb = model.method('setBreakPoint')
    rep.analysed(sb)
    en = model.lp('enabled')
    pb = model.lp('potential_breaks')
    ps = _paths_of(model, sb)
    params = [p['name'] for p in sb['params']]
    found_paths = {True: [], False: []}
    for s in ps:
        # classify by the lookup guard
        look = None
        for t, pol in s.p.guards:
            lt = lookup_test(t, pol)
            if lt and lt[0] == pb:
                look = ('found' if lt[2] else 'notfound', lt[1])
        if look is None:
            Cr.unknown('setBreakPoint path', 'path not guarded by a lookup in potential_breaks: guards %s' % (
                [(t_show(t), p) for t, p in s.p.guards],))
            continue
        key = look[1]
        keystruct = isinstance(key, tuple) and key[0] == 'struct'
        if not keystruct or dict(key[2]).get('file') != ('param', params[0]) or dict(key[2]).get('line') != ('param', params[1]):
            Cr.unknown('setBreakPoint lookup', 'lookup key is %s, expected {file, line} parameters' % t_show(key))
            continue
        sig = model.effect_signature(s)
        r = s.ret()
        if look[0] == 'notfound':
            ok = (r is not None and r.term == C(0) and not sig)
            Cr.check(ok, 'setBreakPoint/not-listed', 'returns false, no effect',
                     'location not listed: returns %s with effects %s' % (t_show(r.term) if r else None, sig),
                     _where(model, sb, sb['loc'][1:]))
            continue
        # found: which direction?
        val = None
        for t, pol in s.p.guards:
            if t == ('param', params[2]):
                val = pol
        if val is None:
            B.unknown('setBreakPoint/listed', 'path does not test the value parameter')
            continue
        inst = 'setBreakPoint/%s' % ('enable' if val else 'disable')
        if r is None or r.term != C(1):
            Cr.violation(inst, 'listed location but returns %s' % (t_show(r.term) if r else None), _where(model, sb, sb['loc'][1:]))
        else:
            Cr.ok(inst, 'returns true', _where(model, sb, sb['loc'][1:]))
        setop = [ef for ef in s.p.effects if ef[0] == 'assoc' and ef[1] == en]
        writes = [classify_site_write(model, ef) for ef in code_op_writes(model, s)]
        want_op = 'insert' if val else 'erase'
        want_code = 'BREAK' if val else 'POTENTIAL_BREAK'
        why = []
        # what the path knows about membership of the key in the enabled set
        in_set = {lt[1]: lt[2] for lt in (lookup_test(t, pol) for t, pol in s.p.guards) if lt and lt[0] == en}
        ops = []
        for x in setop:
            o, a = x[2], x[3]
            if o == 'emplace' and len(a) == 1:
                o = 'insert'           # emplace(x) of a set of x constructs a copy of x: the same insertion
            if o == 'erase' and len(a) == 1 and isinstance(a[0], tuple) and a[0][0] == 'find' and a[0][1] == en and in_set.get(a[0][2]) is True:
                a = (a[0][2],)         # erase(find(k)) with the key known to be present is erase(k)
            ops.append((o, a))
        if not ops and want_op == 'erase' and in_set.get(key) is False:
            ops = [('erase', (key,))]  # the key is known to be absent: erasing it would do nothing
        if [x[0] for x in ops] != [want_op]:
            why.append('enabled-set operations are %s, expected [%s]' % ([x[2] for x in setop], want_op))
        elif ops[0][1] != (key,):
            why.append('%s uses key %s, not the looked-up location' % (want_op, t_show(setop[0][3])))
        if len(writes) != 1 or writes[0] is None:
            why.append('expected exactly one loop rewriting site opcodes, found %s' % (writes,))
        else:
            w = writes[0]
            if w[0] != want_code:
                why.append('sites are rewritten to %s, expected %s' % (w[0], want_code))
            if w[2] != key:
                why.append('rewrites the sites of %s, not of the looked-up location' % t_show(w[2]))
            if len(w[3]) != 1:
                why.append('rewrite is nested in %d loops' % len(w[3]))
        other = [ef for ef in s.p.effects if ef[0] in ('write', 'store', 'vecop', 'assoc', 'call', 'unknown', 'map_subscript')
                 and ef not in setop and ef not in code_op_writes(model, s)]
        if other:
            why.append('additional effects: %s' % ([(o[0], lp_show(o[1]) if isinstance(o[1], tuple) else o[1]) for o in other],))
        B.check(not why, inst, '%s + %s at every site of the location' % (want_op, want_code), '; '.join(why),
                _where(model, sb, sb['loc'][1:]))
    cb = model.facts.fn('Theo::VM::clearBreakpoints')
    rep.analysed(cb)
    for s in _paths_of(model, cb):
        why = clear_shape(model, s)
        B.check(not why, 'clearBreakpoints', 'restores POTENTIAL_BREAK at every site of every location enabled at entry, '
                                             'then empties the set', '; '.join(why), _where(model, cb, cb['loc'][1:]))
    rs = model.facts.fn('Theo::VM::reset')
    rep.analysed(rs)
    for s in _paths_of(model, rs):
        why = clear_shape(model, s)
        B.check(not why, 'reset', 'restores POTENTIAL_BREAK at every site of every enabled location and empties the set (a reset leaves nothing armed)',
                '; '.join(why), _where(model, rs, rs['loc'][1:]))
    # ---- d
    D = rep.rule('C06.d', 'the current location is that of the site just passed (ip - advance of the break handlers), '
                          '"none"/-1 otherwise; construction and reset start at ip 0', floor=3)
    adv = set()
    for op in ('BREAK', 'POTENTIAL_BREAK'):
        for s in groups.get(op, []):
            v = s.final('ip')
            if v is not None:
                c, atoms = lin_parts(v.term)
                if atoms == {model.ip0(): 1}:
                    adv.add(c)
    gc = model.facts.fn('Theo::VM::getCurrentBreak')
    rep.analysed(gc)
    li = model.lp('line_info')
    if len(adv) != 1:
        D.unknown('getCurrentBreak', 'break handlers advance ip by %s' % sorted(adv))
    else:
        k = adv.pop()
        ok_found = ok_none = False
        why = []
        for s in _paths_of(model, gc):
            r = s.ret()
            terms = []
            if r is not None and isinstance(r.term, tuple) and r.term[0] == 'ite':
                terms = [(r.term[1], True, r.term[2]), (r.term[1], False, r.term[3])]
            elif r is not None:
                g = [(t, pol) for t, pol in s.p.guards]
                if len(g) == 1:
                    terms = [(g[0][0], g[0][1], r.term)]
            for cond, pol, val in terms:
                lt = lookup_test(cond, pol)
                if lt is None:
                    why.append('condition %s is not a lookup test' % t_show(cond))
                    continue
                if lt[0] != li:
                    why.append('lookup is not in line_info')
                    continue
                a = ('find', li, lt[1])
                pol = not lt[2]
                want_key = t_add(model.ip0(), C(k), -1)
                if a[2] != want_key:
                    why.append('looks up %s, but the break handlers leave ip at site+%d (expected key %s)' % (
                        t_show(a[2]), k, t_show(want_key)))
                    continue
                if pol:   # not found
                    if isinstance(val, tuple) and val[0] == 'struct' and dict(val[2]).get('file') == ('str', 'none') \
                            and dict(val[2]).get('line') == C(-1):
                        ok_none = True
                    else:
                        why.append('not-found result is %s, expected {"none", -1}' % t_show(val))
                else:
                    if val in (('init', li + (('mappair', a[2]), ('f', 'second'))), ('init', li + (('key', a[2]),)),
                               ('init', li + (('mapelem', a[2]),))):
                        ok_found = True
                    else:
                        why.append('found result is %s, expected the mapped location' % t_show(val))
        touched = [o for o in model.roles.get('other', []) if any(('pre(%s' % o) in w or o in w for w in why)]
        if touched:
            D.unknown('getCurrentBreak', 'the answer depends on VM state outside the model (%s): %s' % (', '.join(touched), '; '.join(why)[:200]))
        else:
          D.check(ok_found and ok_none and not why, 'getCurrentBreak', 'line_info[ip-%d] or {"none",-1}' % k,
                '; '.join(why) or 'result shape not recognised', _where(model, gc, gc['loc'][1:]))
    for name in ('VM', 'reset'):
        f = model.facts.fn('Theo::VM::' + name)
        rep.analysed(f)
        for s in _paths_of(model, f):
            v = s.final('ip')
            D.check(v is not None and v.term == C(0), 'Theo::VM::%s: ip' % name, 'ip := 0',
                    'ip after %s is %s' % (name, t_show(v.term) if v else 'unchanged'), _where(model, f, f['loc'][1:]))


def lookup_test(t, pol):
    """(container, key, present) when the guard (t, pol) says whether key is in an associative container:
    find(k) == end(), contains(k), count(k) compared with 0, and their negations."""
    if not isinstance(t, tuple):
        return None
    if t[0] == 'not':
        return lookup_test(t[1], not pol)
    if t[0] == 'iteq':
        a, b = t[1], t[2]
        if isinstance(a, tuple) and a[0] == 'aend':
            a, b = b, a
        if isinstance(a, tuple) and a[0] == 'find' and isinstance(b, tuple) and b[0] == 'aend' and b[1] == a[1]:
            return (a[1], a[2], not pol)
        return None
    if t[0] == 'contains':
        return (t[1], t[2], pol)
    if t[0] == 'cmp' and len(t) == 4:
        op, a, b = t[1], t[2], t[3]
        if isinstance(b, tuple) and b[0] == 'contains' and a in (C(0), C(1)):
            a, b = b, a
            op = {'<': '>', '>': '<', '<=': '>=', '>=': '<='}.get(op, op)
        if isinstance(a, tuple) and a[0] == 'contains' and b in (C(0), C(1)):
            # membership is 0 or 1
            truth = {('==', 0): False, ('!=', 0): True, ('>', 0): True, ('<=', 0): False,
                     ('==', 1): True, ('!=', 1): False, ('>=', 1): True, ('<', 1): False}.get((op, b[1] if isinstance(b, tuple) else b))
            if truth is None:
                return None
            return (a[1], a[2], truth if pol else not truth)
    return None


def clear_shape(model, s):
    """Why the path is *not* a correct clearBreakpoints (empty list = correct)."""
    en = model.lp('enabled')
    why = []
    ws = code_op_writes(model, s)
    restored = False
    for ef in ws:
        c = classify_site_write(model, ef)
        if c is None:
            why.append('unrecognised write into the program: %s' % lp_show(ef[1]))
            continue
        name, how, key, lctx = c
        if name != 'POTENTIAL_BREAK':
            why.append('sites rewritten to %s' % name)
            continue
        if isinstance(key, tuple) and key[0] == 'each' and isinstance(key[1], tuple) and key[1][0] == 'seq' and \
                key[1][1] == en and key[1][2] == 'pre' and len(lctx) == 2:
            restored = True
        elif isinstance(key, tuple) and key[0] == 'each' and isinstance(key[1], tuple) and key[1][0] in ('seq', 'seqval'):
            # iterating a copy taken before the clear is fine too
            src = key[1]
            if src[0] == 'seq' and src[2] != 'pre' and src[1] == en:
                why.append('iterates the enabled set after it was modified (%s)' % t_show(src[2]))
            elif src[0] == 'seq' and src[1][0][0] == 'var':
                v = s.p.env.get(src[1][0][1])
                restored = restored or True
            else:
                why.append('restoration iterates %s' % t_show(src))
        else:
            why.append('restoration key %s is not drawn from the enabled set' % t_show(key))
    if not restored:
        why.append('no loop restoring POTENTIAL_BREAK over the sites of the enabled locations')
    cl = [ef for ef in s.p.effects if ef[0] == 'assoc' and ef[1] == en]
    if [x[2] for x in cl] != ['clear']:
        why.append('enabled set operations: %s, expected [clear]' % [x[2] for x in cl])
    else:
        # order: the restoring writes precede the clear
        idx_clear = s.p.effects.index(cl[0])
        for ef in ws:
            if s.p.effects.index(ef) > idx_clear:
                why.append('site restoration happens after the set was cleared')
    return why


# =============================================================================== C17
def c17(rep, model):
    Z1 = rep.rule('C17.Z1', 'reset() gives every VM field the value the constructor gives it (program: via site '
                            'restoration)', floor=len(model.vm['fields']))
    Z2 = rep.rule('C17.Z2', 'reset restores every breakpoint site enabled at entry before emptying the set', floor=1)
    Z3 = rep.rule('C17.Z3', 'HALT has no effect and reports a stop; isDone tests exactly "opcode at ip is HALT"', floor=2)
    Z4 = rep.rule('C17.Z4', 'execute leaves its loop on the first stop', floor=1)
    ctor = model.facts.fn('Theo::VM::VM')
    reset = model.facts.fn('Theo::VM::reset')
    rep.analysed(ctor, reset)
    cps = _paths_of(model, ctor)
    rps = _paths_of(model, reset)
    if len(cps) != 1:
        Z1.unknown('constructor', '%d paths' % len(cps))
        return
    cp = cps[0]

    def final_state(s, fld, is_ctor):
        lp = THIS + (('f', fld['name']),)
        cty = fld['cty']
        if cty.startswith('std::vector<'):
            vs = s.p.vec.get(lp)
            ops = vs.ops if vs else []
            if not ops:
                return 'empty' if is_ctor else 'unchanged'
            st = 'empty' if is_ctor else 'unchanged'
            for o in ops:
                if o[0] == 'clear':
                    st = 'empty'
                elif o[0] == 'assign':
                    st = 'empty' if (isinstance(o[1].term, tuple) and o[1].term[0] == 'empty') else 'assigned ' + t_show(o[1].term)
                elif o[0] == 'resize' and o[1].term == C(0):
                    st = 'empty'
                elif o[0] in ('store',):
                    pass
                else:
                    st = 'modified by ' + o[0]
            return st
        if cty.startswith(('std::set<', 'std::map<')):
            ops = [ef for ef in s.p.effects if ef[0] == 'assoc' and ef[1] == lp]
            st = 'empty' if is_ctor else 'unchanged'
            for o in ops:
                if o[2] == 'clear':
                    st = 'empty'
                elif o[2] == 'operator=':
                    a = o[3][0] if o[3] else None
                    st = 'empty' if (isinstance(a, tuple) and a[0] in ('empty', 'construct') and not (a[0] == 'construct' and a[2])) else 'assigned %s' % t_show(a)
                else:
                    st = 'modified by ' + o[2]
            return st
        v = s.p.heap.get(lp)
        if v is None:
            return 'uninitialised' if is_ctor else 'unchanged'
        return t_show(v.term)
    for s in rps:
        for fld in model.vm['fields']:
            inst = 'VM::%s' % fld['name']
            where = _where(model, reset, reset['loc'][1:])
            if fld['name'] == model.roles['code']:
                why = clear_shape(model, s)
                Z1.check(not why, inst, 'program: only site opcodes ever change (C05.a) and reset restores them',
                         'program is not restored: ' + '; '.join(why), where)
                Z2.check(not why, 'reset: site restoration', 'every site of every location enabled at entry := POTENTIAL_BREAK, then clear',
                         '; '.join(why), where)
                continue
            a = final_state(cp, fld, True)
            b = final_state(s, fld, False)
            scalar = fld['cty'].replace('const ', '') in ('int', 'long', 'unsigned int', 'unsigned long', 'bool', 'char', 'short', 'long long', 'unsigned long long', 'size_t', 'double', 'float') or fld['cty'].endswith('::Type')
            if fld['name'] in model.roles.get('other', []) and a == 'uninitialised' and b == 'unchanged' and not scalar:
                # state outside the model that neither the constructor nor reset touches explicitly (default-constructed member):
                # whether a stale value matters depends on the flag that guards it, which has its own instance
                Z1.ok(inst, 'neither the constructor nor reset assigns it (default-constructed; guarded state outside the model)', where)
                continue
            Z1.check(a == b, inst, 'constructor and reset both leave it %s' % a,
                     'constructor leaves it %s, reset leaves it %s' % (a, b), where,
                     witness={'field': fld['name'], 'constructor': a, 'reset': b})
    groups = model.handler_paths()
    for s in groups.get('HALT', []):
        sig = model.effect_signature(s)
        r = s.ret()
        Z3.check(not sig and r is not None and r.term == C(1), 'executeSingle/HALT', 'no effect, returns true',
                 'effects %s, returns %s' % (sig, t_show(r.term) if r else None), _where(model, s.fn, s.fn['loc'][1:]))
    isd = model.facts.fn('Theo::VM::isDone')
    rep.analysed(isd)
    for s in _paths_of(model, isd):
        r = s.ret()
        want1 = ('cmp', '==', ('init', model.instr_base() + (('f', 'op'),)), ('enum', 'Theo::OpCode::HALT'))
        ok = r is not None and (r.term == want1 or r.term == ('cmp', '==', want1[3], want1[2])) and not model.effect_signature(s)
        Z3.check(ok, 'isDone', 'returns (code[ip].op == HALT)', 'returns %s' % (t_show(r.term) if r else None),
                 _where(model, isd, isd['loc'][1:]))
    ex = model.facts.fn('Theo::VM::execute')
    shape = execute_shape(ex)
    if shape[0] == 'ok':
        Z4.ok('execute', shape[1], _where(model, ex, ex['loc'][1:]))
    elif shape[0] == 'bad':
        Z4.violation('execute', shape[1], _where(model, ex, ex['loc'][1:]))
    else:
        Z4.unknown('execute', shape[1])
