"""Control-flow graph over the structured statement trees of E0, with dominators,
post-dominators and an ordered event list (every expression node in evaluation order).

Nodes: 'entry', 'exit', 'stmt' (an expression statement / one declared variable / a return
value), 'cond' (condition of if/switch/loop), 'branch' (an explicit node on every out-edge of
a condition, so that "dominated by the condition being true" is a plain dominance query).
Functions containing goto/label/try are refused (AnalysisBroken) - libtheo has none outside
the generated scanner."""
from .facts import AnalysisBroken, walk_expr, show, expr_children


# callee signature -> returned expression, for the one-line const bool predicates of the loaded units (filled by facts.Facts)
PREDICATE_BODIES = {}


class Node:
    __slots__ = ('id', 'kind', 'stmt', 'exprs', 'succ', 'pred', 'label', 'of', 'events')

    def __init__(self, nid, kind, stmt=None, exprs=(), label=None, of=None):
        self.id, self.kind, self.stmt, self.exprs = nid, kind, stmt, list(exprs)
        self.succ, self.pred = [], []
        self.label, self.of = label, of
        self.events = []


class Event:
    __slots__ = ('eid', 'node', 'idx', 'e', 'conditional', 'role')

    def __init__(self, eid, node, idx, e, conditional, role):
        self.eid, self.node, self.idx, self.e, self.conditional, self.role = eid, node, idx, e, conditional, role

    def __repr__(self):
        return 'Ev(%s@%s)' % (show(self.e)[:60], self.e.get('loc'))


def eval_order(e, out, conditional=False):
    """post-order: operands before the operation; marks sub-expressions that are only
    conditionally evaluated (?:, &&, || right-hand sides)."""
    if e is None:
        return
    k = e.get('k')
    if k == 'cond':
        eval_order(e['c'], out, conditional)
        eval_order(e['t'], out, True)
        eval_order(e['e'], out, True)
    elif k == 'bin' and e['op'] in ('&&', '||'):
        eval_order(e['l'], out, conditional)
        eval_order(e['r'], out, True)
    elif k == 'lambda':
        pass
    else:
        for c in expr_children(e):
            eval_order(c, out, conditional)
    out.append((e, conditional))


class CFG:
    def __init__(self, f):
        self.f = f
        self.nodes = []
        self.entry = self._new('entry')
        self.exit = self._new('exit')
        self.events = []
        self.by_sid = {}
        self._leaves = {}
        self._build()
        self._events()
        self._doms()
        self._subst = self._single_defs()

    # ------------------------------------------------------------------ construction
    def _new(self, kind, stmt=None, exprs=(), label=None, of=None):
        n = Node(len(self.nodes), kind, stmt, exprs, label, of)
        self.nodes.append(n)
        return n

    def _edge(self, a, b):
        if b not in a.succ:
            a.succ.append(b)
            b.pred.append(a)

    def _build(self):
        ends = self._stmt(self.f['body'], [self.entry], [], [])
        for e in ends:
            self._edge(e, self.exit)
        for c in self.f.get('ctor_inits') or []:
            pass

    def _seq(self, preds, node):
        for p in preds:
            self._edge(p, node)
        return [node]

    def _branch(self, cond, label):
        b = self._new('branch', cond.stmt, (), label, cond)
        self._edge(cond, b)
        return b

    def _stmt(self, s, preds, brk, cont):
        """returns list of nodes from which control falls through"""
        if s is None:
            return preds
        k = s['k']
        if k == 'block':
            cur = preds
            for c in s['s']:
                cur = self._stmt(c, cur, brk, cont)
            if s.get('leave_id') is not None:
                # the body of an inlined helper: its returns continue here
                cur = cur + self._leaves.pop(s['leave_id'], [])
            return cur
        if k == 'leave':
            self._leaves.setdefault(s['target'], []).extend(preds)
            return []
        if k == 'empty':
            return preds
        if k == 'expr':
            n = self._new('stmt', s, [s['e']])
            return self._seq(preds, n)
        if k == 'decl':
            cur = preds
            for v in s['vars']:
                n = self._new('stmt', s, [v['init']] if v.get('init') else [], label=('decl', v['d'], v['name']))
                cur = self._seq(cur, n)
            return cur
        if k == 'return':
            n = self._new('stmt', s, [s['e']] if s.get('e') else [], label='return')
            self._seq(preds, n)
            self._edge(n, self.exit)
            return []
        if k == 'break':
            if not brk:
                raise AnalysisBroken('break outside loop/switch in %s' % self.f['sig'])
            brk[-1].extend(preds)
            return []
        if k == 'continue':
            if not cont:
                raise AnalysisBroken('continue outside loop in %s' % self.f['sig'])
            cont[-1].extend(preds)
            return []
        if k == 'if':
            cur = preds
            if s.get('init'):
                cur = self._stmt(s['init'], cur, brk, cont)
            if s.get('var'):
                v = s['var']
                n = self._new('stmt', s, [v['init']] if v.get('init') else [], label=('decl', v['d'], v['name']))
                cur = self._seq(cur, n)
            c = self._new('cond', s, [s['c']], label='if')
            self._seq(cur, c)
            bt = self._branch(c, True)
            bf = self._branch(c, False)
            ends = self._stmt(s['t'], [bt], brk, cont)
            ends2 = self._stmt(s['e'], [bf], brk, cont) if s.get('e') else [bf]
            return ends + ends2
        if k == 'switch':
            cur = preds
            if s.get('init'):
                cur = self._stmt(s['init'], cur, brk, cont)
            c = self._new('cond', s, [s['c']], label='switch')
            self._seq(cur, c)
            mybrk = []
            brk.append(mybrk)
            fall = []
            has_default = False
            for case in s['cases']:
                labs = tuple((l if isinstance(l, str) else (l.get('name') or l.get('v'))) for l in case['labels'])
                if 'default' in labs:
                    has_default = True
                b = self._branch(c, ('case', labs))
                ends = fall + [b]
                for st in case['s']:
                    ends = self._stmt(st, ends, brk, cont)
                fall = ends
            brk.pop()
            out = fall + mybrk
            if not has_default:
                out.append(self._branch(c, ('case', ('<none>',))))
            return out
        if k in ('while', 'for', 'rangefor', 'do'):
            cur = preds
            if k == 'for' and s.get('init'):
                cur = self._stmt(s['init'], cur, brk, cont)
            if k == 'rangefor':
                r = self._new('stmt', s, [s['range']], label='range')
                cur = self._seq(cur, r)
            cond_exprs = [s['c']] if s.get('c') else []
            c = self._new('cond', s, cond_exprs, label='loop')
            mybrk, mycont = [], []
            brk.append(mybrk)
            cont.append(mycont)
            if k == 'do':
                head = self._new('stmt', s, [], label='do-head')
                self._seq(cur, head)
                ends = self._stmt(s['body'], [head], brk, cont)
                for e in ends + mycont:
                    self._edge(e, c)
                bt = self._branch(c, True)
                self._edge(bt, head)
                bf = self._branch(c, False)
                brk.pop()
                cont.pop()
                return [bf] + mybrk
            self._seq(cur, c)
            bt = self._branch(c, True)
            ends = self._stmt(s['body'], [bt], brk, cont)
            back = ends + mycont
            if k == 'for' and s.get('inc'):
                inc = self._new('stmt', s, [s['inc']], label='inc')
                for e in back:
                    self._edge(e, inc)
                back = [inc]
            for e in back:
                self._edge(e, c)
            brk.pop()
            cont.pop()
            infinite = (k == 'for' and not s.get('c')) or (s.get('c') and s['c'].get('k') == 'bool' and s['c']['v'])
            if infinite:
                return mybrk
            bf = self._branch(c, False)
            return [bf] + mybrk
        raise AnalysisBroken('unstructured statement %s in %s' % (k, self.f['sig']))

    # ------------------------------------------------------------------ events
    def _events(self):
        for n in self.nodes:
            for e in n.exprs:
                lst = []
                eval_order(e, lst)
                for (x, cond) in lst:
                    ev = Event(len(self.events), n, len(n.events), x, cond, None)
                    n.events.append(ev)
                    self.events.append(ev)
                    self.by_sid[x.get('sid')] = ev

    # ------------------------------------------------------------------ dominance
    def _doms(self):
        self.dom = self._compute(self.entry, lambda n: n.pred)
        self.pdom = self._compute(self.exit, lambda n: n.succ)
        # reachability (transitive closure), small graphs
        self.reach = {}
        for n in self.nodes:
            seen = set()
            st = list(n.succ)
            while st:
                x = st.pop()
                if x.id in seen:
                    continue
                seen.add(x.id)
                st.extend(x.succ)
            self.reach[n.id] = seen

    def _compute(self, root, preds):
        allids = set(n.id for n in self.nodes)
        # nodes that can reach/be reached from root
        dom = {n.id: set(allids) for n in self.nodes}
        dom[root.id] = {root.id}
        changed = True
        while changed:
            changed = False
            for n in self.nodes:
                if n is root:
                    continue
                ps = [p for p in preds(n)]
                if not ps:
                    new = {n.id}
                else:
                    new = set(allids)
                    for p in ps:
                        new &= dom[p.id]
                    new.add(n.id)
                if new != dom[n.id]:
                    dom[n.id] = new
                    changed = True
        return dom

    # ------------------------------------------------------------------ locals holding conditions
    def _single_defs(self):
        """locals with exactly one definition (their initialiser) and a scalar/bool/iterator type: did -> init expr"""
        from .facts import walk_stmts, walk_all_exprs, strip_casts
        cand, killed = {}, set()
        for st in walk_stmts(self.f['body']):
            vs = st['vars'] if st['k'] == 'decl' else ([st['var']] if st['k'] == 'if' and st.get('var') else [])
            for v in vs:
                if v.get('init') is not None and not v.get('is_ref') and not v.get('static_local'):
                    cand[v['d']] = v['init']
        for e in walk_all_exprs(self.f['body']):
            t = None
            if e.get('k') == 'assign':
                t = strip_casts(e['l'])
            elif e.get('k') == 'un' and e['op'] in ('++', '--', '&'):
                t = strip_casts(e['e'])
            elif e.get('k') == 'call' and e.get('obj') is not None and ((e.get('callee') or '').endswith('::operator=') or e.get('op') in ('++', '--', '+=', '-=', '=')):
                t = strip_casts(e['obj'])
            if t is not None and t.get('k') == 'ref' and t.get('d') in cand:
                killed.add(t['d'])
        return {d: v for d, v in cand.items() if d not in killed}

    def expanded(self, e, depth=0):
        """copy of condition e in which single-definition bool/scalar locals are replaced by their initialiser, and calls of one-line
        const predicates of the repository (bool isLinear() const { return gen_res.empty(); }) by the expression they return"""
        if not isinstance(e, dict) or depth > 6:
            return e
        if e.get('k') == 'call' and not e.get('args') and e.get('callee_sig') in PREDICATE_BODIES and (e.get('cty') or '') == 'bool':
            body = PREDICATE_BODIES[e['callee_sig']]
            obj = e.get('obj')

            def rebase(x):
                if isinstance(x, list):
                    return [rebase(y) for y in x]
                if not isinstance(x, dict):
                    return x
                if x.get('k') == 'this' and obj is not None:
                    return obj
                return {k: rebase(v) for k, v in x.items()}
            return self.expanded(rebase(body), depth + 1)
        if e.get('k') == 'ref' and e.get('dk') == 'var' and e.get('d') in self._subst:
            init = self._subst[e['d']]
            ct = (e.get('cty') or '').replace('const ', '')
            from .facts import strip_casts as _sc, strip_conv as _scv
            i0 = _scv(init)
            is_lookup = i0 is not None and i0.get('k') == 'call' and (i0.get('callee') or '').split('::')[-1] in ('find', 'begin', 'end', 'cbegin', 'cend', 'lower_bound')
            is_la = i0 is not None and i0.get('k') == 'call' and (i0.get('callee') or '').split('::')[-1] == 'lookahead'
            is_const_enum = (e.get('cty') or '').startswith('const ') and ct.endswith('::Type')
            if ct == 'bool' or ('iterator' in ct.lower() and is_lookup) or is_la or is_const_enum:
                return self.expanded(init, depth + 1)
            return e
        out = {}
        for k, v in e.items():
            if isinstance(v, dict):
                out[k] = self.expanded(v, depth + 1)
            elif isinstance(v, list):
                out[k] = [self.expanded(x, depth + 1) if isinstance(x, dict) else ([x[0], self.expanded(x[1], depth + 1)] if isinstance(x, list) and len(x) == 2 and isinstance(x[1], dict) else x) for x in v]
            else:
                out[k] = v
        return out

    # ------------------------------------------------------------------ queries
    def ev(self, e):
        """Event of an expression node (by sid)."""
        r = self.by_sid.get(e.get('sid'))
        if r is None:
            raise AnalysisBroken('expression %s not in CFG of %s' % (show(e), self.f['sig']))
        return r

    def dominates(self, a, b):
        """event a is executed before b on every path reaching b"""
        if a.node is b.node:
            return a.idx < b.idx and not a.conditional
        return a.node.id in self.dom[b.node.id] and not a.conditional

    def postdominates(self, b, a):
        """every path from a to exit passes b (after a)"""
        if a.node is b.node:
            return b.idx > a.idx and not b.conditional
        return b.node.id in self.pdom[a.node.id] and not b.conditional

    def on_all_paths(self, b):
        """b is evaluated on every path from entry to exit"""
        return b.node.id in self.pdom[self.entry.id] and not b.conditional

    def can_follow(self, a, b):
        """some path executes b after a"""
        if a.node is b.node:
            if b.idx > a.idx:
                return True
            return a.node.id in self.reach[a.node.id]
        return b.node.id in self.reach[a.node.id]

    def node_reachable(self, n):
        return n is self.entry or n.id in self.reach[self.entry.id]

    def guards_of(self, ev):
        """branch nodes dominating the event: list of (cond expr, label)"""
        out = []
        for nid in self.dom[ev.node.id]:
            n = self.nodes[nid]
            if n.kind == 'branch' and n.of.exprs:
                out.append((self.expanded(n.of.exprs[0]), n.label, n.of))
        # guards inside the same full expression: right operands of && / || and the arms of ?:
        if ev.conditional:
            for root in ev.node.exprs:
                acc = self._sc_path(root, ev.e, [])
                if acc:
                    dummy = Node(-1, 'cond')
                    for c, lab in acc:
                        out.append((self.expanded(c), lab, dummy))
                    break
        return out

    def _sc_path(self, e, target, acc):
        if e is None:
            return None
        if e is target:
            return list(acc)
        k = e.get('k')
        if k == 'lambda':
            return None
        if k == 'bin' and e.get('op') in ('&&', '||'):
            r = self._sc_path(e['l'], target, acc)
            if r is not None:
                return r
            return self._sc_path(e['r'], target, acc + [(e['l'], e['op'] == '&&')])
        if k == 'cond':
            r = self._sc_path(e['c'], target, acc)
            if r is not None:
                return r
            r = self._sc_path(e['t'], target, acc + [(e['c'], True)])
            if r is not None:
                return r
            return self._sc_path(e['e'], target, acc + [(e['c'], False)])
        for c in expr_children(e):
            r = self._sc_path(c, target, acc)
            if r is not None:
                return r
        return None

    def calls(self, pred=None):
        out = []
        for ev in self.events:
            if ev.e.get('k') == 'call' and (pred is None or pred(ev.e)):
                out.append(ev)
        return out

    def calls_to(self, callee_suffix):
        return self.calls(lambda e: (e.get('callee') or '').endswith(callee_suffix))

    def exits_dominated_by(self, ev):
        """True when every path to exit passes ev"""
        return self.on_all_paths(ev)

    def returns(self):
        return [n for n in self.nodes if n.kind == 'stmt' and n.label == 'return']
