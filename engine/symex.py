"""E1 core: a small structured abstract interpreter over the statement trees produced by
E0.  It computes, per path through a function, the ordered list of *effects* on symbolic
locations (fields of `this`, elements of vectors, locals), the guards under which the path
is taken and the returned value.  Integer expressions carry a linear normal form (so that
`ip + 1 - 1` and `ip` are the same location) and an interval with C++ typing: whenever the
mathematical range of a sub-expression does not fit its static type the value is tagged
with an `overflow` note.  No solver is involved and nothing is executed; unsupported
constructs become `opaque` values / `unknown` effects which the rules treat as
"cannot classify".
"""
import itertools

from .facts import show, AnalysisBroken, strip_copies, strip_casts, walk_expr, walk_stmts

INT_MAX = 2147483647
INT_MIN = -2147483648
TYPE_RANGES = {
    'int': (INT_MIN, INT_MAX),
    'unsigned int': (0, 2 ** 32 - 1),
    'long': (-2 ** 63, 2 ** 63 - 1),
    'unsigned long': (0, 2 ** 64 - 1),
    'long long': (-2 ** 63, 2 ** 63 - 1),
    'unsigned long long': (0, 2 ** 64 - 1),
    'short': (-32768, 32767),
    'unsigned short': (0, 65535),
    'char': (-128, 127),
    'signed char': (-128, 127),
    'unsigned char': (0, 255),
    'bool': (0, 1),
    '__int128': (-2 ** 127, 2 ** 127 - 1),
}
SIGNED = {'int', 'long', 'long long', 'short', 'char', 'signed char', '__int128'}


def type_range(cty):
    cty = (cty or '').replace('const ', '').strip()
    return TYPE_RANGES.get(cty)


# ----------------------------------------------------------------------------- terms
def C(n):
    return ('c', n)


def is_const(t):
    return isinstance(t, tuple) and len(t) == 2 and t[0] == 'c' and isinstance(t[1], (int, bool))


def lin_parts(t):
    """term -> (const, {atom: coef})"""
    if is_const(t):
        return int(t[1]), {}
    if isinstance(t, tuple) and t and t[0] == 'lin':
        return t[1], dict(t[2])
    return 0, {t: 1}


def mk_lin(c, atoms):
    atoms = {a: k for a, k in atoms.items() if k != 0}
    if not atoms:
        return C(c)
    if c == 0 and len(atoms) == 1:
        (a, k), = atoms.items()
        if k == 1:
            return a
    return ('lin', c, tuple(sorted(atoms.items(), key=lambda x: repr(x[0]))))


def t_add(a, b, sign=1):
    ca, aa = lin_parts(a)
    cb, ab = lin_parts(b)
    for k, v in ab.items():
        aa[k] = aa.get(k, 0) + sign * v
    return mk_lin(ca + sign * cb, aa)


def t_show(t, depth=0):
    if not isinstance(t, tuple) or not t:
        return str(t)
    if depth > 8:
        return '…'
    k = t[0]
    d = depth + 1
    if k == 'c':
        return str(t[1])
    if k == 'lin':
        parts = []
        for a, c in t[2]:
            s = t_show(a, d)
            parts.append(s if c == 1 else ('-' + s if c == -1 else '%d*%s' % (c, s)))
        if t[1]:
            parts.append(str(t[1]))
        return '(' + ' + '.join(parts).replace('+ -', '- ') + ')'
    if k == 'init':
        return 'pre(' + lp_show(t[1]) + ')'
    if k == 'operand':
        return 'instr.' + t[1]
    if k == 'ld':
        return '%s[%s]%s' % (lp_show(t[1]), t_show(t[2], d), '' if not t[3] else "'%d" % t[3])
    if k == 'param':
        return t[1]
    if k == 'enum':
        return t[1].split('::')[-1]
    if k == 'str':
        return repr(t[1])
    if k == 'size':
        return 'size(%s)%s' % (lp_show(t[1]), '' if not t[2] else "'%d" % t[2])
    return '%s(%s)' % (k, ', '.join(t_show(x, d) if isinstance(x, tuple) else str(x) for x in t[1:]))


def lp_show(lp):
    out = []
    for c in lp:
        if c == ('this',):
            out.append('this')
        elif c[0] == 'var':
            out.append(c[2] if len(c) > 2 else 'v%d' % c[1])
        elif c[0] == 'tmp':
            out.append('tmp%d' % c[1])
        elif c[0] == 'f':
            out.append('.' + c[1])
        elif c[0] == 'idx':
            out.append('[' + t_show(c[1]) + ']')
        elif c[0] == 'top0':
            out.append('[top-%d]' % c[1])
        elif c[0] == 'new':
            out.append('[pushed#%d]' % c[1])
        elif c[0] == 'each':
            out.append('[each]')
        else:
            out.append(str(c))
    return ''.join(out).replace('this.', '', 1) if out and out[0] == 'this' and len(out) > 1 else ''.join(out)


def norm_ite(cond, a, b):
    """ite(cond, a, b) -> max/min forms when it is a clamp written with a comparison"""
    if isinstance(cond, tuple) and cond[0] == 'not':
        return norm_ite(cond[1], b, a)
    if isinstance(cond, tuple) and cond[0] == 'cmp' and cond[1] in ('<', '<=', '>', '>='):
        op, x, k = cond[1], cond[2], cond[3]
        if is_const(x) and not is_const(k):
            x, k = k, x
            op = {'<': '>', '<=': '>=', '>': '<', '>=': '<='}[op]
        if is_const(k):
            kc = k
            # ite(x < K, K', x)
            if op in ('<', '<=') and b == x and is_const(a) and (a == kc or (op == '<' and a == kc) or (op == '<=' and a[1] in (kc[1], kc[1] + 1))):
                return ('max', x, a)
            if op in ('>', '>=') and b == x and is_const(a) and (a == kc or a[1] in (kc[1], kc[1] - 1)):
                return ('min', x, a)
            # ite(x >= K, x, K)
            if op in ('>=', '>') and a == x and is_const(b) and (b == kc or b[1] in (kc[1], kc[1] + 1)):
                return ('max', x, b)
            if op in ('<=', '<') and a == x and is_const(b) and (b == kc or b[1] in (kc[1], kc[1] - 1)):
                return ('min', x, b)
    return ('ite', cond, a, b)


class Val:
    __slots__ = ('term', 'iv', 'notes', 'struct')

    def __init__(self, term, iv=None, notes=(), struct=None):
        self.term = term
        self.iv = iv
        self.notes = tuple(notes)
        self.struct = struct      # dict field -> Val for aggregate values

    def with_notes(self, notes):
        if not notes:
            return self
        return Val(self.term, self.iv, tuple(self.notes) + tuple(n for n in notes if n not in self.notes),
                   self.struct)

    def __repr__(self):
        return 'Val(%s, %s%s)' % (t_show(self.term), self.iv, ', notes=%s' % (self.notes,) if self.notes else '')


def opaque(e, why='unmodelled'):
    return Val(('opaque', show(e), tuple(e.get('loc', ()))), None, (('opaque', show(e), why),))


class VecState:
    """Abstract state of one std::vector: operations applied on this path, in order."""

    def __init__(self):
        self.ops = []           # ('store', idxVal, val) ('push', val) ('append_n', countVal, val) ('pop',)
        #                         ('truncate', lenVal) ('clear',) ('unknown', what)
        self.pushed = []        # values pushed and still on top
        self.popped = 0         # elements of the initial vector popped
        self.lost = False       # positions relative to the initial top no longer known

    def copy(self):
        v = VecState()
        v.ops = list(self.ops)
        v.pushed = list(self.pushed)
        v.popped = self.popped
        v.lost = self.lost
        return v

    def epoch(self):
        return len(self.ops)


class Path:
    def __init__(self):
        self.env = {}
        self.heap = {}
        self.vec = {}
        self.guards = []
        self.effects = []
        self.ret = None
        self.notes = []
        self.refine = {}
        self.loopctx = ()
        self.returned = False

    def copy(self):
        p = Path()
        p.env = dict(self.env)
        p.heap = dict(self.heap)
        p.vec = {k: v.copy() for k, v in self.vec.items()}
        p.guards = list(self.guards)
        p.effects = list(self.effects)
        p.ret = self.ret
        p.notes = list(self.notes)
        p.refine = dict(self.refine)
        p.loopctx = self.loopctx
        p.returned = self.returned
        return p

    def vecstate(self, lp):
        if lp not in self.vec:
            self.vec[lp] = VecState()
        return self.vec[lp]


def _op_eq(a, b):
    if a[0] != b[0] or len(a) != len(b):
        return False
    for x, y in zip(a, b):
        if isinstance(x, Val) and isinstance(y, Val):
            if x.term != y.term:
                return False
        elif x != y:
            return False
    return True


def iv_union(a, b):
    if a is None or b is None:
        return None
    return (min(a[0], b[0]), max(a[1], b[1]))


def iv_meet(a, b):
    if a is None:
        return b
    if b is None:
        return a
    return (max(a[0], b[0]), min(a[1], b[1]))


class Symex:
    """Interpreter instance for one Facts object."""

    MAX_DEPTH = 3
    MAX_PATHS = 4000

    def __init__(self, facts, this_rec=None, operand_ranges=None, init_ranges=None,
                 no_inline=(), vec_elem_ranges=None):
        self.facts = facts
        self.this_rec = this_rec
        self.operand_ranges = operand_ranges or {}
        self.init_ranges = init_ranges or {}      # field name -> interval for pre-state reads
        self.vec_elem_ranges = vec_elem_ranges or {}   # vector field name -> interval of its elements
        self.no_inline = set(no_inline)
        self.tmp_counter = itertools.count(1)
        self.unsupported = []

    # ------------------------------------------------------------------ entry
    def run(self, f, this_lp=(('this',),), args=None, path=None, depth=0, share_env=False, want_lvalue=False):
        """Execute function f; returns list of finished paths.  share_env: the callee sees the caller's locals
        (lambda with by-reference captures).  want_lvalue: also record the lvalue of each returned expression."""
        self.facts.check_recovery(f)
        p = path.copy() if path else Path()
        saved_env = p.env
        p.env = dict(saved_env) if share_env else {}
        for i, prm in enumerate(f['params']):
            if args is not None and i < len(args):
                p.env[prm['d']] = args[i]
            else:
                rng = type_range(prm['cty'])
                p.env[prm['d']] = Val(('param', prm['name']), rng)
        ctx = {'this': this_lp, 'fn': f, 'depth': depth, 'want_lvalue': want_lvalue}
        if f.get('ctor_inits'):
            for ci in f['ctor_inits']:
                scalar_default = (not ci.get('written')) and ci.get('init') is not None and \
                    (ci['init'].get('cty') or '').replace('const ', '') in ('bool', 'int', 'unsigned int', 'long', 'unsigned long', 'short', 'unsigned short', 'char',
                                                                           'signed char', 'unsigned char', 'long long', 'unsigned long long') and \
                    ci['init'].get('k') in ('bool', 'int', 'char', 'un', 'cast', 'paren', 'bin')
                # (a default member initialiser of a scalar member is what the constructor leaves in it when it does not mention the member)
                if (ci.get('written') or scalar_default) and ci.get('field') and ci['field'] != '<base>':
                    outs = self.eval(ci['init'], p, ctx)
                    # constructor initialisers do not fork in libtheo; take all
                    np = []
                    for q, v in outs:
                        self.write_lp(q, this_lp + (('f', ci['field']),), v, ci['init'], ctx)
                        np.append(q)
                    if len(np) != 1:
                        raise AnalysisBroken('forking constructor initialiser in %s' % f['sig'])
                    p = np[0]
        outs = self.exec_stmt(f['body'], p, ctx)
        res = []
        for q, flow in outs:
            q.returned = True
            res.append(q)
        for q in res:
            if path and share_env:
                # keep updates to the caller's locals, drop the callee's own
                own = set(prm['d'] for prm in f['params'])
                q.env = {d: v for d, v in q.env.items() if d in saved_env and d not in own}
                for d, v in saved_env.items():
                    q.env.setdefault(d, v)
            else:
                q.env = dict(saved_env) if path else q.env
        if len(res) > self.MAX_PATHS:
            raise AnalysisBroken('path explosion in %s' % f['sig'])
        return res

    # ------------------------------------------------------------------ statements
    def exec_block(self, stmts, p, ctx):
        cur = [(p, 'next')]
        for s in stmts:
            nxt = []
            for q, flow in cur:
                if flow != 'next':
                    nxt.append((q, flow))
                else:
                    nxt.extend(self.exec_stmt(s, q, ctx))
            cur = nxt
            if len(cur) > self.MAX_PATHS:
                raise AnalysisBroken('path explosion in %s' % ctx['fn']['sig'])
        return cur

    def exec_stmt(self, s, p, ctx):
        if s is None:
            return [(p, 'next')]
        k = s['k']
        if k == 'block':
            return self.exec_block(s['s'], p, ctx)
        if k == 'empty':
            return [(p, 'next')]
        if k == 'expr':
            return [(q, 'next') for q, _ in self.eval(s['e'], p, ctx)]
        if k == 'decl':
            cur = [p]
            for v in s['vars']:
                nxt = []
                for q in cur:
                    nxt.extend(self.exec_decl(v, q, ctx))
                cur = nxt
            return [(q, 'next') for q in cur]
        if k == 'return':
            if s['e'] is None:
                p.ret = None
                return [(p, 'return')]
            res = []
            if ctx.get('want_lvalue'):
                for q, lp in self.eval_lvalue(s['e'], p, ctx):
                    q.ret = Val(('refto', lp)) if lp is not None else None
                    if lp is None:
                        for q2, v in self.eval(s['e'], q, ctx):
                            q2.ret = v
                            res.append((q2, 'return'))
                    else:
                        res.append((q, 'return'))
                return res
            for q, v in self.eval(s['e'], p, ctx):
                q.ret = v
                res.append((q, 'return'))
            return res
        if k == 'break':
            return [(p, 'break')]
        if k == 'continue':
            return [(p, 'continue')]
        if k == 'if':
            return self.exec_if(s, p, ctx)
        if k == 'switch':
            return self.exec_switch(s, p, ctx)
        if k == 'for':
            return self.exec_for(s, p, ctx)
        if k == 'rangefor':
            return self.exec_rangefor(s, p, ctx)
        if k in ('while', 'do'):
            return self.exec_while(s, p, ctx)
        self.unsupported.append('%s statement in %s' % (k, ctx['fn']['sig']))
        p.effects.append(('unknown', 'statement kind %s' % k, tuple(s.get('loc', ()))))
        return [(p, 'next')]

    def exec_decl(self, v, p, ctx):
        if v.get('static_local'):
            p.effects.append(('unknown', 'static local %s' % v['name'], tuple(v.get('loc', ()))))
        if v.get('init') is None:
            rng = type_range(v['cty'])
            p.env[v['d']] = Val(('uninit', v['name']), rng)
            return [p]
        init = v['init']
        if v.get('is_ref'):
            # reference local: bind to the lvalue
            outs = self.eval_lvalue(init, p, ctx)
            res = []
            for q, lp in outs:
                if lp is None:
                    for q2, val in self.eval(init, q, ctx):
                        q2.env[v['d']] = val
                        res.append(q2)
                else:
                    q.env[v['d']] = Val(('refto', lp))
                    res.append(q)
            return res
        res = []
        for q, val in self.eval(init, p, ctx):
            val = self.coerce(val, v['cty'], init)
            q.env[v['d']] = val
            res.append(q)
        return res

    def exec_if(self, s, p, ctx):
        cur = [p]
        if s.get('init'):
            cur = [q for q, _ in self.exec_stmt(s['init'], p, ctx)]
        res = []
        for q0 in cur:
            if s.get('var'):
                qs = self.exec_decl(s['var'], q0, ctx)
            else:
                qs = [q0]
            for q1 in qs:
                for q, cv in self.eval(s['c'], q1, ctx):
                    outs = {}
                    for branch, pol in ((s['t'], True), (s['e'], False)):
                        qq = self.assume(q.copy(), cv, pol)
                        if qq is None:
                            continue
                        if branch is None:
                            outs[pol] = [(qq, 'next')]
                        else:
                            outs[pol] = self.exec_stmt(branch, qq, ctx)
                    merged = self._merge_branches(q, cv, outs)
                    if merged is not None:
                        res.append((merged, 'next'))
                    else:
                        for pol in (True, False):
                            res.extend(outs.get(pol, []))
        return res

    def _merge_branches(self, q, cv, outs):
        """Join the two arms of an `if` into one path with ite-values when both arms are single
        fall-through paths whose effects differ only in the values written (same locations, same
        order).  This makes `if (c) x = a; else x = b;` and `x = c ? a : b;` indistinguishable."""
        if True not in outs or False not in outs or len(outs[True]) != 1 or len(outs[False]) != 1:
            return None
        (pa, fa), (pb, fb) = outs[True][0], outs[False][0]
        if fa != 'next' or fb != 'next':
            return None
        n0 = len(q.effects)
        ea, eb = pa.effects[n0:], pb.effects[n0:]
        if len(ea) != len(eb):
            return None
        cond = cv.term
        m = q.copy()

        def ite(va, vb):
            if va is vb or (va is not None and vb is not None and va.term == vb.term):
                return va
            if va is None or vb is None:
                return None
            return Val(norm_ite(cond, va.term, vb.term), iv_union(va.iv, vb.iv), tuple(va.notes) + tuple(n for n in vb.notes if n not in va.notes))
        new_eff = []
        for x, y in zip(ea, eb):
            if x[0] != y[0]:
                return None
            if x[0] == 'store' and x[1] == y[1] and x[2] == y[2] and x[4] == y[4]:
                v = ite(x[3], y[3])
                if v is None:
                    return None
                new_eff.append(('store', x[1], x[2], v, x[4], x[5]))
            elif x[0] == 'write' and x[1] == y[1] and x[3] == y[3]:
                v = ite(x[2], y[2])
                if v is None:
                    return None
                new_eff.append(('write', x[1], v, x[3], x[4]))
            elif x == y:
                new_eff.append(x)
            else:
                return None
        # vector states must have the same operation shapes
        keys = set(pa.vec) | set(pb.vec)
        for k in keys:
            oa = pa.vec[k].ops if k in pa.vec else []
            ob = pb.vec[k].ops if k in pb.vec else []
            base = len(q.vec[k].ops) if k in q.vec else 0
            if len(oa) != len(ob):
                return None
            vs = (pa.vec[k] if k in pa.vec else VecState()).copy()
            for i in range(base, len(oa)):
                a, b = oa[i], ob[i]
                if a[0] != b[0]:
                    return None
                if a[0] == 'store' and a[1].term == b[1].term:
                    v = ite(a[2], b[2])
                    if v is None:
                        return None
                    vs.ops[i] = ('store', a[1], v, a[3])
                elif a[0] in ('pop', 'clear') and a == b:
                    pass
                elif all((isinstance(u, Val) and isinstance(w, Val) and u.term == w.term) or u == w for u, w in zip(a, b)):
                    pass
                else:
                    return None
            if len(pa.vec.get(k, VecState()).pushed) != len(pb.vec.get(k, VecState()).pushed):
                return None
            m.vec[k] = vs
        m.effects = list(q.effects) + new_eff
        # heap
        for lp in set(pa.heap) | set(pb.heap):
            va, vb = pa.heap.get(lp), pb.heap.get(lp)
            if va is None or vb is None:
                pre = q.heap.get(lp)
                if pre is None:
                    pre = self._init_val(q, lp, None)
                va = va if va is not None else pre
                vb = vb if vb is not None else pre
            v = ite(va, vb)
            if v is None:
                return None
            m.heap[lp] = v
        # locals
        for d in set(pa.env) | set(pb.env):
            va, vb = pa.env.get(d), pb.env.get(d)
            if va is None or vb is None:
                m.env[d] = va or vb
                continue
            if va.struct or vb.struct:
                if va.term != vb.term:
                    return None
                m.env[d] = va
                continue
            m.env[d] = ite(va, vb)
        m.notes = list(dict.fromkeys(pa.notes + pb.notes))
        m.refine = dict(q.refine)
        m.guards = list(q.guards)
        m.ret = q.ret
        return m

    def exec_switch(self, s, p, ctx):
        res = []
        all_labels = []
        for c in s['cases']:
            for l in c['labels']:
                if isinstance(l, dict):
                    all_labels.append(l.get('enumerator') or l.get('v'))
        has_default = any('default' in c['labels'] for c in s['cases'])
        for q0, cv in self.eval(s['c'], p, ctx):
            for i, c in enumerate(s['cases']):
                labs = [l.get('enumerator') or l.get('v') for l in c['labels'] if isinstance(l, dict)]
                q = q0.copy()
                if 'default' in c['labels']:
                    q.guards.append((('switch_notin', cv.term, tuple(x for x in all_labels if x not in labs)), True))
                else:
                    q.guards.append((('switch_in', cv.term, tuple(labs)), True))
                # run this case and fall through following ones
                cur = [(q, 'next')]
                for c2 in s['cases'][i:]:
                    nxt = []
                    for qq, flow in cur:
                        if flow == 'next':
                            nxt.extend(self.exec_block(c2['s'], qq, ctx))
                        else:
                            nxt.append((qq, flow))
                    cur = nxt
                    if all(flow != 'next' for _, flow in cur):
                        break
                for qq, flow in cur:
                    res.append((qq, 'next' if flow == 'break' else flow))
            if not has_default:
                q = q0.copy()
                q.guards.append((('switch_notin', cv.term, tuple(all_labels)), True))
                res.append((q, 'next'))
        return res

    # loops ------------------------------------------------------------
    def _loop_body(self, body, p, ctx, lctx):
        """Execute a loop body once under loop context lctx ("may run 0..n times").  The alternatives
        through one iteration are merged into ONE continuation whose effects are the union of the
        alternatives' effects (all of them may happen, in any iteration); paths that return from inside
        the loop stay separate."""
        q = p.copy()
        q.loopctx = p.loopctx + (lctx,)
        before_heap = dict(q.heap)
        n0 = len(q.effects)
        outs = self.exec_stmt(body, q, ctx) if body is not None else [(q, 'next')]
        res = []
        cont = [qq for qq, flow in outs if flow in ('next', 'break', 'continue')]
        for qq, flow in outs:
            if flow not in ('next', 'break', 'continue'):
                qq.loopctx = p.loopctx
                res.append((qq, flow))
        if cont:
            m = cont[0]
            for other in cont[1:]:
                for ef in other.effects[n0:]:
                    if not any(ef is x or ef == x for x in m.effects[n0:]):
                        m.effects.append(ef)
                for lp, v in other.heap.items():
                    if before_heap.get(lp) is not v and m.heap.get(lp) is not v:
                        m.heap[lp] = v
                for k, vs in other.vec.items():
                    if k not in m.vec:
                        m.vec[k] = vs
                    else:
                        have = m.vec[k].ops
                        for op in vs.ops:
                            if not any(op is x for x in have) and not any(_op_eq(op, x) for x in have):
                                have.append(op)
                        m.vec[k].lost = m.vec[k].lost or vs.lost or len(cont) > 1 and bool(vs.ops)
                m.notes = list(dict.fromkeys(m.notes + other.notes))
            m.guards = list(p.guards)
            m.refine = dict(p.refine)
            m.loopctx = p.loopctx
            for lp, v in list(m.heap.items()):
                if before_heap.get(lp) is not v:
                    m.heap[lp] = Val(('havoc', lp, lctx[0]), v.iv if v else None, (('loop-carried', lp_show(lp)),))
                    m.effects.append(('loopwrite', lp, v, lctx))
            res.append((m, 'next'))
        return res

    def exec_for(self, s, p, ctx):
        cur = [(p, 'next')]
        if s.get('init'):
            cur = self.exec_stmt(s['init'], p, ctx)
        res = []
        for q, _ in cur:
            counted = self._counted_for(s, q, ctx)
            if counted is not None:
                var_d, lo, hi_term, hi_val = counted
                lctx = ('count', hi_term, tuple(s['loc']))
                lo_iv = lo.iv or (0, 0)
                hv = hi_val.iv or type_range('int')
                q.env[var_d] = Val(('loopvar', var_d), (lo_iv[0], max(lo_iv[0], hv[1] - 1)))
                outs = self._loop_body(s['body'], q, ctx, lctx)
                # collapse "push_back(invariant)" inside a counted loop into append_n
                for qq, flow in outs:
                    self._collapse_appends(qq, lctx, t_add(hi_term, lo.term, -1), hi_val)
                    res.append((qq, flow))
            else:
                condshow = show(s['c']) if s.get('c') else 'true'
                lctx = ('loop', condshow, tuple(s['loc']))
                if s.get('c') is None and not self._has_exit(s['body']):
                    q.effects.append(('unknown', 'infinite loop without exit', tuple(s['loc'])))
                outs = self._loop_body(s['body'], q, ctx, lctx)
                for qq, flow in outs:
                    if s.get('c'):
                        for q3, cv in self.eval(s['c'], qq, ctx):
                            q3.effects.append(('loopcond', cv.term, lctx))
                    res.append((qq, flow))
        return res

    def _has_exit(self, body):
        from .facts import walk_stmts
        return any(st['k'] in ('break', 'return') for st in walk_stmts(body))

    def _counted_for(self, s, p, ctx):
        """for (T k = a; k < n; k++) with k, n not written in the body."""
        from .facts import walk_all_exprs
        init, c, inc = s.get('init'), s.get('c'), s.get('inc')
        if not init or init['k'] != 'decl' or len(init['vars']) != 1 or c is None or inc is None:
            return None
        v = init['vars'][0]
        d = v['d']

        def is_k(e):
            e2 = e
            while e2 and e2.get('k') == 'cast':
                e2 = e2['e']
            return e2 and e2.get('k') == 'ref' and e2.get('d') == d
        if not (c.get('k') == 'bin' and c['op'] in ('<', '!=') and is_k(c['l'])):
            return None
        if inc.get('k') == 'un' and inc['op'] == '++' and is_k(inc['e']):
            pass
        elif inc.get('k') == 'assign' and inc['op'] == '+=' and is_k(inc['l']) and \
                inc['r'].get('k') == 'int' and inc['r']['v'] == 1:
            pass
        else:
            return None
        # k must not be written in the body
        for e in walk_all_exprs(s['body']):
            if e.get('k') == 'assign' and is_k(e['l']):
                return None
            if e.get('k') == 'un' and e['op'] in ('++', '--') and is_k(e['e']):
                return None
        outs = self.eval(c['r'], p, ctx)
        if len(outs) != 1:
            return None
        hv = outs[0][1]
        lo = p.env.get(d)
        if lo is None:
            return None
        return d, lo, hv.term, hv

    def _collapse_appends(self, p, lctx, count_term, count_val):
        for lp, vs in p.vec.items():
            new_ops = []
            for op in vs.ops:
                if op[0] == 'push' and len(op) > 2 and op[2] and op[2][-1] == lctx:
                    val = op[1]
                    if not self._mentions_loopvar(val.term):
                        new_ops.append(('append_n', Val(count_term, count_val.iv), val, op[2][:-1]))
                        # the pushes are no longer individually addressable
                        if val in vs.pushed:
                            vs.pushed.remove(val)
                        vs.lost = True
                        continue
                new_ops.append(op)
            vs.ops = new_ops

    def _mentions_loopvar(self, t):
        if not isinstance(t, tuple):
            return False
        if t and t[0] == 'loopvar':
            return True
        return any(self._mentions_loopvar(x) for x in t[1:] if isinstance(x, tuple))

    def exec_rangefor(self, s, p, ctx):
        res = []
        for q, rv in self.eval_range(s['range'], p, ctx):
            lctx = ('foreach', rv, tuple(s['loc']))
            v = s['var']
            q.env[v['d']] = Val(('each', rv), type_range(v['cty']) if not v['cty'].startswith('std::') else None)
            res.extend(self._loop_body(s['body'], q, ctx, lctx))
        return res

    def eval_range(self, e, p, ctx):
        """Range expression of a range-for: returns (path, term describing the sequence)."""
        outs = self.eval_lvalue(e, p, ctx)
        res = []
        for q, lp in outs:
            if lp is not None:
                cur = self.read_lp(q, lp, e)
                if isinstance(cur.term, tuple) and cur.term[0] == 'init' and cur.term[1] == lp:
                    res.append((q, ('seq', lp, 'pre')))
                else:
                    res.append((q, ('seq', lp, cur.term)))
            else:
                for q2, v in self.eval(e, q, ctx):
                    res.append((q2, ('seqval', v.term)))
        return res

    def exec_while(self, s, p, ctx):
        lctx = ('loop', show(s['c']), tuple(s['loc']))
        res = []
        outs = self._loop_body(s['body'], p, ctx, lctx)
        for qq, flow in outs:
            sub = qq.copy()
            sub.loopctx = qq.loopctx + (lctx,)
            for q3, cv in self.eval(s['c'], sub, ctx):
                q3.loopctx = qq.loopctx
                q3.effects.append(('loopcond', cv.term, lctx))
                res.append((q3, flow))
        return res

    # ------------------------------------------------------------------ assumptions
    def assume(self, p, cv, pol):
        """Add guard cv==pol to p; returns None when the interval domain refutes it."""
        t = cv.term
        if is_const(t):
            return p if bool(t[1]) == pol else None
        if cv.iv is not None:
            if cv.iv == (0, 0) and pol:
                return None
            if cv.iv[0] >= 1 and not pol:
                return None
        if isinstance(t, tuple) and t[0] == 'not':
            return self.assume(p, Val(t[1], None), not pol)
        if isinstance(t, tuple) and t[0] == 'and' and pol:
            q = self.assume(p, Val(t[1]), True)
            return self.assume(q, Val(t[2]), True) if q is not None else None
        if isinstance(t, tuple) and t[0] == 'or' and not pol:
            q = self.assume(p, Val(t[1]), False)
            return self.assume(q, Val(t[2]), False) if q is not None else None
        if isinstance(t, tuple) and t[0] == 'cmp' and t[1] == '!=':
            t, pol = ('cmp', '==', t[2], t[3]), not pol
        if (t, not pol) in p.guards:
            return None
        p.guards.append((t, pol))
        if isinstance(t, tuple) and t[0] == 'cmp':
            op, a, b = t[1], t[2], t[3]
            if not pol:
                op = {'<': '>=', '<=': '>', '>': '<=', '>=': '<', '==': '!=', '!=': '=='}[op]
            self._refine(p, op, a, b)
            self._refine(p, {'<': '>', '<=': '>=', '>': '<', '>=': '<=', '==': '==', '!=': '!='}[op], b, a)
        return p

    def _term_iv(self, p, t):
        if is_const(t):
            return (int(t[1]), int(t[1]))
        return p.refine.get(t)

    def _refine(self, p, op, a, b):
        """a op b holds; narrow a when b is a constant."""
        if not is_const(b):
            return
        k = int(b[1])
        cur = p.refine.get(a)
        if op == '<':
            new = (-2 ** 200, k - 1)
        elif op == '<=':
            new = (-2 ** 200, k)
        elif op == '>':
            new = (k + 1, 2 ** 200)
        elif op == '>=':
            new = (k, 2 ** 200)
        elif op == '==':
            new = (k, k)
        else:
            return
        p.refine[a] = iv_meet(cur, new)
        # locals whose current value is this term
        for d, v in list(p.env.items()):
            if v.term == a and v.iv is not None:
                p.env[d] = Val(v.term, iv_meet(v.iv, new), v.notes, v.struct)

    def apply_refine(self, p, v):
        r = p.refine.get(v.term)
        if r is None or v.iv is None:
            return v
        m = iv_meet(v.iv, r)
        if m[0] > m[1]:
            return v
        return Val(v.term, m, v.notes, v.struct)

    # ------------------------------------------------------------------ lvalues
    def eval_lvalue(self, e, p, ctx):
        """Returns list of (path, lpath-or-None)."""
        e = strip_copies(e)
        k = e.get('k')
        if k == 'this':
            return [(p, ctx['this'])]
        if k == 'ref':
            dk = e.get('dk')
            if dk in ('var', 'param', 'binding'):
                v = p.env.get(e['d'])
                if v is not None and isinstance(v.term, tuple) and v.term[0] == 'refto':
                    return [(p, v.term[1])]
                return [(p, (('var', e['d'], e['name']),))]
            if dk == 'global':
                return [(p, (('global', e['q']),))]
            return [(p, None)]
        if k == 'member' and e.get('mk') == 'field':
            res = []
            base = e['base']
            if e.get('arrow') and base.get('k') != 'this':
                # pointer deref: value of pointer
                for q, v in self.eval(base, p, ctx):
                    if isinstance(v.term, tuple) and v.term[0] == 'ptrto':
                        res.append((q, v.term[1] + (('f', e['name']),)))
                    elif isinstance(v.term, tuple) and v.term[0] == 'init':
                        res.append((q, v.term[1] + (('deref',), ('f', e['name']))))
                    else:
                        res.append((q, (('deref_of', v.term), ('f', e['name']))))
                return res
            for q, lp in self.eval_lvalue(base, p, ctx):
                if lp is None:
                    res.append((q, None))
                else:
                    res.append((q, lp + (('f', e['name']),)))
            return res
        if k == 'call':
            return self.eval_call_lvalue(e, p, ctx)
        if k == 'un' and e['op'] == '*':
            res = []
            for q, v in self.eval(e['e'], p, ctx):
                res.append((q, self._deref(v)))
            return res
        if k == 'index':
            res = []
            for q, lp in self.eval_lvalue(e['base'], p, ctx):
                for q2, iv in self.eval(e['idx'], q, ctx):
                    res.append((q2, lp + (('idx', iv.term),) if lp else None))
            return res
        if k == 'cast':
            return self.eval_lvalue(e['e'], p, ctx)
        return [(p, None)]

    def _deref(self, v):
        t = v.term
        if isinstance(t, tuple):
            if t[0] == 'ptrto':
                return t[1]
            if t[0] == 'vit':      # vector iterator ('vit', lp, 'end'|'begin', offset)
                _, lp, anchor, off = t
                if anchor == 'end' and is_const(off) and off[1] < 0:
                    return lp + (('top', -off[1] - 1),)
                if anchor == 'begin':
                    return lp + (('idx', off),)
                if anchor == 'rbegin' and is_const(off) and off[1] >= 0:
                    return lp + (('top', off[1]),)
            if t[0] == 'find':
                return t[1] + (('mappair', t[2]),)
        return None

    def eval_call_lvalue(self, e, p, ctx):
        """Calls that yield references into modelled containers."""
        callee = e.get('callee') or ''
        short = callee.split('::')[-1]
        obj = e.get('obj')
        if obj is not None and (obj.get('cty') or '').replace('const ', '').startswith(('std::vector<', 'std::map<', 'std::set<', 'std::__cxx11::basic_string', 'std::basic_string')):
            octy = obj['cty'].replace('const ', '')
            res = []
            for q, olp in self.eval_lvalue(obj, p, ctx):
                if olp is None:
                    res.append((q, None))
                    continue
                if octy.startswith('std::vector<'):
                    if short == 'back' and not e['args']:
                        res.append((q, olp + (('top', 0),)))
                        continue
                    if short in ('operator[]', 'at') and len(e['args']) == 1:
                        for q2, iv in self.eval(e['args'][0], q, ctx):
                            res.append((q2, self._vec_index_lp(q2, olp, iv)))
                        continue
                    if short == 'front' and not e['args']:
                        res.append((q, olp + (('idx', C(0)),)))
                        continue
                if octy.startswith('std::map<') and short in ('operator[]', 'at') and len(e['args']) == 1:
                    for q2, kv in self.eval(e['args'][0], q, ctx):
                        if short == 'operator[]':
                            q2.effects.append(('map_subscript', olp, kv.term, tuple(e.get('loc', ()))))
                        res.append((q2, olp + (('key', kv.term),)))
                    continue
                res.append((q, None))
            return res
        if e.get('ck') == 'operator' and e.get('op') == '*' and obj is not None and not e['args']:
            res = []
            for q, v in self.eval(obj, p, ctx):
                res.append((q, self._deref(v)))
            return res
        if (e.get('cty') or '').rstrip().endswith('&') or True:
            target = self.find_target(e) if (e.get('callee_in_repo') or e.get('callee_lambda_id')) else None
            if target is not None and target['ret_c'].rstrip().endswith('&') and ctx['depth'] < self.MAX_DEPTH and (e.get('callee') or '') not in self.no_inline:
                is_lambda = target['kind'] == 'lambda'
                this_lp = ctx['this'] if (is_lambda or (obj is not None and obj.get('k') == 'this')) else None
                if obj is not None and this_lp is None and not is_lambda:
                    lps = self.eval_lvalue(obj, p, ctx)
                    this_lp = lps[0][1] if len(lps) == 1 else None
                res = []
                for q, args in self.eval_args_for(target, e, p, ctx):
                    for q2 in self.run(target, this_lp=this_lp or (('nothis',),), args=args, path=q, depth=ctx['depth'] + 1,
                                       share_env=is_lambda, want_lvalue=True):
                        rv = q2.ret
                        q2.ret = None
                        q2.returned = False
                        lp = rv.term[1] if rv is not None and isinstance(rv.term, tuple) and rv.term[0] == 'refto' else None
                        res.append((q2, lp))
                return res
        if e.get('ck') == 'operator' and e.get('op') == '->' and obj is not None:
            res = []
            for q, v in self.eval(obj, p, ctx):
                res.append((q, self._deref(v)))
            return res
        return [(p, None)]

    def _vec_index_lp(self, p, olp, iv):
        # v[v.size() - k]  ==  k-th from the top
        t = iv.term
        c, atoms = lin_parts(t)
        if len(atoms) == 1:
            (a, k), = atoms.items()
            if k == 1 and isinstance(a, tuple) and a[0] == 'size' and a[1] == olp and c < 0:
                vs = p.vecstate(olp)
                if a[2] == vs.epoch():
                    return olp + (('top', -c - 1),)
        return olp + (('idx', t),)

    # resolve ('top', k) on a modelled vector to a stable position
    def _norm_lp(self, p, lp):
        out = ()
        for c in lp:
            if c[0] == 'top':
                vs = p.vecstate(out)
                k = c[1]
                if vs.lost:
                    out = out + (('lost_top', k, vs.epoch()),)
                elif k < len(vs.pushed):
                    out = out + (('new', len(vs.pushed) - 1 - k, id(vs.pushed[len(vs.pushed) - 1 - k])),)
                else:
                    out = out + (('top0', k - len(vs.pushed) + vs.popped),)
            else:
                out = out + (c,)
        return out

    def read_lp(self, p, lp, e=None):
        """Current value stored at lpath."""
        lp = self._norm_lp(p, lp)
        # pushed element?
        for i, c in enumerate(lp):
            if c[0] == 'new':
                vs = p.vecstate(lp[:i])
                val = vs.pushed[c[1]]
                rest = lp[i + 1:]
                full = lp
                if full in p.heap:
                    return p.heap[full]
                for r in rest:
                    if r[0] == 'f' and val.struct and r[1] in val.struct:
                        val = val.struct[r[1]]
                    else:
                        return Val(('fieldof', val.term, rest), None)
                return val
        if lp in p.heap:
            return p.heap[lp]
        # whole-struct assignment earlier?
        for n in range(len(lp) - 1, 0, -1):
            pre = lp[:n]
            if pre in p.heap:
                val = p.heap[pre]
                rest = lp[n:]
                ok = True
                for r in rest:
                    if r[0] == 'f' and val.struct and r[1] in val.struct:
                        val = val.struct[r[1]]
                    elif r[0] == 'f' and isinstance(val.term, tuple) and val.term[0] == 'init':
                        val = self._init_val(p, val.term[1] + (r,), e)
                    else:
                        ok = False
                        break
                if ok:
                    return val
                return Val(('fieldof', p.heap[pre].term, rest), None)
        # local struct variable holding a value
        if lp and lp[0][0] == 'var':
            v = p.env.get(lp[0][1])
            if v is not None:
                val = v
                for r in lp[1:]:
                    if r[0] == 'f' and val.struct and r[1] in val.struct:
                        val = val.struct[r[1]]
                    elif isinstance(val.term, tuple) and val.term[0] == 'init':
                        val = self._init_val(p, val.term[1] + (r,), e)
                    elif isinstance(val.term, tuple) and val.term[0] in ('each', 'mapval', 'mappair', 'elemval'):
                        val = Val(('fld', val.term, r), None)
                    else:
                        val = Val(('fld', val.term, r), None)
                return val
        # partial overwrite below this path?
        for k2 in p.heap:
            if len(k2) > len(lp) and k2[:len(lp)] == lp:
                return Val(('partial', lp), None, (('partially-overwritten', lp_show(lp)),))
        # vector element load
        for i, c in enumerate(lp):
            if c[0] == 'idx':
                vlp = lp[:i]
                vs = p.vec.get(vlp)
                if vs is not None and vs.ops:
                    # stored earlier on this path under the same index?
                    for op in reversed(vs.ops):
                        if op[0] == 'store' and op[1].term == c[1] and i == len(lp) - 1:
                            return op[2]
                        if op[0] != 'store':
                            break
                    return self._elem_val(p, vlp, c[1], vs.epoch(), lp[i + 1:], e)
                if i == len(lp) - 1 or True:
                    return self._elem_val(p, vlp, c[1], 0, lp[i + 1:], e)
        return self._init_val(p, lp, e)

    def _elem_val(self, p, vlp, idx_term, epoch, rest, e):
        if not rest:
            name = vlp[-1][1] if vlp and vlp[-1][0] == 'f' else None
            rng = self.vec_elem_ranges.get(name)
            if rng is None and e is not None:
                rng = type_range(e.get('cty'))
            if rng is None:
                # aggregate element: address it as a location (fields are read from it later)
                return self._init_val(p, vlp + (('idx', idx_term),), e)
            return Val(('ld', vlp, idx_term, epoch), rng)
        return self._init_val(p, vlp + (('idx', idx_term),) + tuple(rest), e)

    def _init_val(self, p, lp, e):
        rng = None
        last = lp[-1]
        if last[0] == 'f':
            rng = self.init_ranges.get(last[1])
        if rng is None and e is not None:
            rng = type_range(e.get('cty'))
        t = ('init', lp)
        hook = getattr(self, 'init_hook', None)
        if hook:
            r = hook(lp)
            if r is not None:
                return r
        return self.apply_refine(p, Val(t, rng))

    def write_lp(self, p, lp, val, e, ctx):
        lp = self._norm_lp(p, lp)
        # element store into a vector
        for i, c in enumerate(lp):
            if c[0] == 'idx' and i == len(lp) - 1:
                vlp = lp[:i]
                vs = p.vecstate(vlp)
                vs.ops.append(('store', Val(c[1]), val, p.loopctx))
                p.effects.append(('store', vlp, c[1], val, p.loopctx, tuple(e.get('loc', ())) if e else ()))
                return
        # drop stale sub-field entries
        for k2 in list(p.heap):
            if len(k2) > len(lp) and k2[:len(lp)] == lp:
                del p.heap[k2]
        p.heap[lp] = val
        if lp and lp[0][0] == 'var' and len(lp) == 1:
            p.env[lp[0][1]] = val
            return
        p.effects.append(('write', lp, val, p.loopctx, tuple(e.get('loc', ())) if e else ()))

    # ------------------------------------------------------------------ expressions
    def coerce(self, v, cty, e):
        """Implicit conversion to an integer type at an initialisation/assignment."""
        rng = type_range(cty)
        if rng is None or v.iv is None:
            return v
        if v.iv[0] >= rng[0] and v.iv[1] <= rng[1]:
            return v
        return Val(v.term, rng, v.notes + (('narrowing', show(e), cty, v.iv),), v.struct)

    def eval(self, e, p, ctx):
        """Returns list of (path, Val)."""
        if e is None:
            return [(p, Val(('none',)))]
        k = e['k']
        m = getattr(self, 'ev_' + k, None)
        if m is None:
            return [(p, opaque(e, 'expression kind %s' % k))]
        return m(e, p, ctx)

    def ev_int(self, e, p, ctx):
        return [(p, Val(C(e['v']), (e['v'], e['v'])))]

    def ev_bool(self, e, p, ctx):
        return [(p, Val(C(1 if e['v'] else 0), (int(e['v']), int(e['v']))))]

    def ev_char(self, e, p, ctx):
        return [(p, Val(C(e['v']), (e['v'], e['v'])))]

    def ev_str(self, e, p, ctx):
        return [(p, Val(('str', e['v'])))]

    def ev_null(self, e, p, ctx):
        return [(p, Val(('null',)))]

    def ev_zeroinit(self, e, p, ctx):
        return [(p, Val(C(0), (0, 0)))]

    def ev_this(self, e, p, ctx):
        return [(p, Val(('ptrto', ctx['this'])))]

    def ev_lambda(self, e, p, ctx):
        return [(p, Val(('lambda', e['fn'])))]

    def ev_sizeof(self, e, p, ctx):
        if 'v' in e:
            return [(p, Val(C(e['v']), (e['v'], e['v'])))]
        return [(p, opaque(e))]

    def ev_ref(self, e, p, ctx):
        dk = e.get('dk')
        if dk == 'enumerator':
            return [(p, Val(('enum', e['q']), (e['v'], e['v'])))]
        if dk in ('var', 'param', 'binding'):
            v = p.env.get(e['d'])
            if v is None:
                return [(p, Val(('free', e['name'], e['d']), type_range(e['cty'])))]
            if isinstance(v.term, tuple) and v.term[0] == 'refto':
                return [(p, self.read_lp(p, v.term[1], e))]
            return [(p, self.apply_refine(p, v))]
        if dk == 'global':
            g = self.facts.globals.get(e['q'])
            if g is not None and g.get('const_value') is not None:
                return [(p, Val(C(g['const_value']), (g['const_value'], g['const_value'])))]
            if g is not None and g.get('const_str') is not None:
                return [(p, Val(('str', g['const_str'])))]
            return [(p, Val(('global', e['q']), type_range(e['cty'])))]
        if dk == 'func':
            return [(p, Val(('func', e['q'])))]
        return [(p, opaque(e))]

    def ev_member(self, e, p, ctx):
        if e.get('mk') != 'field':
            return [(p, Val(('method', e.get('q'))))]
        res = []
        for q, lp in self.eval_lvalue(e, p, ctx):
            if lp is not None:
                res.append((q, self.read_lp(q, lp, e)))
            else:
                # field of an rvalue
                for q2, bv in self.eval(e['base'], q, ctx):
                    if bv.struct and e['name'] in bv.struct:
                        res.append((q2, bv.struct[e['name']]))
                    else:
                        res.append((q2, Val(('fld', bv.term, ('f', e['name'])), type_range(e['cty']), bv.notes)))
        return res

    def ev_index(self, e, p, ctx):
        res = []
        for q, lp in self.eval_lvalue(e, p, ctx):
            res.append((q, self.read_lp(q, lp, e) if lp else opaque(e)))
        return res

    def ev_cast(self, e, p, ctx):
        res = []
        for q, v in self.eval(e['e'], p, ctx):
            ck = e.get('ck')
            if ck in ('IntegralCast', 'NoOp', 'LValueToRValue'):
                res.append((q, self.coerce(v, e['cty'], e)))
            elif ck == 'IntegralToBoolean':
                if v.iv is not None and v.iv[0] == v.iv[1]:
                    b = 1 if v.iv[0] != 0 else 0
                    res.append((q, Val(C(b), (b, b), v.notes)))
                else:
                    res.append((q, Val(('cmp', '!=', v.term, C(0)), (0, 1), v.notes)))
            elif ck in ('PointerToBoolean',):
                res.append((q, Val(('cmp', '!=', v.term, ('null',)), (0, 1), v.notes)))
            else:
                res.append((q, v))
        return res

    def ev_cond(self, e, p, ctx):
        res = []
        for q, cv in self.eval(e['c'], p, ctx):
            branches = []
            for br, pol in ((e['t'], True), (e['e'], False)):
                qq = self.assume(q.copy(), cv, pol)
                if qq is None:
                    continue
                outs = self.eval(br, qq, ctx)
                branches.append((pol, outs))
            if len(branches) == 1:
                for qq, v in branches[0][1]:
                    # keep the original guards (a ?: does not fork the path)
                    qq.guards = list(q.guards) + [g for g in qq.guards[len(q.guards):]]
                    res.append((qq, v))
                continue
            if len(branches) == 2 and len(branches[0][1]) == 1 and len(branches[1][1]) == 1:
                (_, [(qa, va)]), (_, [(qb, vb)]) = branches
                # effect-free branches: merge into one value
                if len(qa.effects) == len(q.effects) and len(qb.effects) == len(q.effects):
                    iv = iv_union(va.iv, vb.iv)
                    term = norm_ite(cv.term, va.term, vb.term)
                    notes = tuple(cv.notes) + tuple(va.notes) + tuple(vb.notes)
                    struct = None
                    if va.struct or vb.struct:
                        struct = None
                    res.append((q, Val(term, iv, notes, struct)))
                    continue
            for pol, outs in branches:
                res.extend(outs)
        return res

    def ev_un(self, e, p, ctx):
        op = e['op']
        if op in ('++', '--'):
            res = []
            for q, lp in self.eval_lvalue(e['e'], p, ctx):
                if lp is None:
                    q.effects.append(('unknown', 'increment of ' + show(e['e']), tuple(e['loc'])))
                    res.append((q, opaque(e)))
                    continue
                old = self.read_lp(q, lp, e['e'])
                new = self._arith('+' if op == '++' else '-', old, Val(C(1), (1, 1)), e['cty'], e)
                self.write_lp(q, lp, new, e, ctx)
                res.append((q, old if e.get('postfix') else new))
            return res
        res = []
        for q, v in self.eval(e['e'], p, ctx):
            if op == '!':
                if is_const(v.term):
                    b = 0 if v.term[1] else 1
                    res.append((q, Val(C(b), (b, b), v.notes)))
                elif isinstance(v.term, tuple) and v.term[0] == 'not':
                    res.append((q, Val(v.term[1], (0, 1), v.notes)))
                else:
                    res.append((q, Val(('not', v.term), (0, 1), v.notes)))
            elif op == '-':
                zero = Val(C(0), (0, 0))
                res.append((q, self._arith('-', zero, v, e['cty'], e)))
            elif op == '+':
                res.append((q, v))
            elif op == '&':
                lps = self.eval_lvalue(e['e'], q, ctx)
                if len(lps) == 1 and lps[0][1] is not None:
                    res.append((q, Val(('ptrto', lps[0][1]))))
                else:
                    res.append((q, opaque(e)))
            elif op == '*':
                lp = self._deref(v)
                res.append((q, self.read_lp(q, lp, e) if lp else opaque(e)))
            else:
                res.append((q, opaque(e, 'unary ' + op)))
        return res

    def _arith(self, op, a, b, cty, e):
        notes = tuple(a.notes) + tuple(n for n in b.notes if n not in a.notes)
        rng = type_range(cty)
        iv = None
        if a.iv is not None and b.iv is not None:
            if op == '+':
                iv = (a.iv[0] + b.iv[0], a.iv[1] + b.iv[1])
            elif op == '-':
                iv = (a.iv[0] - b.iv[1], a.iv[1] - b.iv[0])
            elif op == '*':
                c = [x * y for x in a.iv for y in b.iv]
                iv = (min(c), max(c))
            elif op == '/':
                if b.iv[0] > 0 or b.iv[1] < 0:
                    c = [int(x / y) for x in a.iv for y in b.iv]
                    iv = (min(c), max(c))
                else:
                    notes += (('div-by-zero-possible', show(e), tuple(e.get('loc', ()))),)
            elif op == '%':
                if b.iv[0] > 0:
                    iv = (min(0, a.iv[0]) if a.iv[0] < 0 else 0, b.iv[1] - 1)
                else:
                    notes += (('div-by-zero-possible', show(e), tuple(e.get('loc', ()))),)
        if op == '+':
            term = t_add(a.term, b.term, 1)
        elif op == '-':
            term = t_add(a.term, b.term, -1)
        else:
            term = ('op', op, a.term, b.term)
            if is_const(a.term) and is_const(b.term) and iv is not None and iv[0] == iv[1]:
                term = C(iv[0])
        if rng is not None:
            if iv is None:
                iv = rng
            elif iv[0] < rng[0] or iv[1] > rng[1]:
                base = (cty or '').replace('const ', '').strip()
                if base in SIGNED:
                    notes += (('overflow', show(e), tuple(e.get('loc', ())), base, iv),)
                else:
                    notes += (('wraps', show(e), tuple(e.get('loc', ())), base, iv),)
                iv = rng
        return Val(term, iv, notes)

    def ev_bin(self, e, p, ctx):
        op = e['op']
        res = []
        if op in ('&&', '||'):
            for q, a in self.eval(e['l'], p, ctx):
                for q2, b in self.eval(e['r'], q, ctx):
                    if is_const(a.term) and op == '&&':
                        res.append((q2, b if a.term[1] else a))
                    elif is_const(a.term) and op == '||':
                        res.append((q2, a if a.term[1] else b))
                    else:
                        res.append((q2, Val(('and' if op == '&&' else 'or', a.term, b.term), (0, 1),
                                            tuple(a.notes) + tuple(b.notes))))
            return res
        for q, a in self.eval(e['l'], p, ctx):
            for q2, b in self.eval(e['r'], q, ctx):
                if op in ('<', '<=', '>', '>=', '==', '!='):
                    res.append((q2, self._cmp(op, a, b)))
                elif op in ('+', '-', '*', '/', '%'):
                    res.append((q2, self._arith(op, a, b, e['cty'], e)))
                elif op == ',':
                    res.append((q2, b))
                else:
                    res.append((q2, Val(('op', op, a.term, b.term), type_range(e['cty']),
                                        tuple(a.notes) + tuple(b.notes))))
        return res

    def _cmp(self, op, a, b):
        notes = tuple(a.notes) + tuple(n for n in b.notes if n not in a.notes)
        if a.iv is not None and b.iv is not None:
            lo_a, hi_a = a.iv
            lo_b, hi_b = b.iv
            r = None
            if op == '<':
                r = True if hi_a < lo_b else (False if lo_a >= hi_b else None)
            elif op == '<=':
                r = True if hi_a <= lo_b else (False if lo_a > hi_b else None)
            elif op == '>':
                r = True if lo_a > hi_b else (False if hi_a <= lo_b else None)
            elif op == '>=':
                r = True if lo_a >= hi_b else (False if hi_a < lo_b else None)
            elif op == '==':
                r = True if (lo_a == hi_a == lo_b == hi_b) else (False if (hi_a < lo_b or hi_b < lo_a) else None)
            elif op == '!=':
                r = False if (lo_a == hi_a == lo_b == hi_b) else (True if (hi_a < lo_b or hi_b < lo_a) else None)
            if r is not None:
                return Val(C(1 if r else 0), (int(r), int(r)), notes)
        if a.term == b.term and op in ('==', '<=', '>='):
            return Val(C(1), (1, 1), notes)
        if a.term == b.term and op in ('!=', '<', '>'):
            return Val(C(0), (0, 0), notes)
        ta, tb = a.term, b.term
        if op in ('==', '!=') and any(isinstance(x, tuple) and x and x[0] in ('find', 'aend', 'abegin', 'vit') for x in (ta, tb)):
            t = ('iteq', ta, tb)
            return Val(t if op == '==' else ('not', t), (0, 1), notes)
        if op in ('==', '!=') and repr(ta) > repr(tb):
            ta, tb = tb, ta
        return Val(('cmp', op, ta, tb), (0, 1), notes)

    def ev_assign(self, e, p, ctx):
        op = e['op']
        res = []
        for q, rv in self.eval(e['r'], p, ctx):
            for q2, lp in self.eval_lvalue(e['l'], q, ctx):
                if lp is None:
                    q2.effects.append(('unknown', 'assignment to ' + show(e['l']), tuple(e['loc'])))
                    res.append((q2, rv))
                    continue
                if op == '=':
                    val = self.coerce(rv, e['l'].get('cty'), e)
                else:
                    old = self.read_lp(q2, lp, e['l'])
                    val = self._arith(op[:-1], old, rv, e.get('comp_ty') or e['cty'], e)
                    val = self.coerce(val, e['l'].get('cty'), e)
                self.write_lp(q2, lp, val, e, ctx)
                res.append((q2, val))
        return res

    def ev_init(self, e, p, ctx):
        cur = [(p, {})]
        for name, fe in e.get('fields') or []:
            nxt = []
            for q, d in cur:
                for q2, v in self.eval(fe, q, ctx):
                    d2 = dict(d)
                    d2[name] = v
                    nxt.append((q2, d2))
            cur = nxt
        if e.get('elems') is not None and not e.get('fields'):
            vals = []
            cur2 = [(p, [])]
            for fe in e['elems']:
                nxt = []
                for q, l in cur2:
                    for q2, v in self.eval(fe, q, ctx):
                        nxt.append((q2, l + [v]))
                cur2 = nxt
            scalar = (e.get('cty') or '').replace('const ', '') in ('int', 'unsigned int', 'long', 'unsigned long', 'long long', 'unsigned long long', 'short', 'unsigned short',
                                                                        'char', 'signed char', 'unsigned char', 'bool')
            if scalar and all(len(l) == 1 for q, l in cur2):
                return [(q, l[0]) for q, l in cur2]          # T{v} of a scalar type is v
            return [(q, Val(('list', tuple(v.term for v in l)), None)) for q, l in cur2]
        return [(q, Val(('struct', e.get('rec'), tuple(sorted((n, v.term) for n, v in d.items()))), None, (), d))
                for q, d in cur]

    def ev_construct(self, e, p, ctx):
        if e.get('copy_or_move') and len(e['args']) == 1:
            # copy of an lvalue: snapshot
            return self.eval(e['args'][0], p, ctx)
        rec = e.get('rec', '')
        if not e['args']:
            if rec.startswith(('std::vector<', 'std::map<', 'std::set<', 'std::initializer_list<')):
                return [(p, Val(('empty', rec.split('<')[0])))]
        if rec.startswith(('std::basic_string', 'std::__cxx11::basic_string')) and e['args']:
            if len(e['args']) == 1 or (len(e['args']) == 2 and 'allocator' in (e['args'][1].get('cty') or '')):
                return self.eval(e['args'][0], p, ctx)
        if not e.get('ctor_in_repo') and len(e['args']) == 1 and 'iterator' in rec.lower():
            return self.eval(e['args'][0], p, ctx)
        if e.get('ctor_in_repo'):
            cands = self.facts.by_sig.get(e['ctor'], [])
            cands = [c for c in cands if c['tmpl'] in ('none', 'inst')]
            if len(cands) == 1 and ctx['depth'] < self.MAX_DEPTH:
                # evaluate args, then run the constructor on a temporary object
                cur = [(p, [])]
                for a in e['args']:
                    nxt = []
                    for q, l in cur:
                        for q2, v in self.eval(a, q, ctx):
                            nxt.append((q2, l + [v]))
                    cur = nxt
                res = []
                for q, args in cur:
                    tmp = (('tmp', next(self.tmp_counter)),)
                    outs = self.run(cands[0], this_lp=tmp, args=args, path=q, depth=ctx['depth'] + 1)
                    for q2 in outs:
                        q2.returned = False
                        q2.ret = None
                        d = {}
                        for lp, v in list(q2.heap.items()):
                            if lp[:1] == tmp and len(lp) == 2:
                                d[lp[1][1]] = v
                                del q2.heap[lp]
                        q2.effects = [ef for ef in q2.effects if not (ef[0] == 'write' and ef[1][:1] == tmp)]
                        res.append((q2, Val(('struct', rec, tuple(sorted((n, v.term) for n, v in d.items()))),
                                            None, (), d)))
                return res
        # unknown constructor: evaluate args for effects
        cur = [(p, [])]
        for a in e['args']:
            nxt = []
            for q, l in cur:
                for q2, v in self.eval(a, q, ctx):
                    nxt.append((q2, l + [v]))
            cur = nxt
        return [(q, Val(('construct', rec, tuple(v.term for v in l)), None)) for q, l in cur]

    # ------------------------------------------------------------------ calls
    def eval_args(self, args, p, ctx):
        cur = [(p, [])]
        for a in args:
            nxt = []
            for q, l in cur:
                for q2, v in self.eval(a, q, ctx):
                    nxt.append((q2, l + [v]))
            cur = nxt
        return cur

    def eval_args_for(self, target, e, p, ctx):
        """like eval_args, but an argument bound to a (non-rvalue) reference parameter is passed as a reference to its lvalue"""
        cur = [(p, [])]
        for i, a in enumerate(e['args']):
            pty = (target['params'][i]['cty'] if i < len(target['params']) else '')
            byref = pty.rstrip().endswith('&') and not pty.rstrip().endswith('&&')
            nxt = []
            for q, l in cur:
                done = False
                if byref:
                    lps = self.eval_lvalue(a, q, ctx)
                    if len(lps) == 1 and lps[0][1] is not None:
                        nxt.append((lps[0][0], l + [Val(('refto', lps[0][1]))]))
                        done = True
                if not done:
                    for q2, v in self.eval(a, q, ctx):
                        nxt.append((q2, l + [v]))
            cur = nxt
        return cur

    def find_target(self, e):
        """the in-repo definition a call resolves to (functions, methods, lambdas)"""
        if e.get('callee_lambda_id'):
            c = [x for x in self.facts.by_q.get(e['callee_lambda_id'], []) if x['tmpl'] in ('none', 'inst')]
            return c[0] if len(c) >= 1 else None
        if not e.get('callee_in_repo'):
            return None
        c = [x for x in self.facts.by_sig.get(e.get('callee_sig'), []) if x['tmpl'] in ('none', 'inst')]
        return c[0] if len(c) == 1 else None

    def ev_call(self, e, p, ctx):
        callee = e.get('callee') or ''
        short = callee.split('::')[-1]
        obj = e.get('obj')
        # --- std algorithms on integers
        if callee in ('std::max', 'std::min') and len(e['args']) == 2:
            res = []
            for q, (a, b) in self.eval_args(e['args'], p, ctx):
                notes = tuple(a.notes) + tuple(b.notes)
                iv = None
                if a.iv is not None and b.iv is not None:
                    f = max if callee == 'std::max' else min
                    iv = (f(a.iv[0], b.iv[0]), f(a.iv[1], b.iv[1]))
                res.append((q, Val((short, a.term, b.term), iv, notes)))
            return res
        if callee == 'std::clamp' and len(e['args']) == 3:
            res = []
            for q, (v, lo, hi) in self.eval_args(e['args'], p, ctx):
                notes = tuple(v.notes) + tuple(lo.notes) + tuple(hi.notes)
                iv = None
                if v.iv and lo.iv and hi.iv:
                    iv = (min(max(v.iv[0], lo.iv[0]), hi.iv[0]), min(max(v.iv[1], lo.iv[1]), hi.iv[1]))
                res.append((q, Val(('clamp', v.term, lo.term, hi.term), iv, notes)))
            return res
        if callee in ('std::numeric_limits<int>::max', 'std::numeric_limits<int>::min',
                      'std::numeric_limits<long>::max', 'std::numeric_limits<long long>::max'):
            rng = type_range(e['cty'])
            if rng:
                v = rng[1] if callee.endswith('max') else rng[0]
                return [(p, Val(C(v), (v, v)))]
        if callee in ('std::abs', 'abs') and len(e['args']) == 1:
            res = []
            for q, (a,) in self.eval_args(e['args'], p, ctx):
                iv = None
                if a.iv:
                    c = [abs(a.iv[0]), abs(a.iv[1])]
                    iv = (0 if a.iv[0] <= 0 <= a.iv[1] else min(c), max(c))
                res.append((q, Val(('abs', a.term), iv, a.notes)))
            return res
        # --- std::fill_n(std::back_inserter(v), n, x): appends n copies of x (nothing when n <= 0)
        if callee.split('<')[0] == 'std::fill_n' and len(e['args']) == 3:
            from .facts import strip_casts as _sc, strip_copies as _sco
            it = _sco(_sc(e['args'][0]))
            if it is not None and it.get('k') == 'call' and (it.get('callee') or '').split('<')[0] == 'std::back_inserter' and it.get('args'):
                tgt = it['args'][0]
                if ((tgt.get('cty') or '').replace('const ', '')).startswith('std::vector<'):
                    res = []
                    for q, olp in self.eval_lvalue(tgt, p, ctx):
                        if olp is None:
                            q.effects.append(('unknown', 'fill_n on unmodelled object ' + show(e), tuple(e['loc'])))
                            res.append((q, opaque(e)))
                            continue
                        olp = self._norm_lp(q, olp)
                        for q2, args in self.eval_args(e['args'][1:], q, ctx):
                            vs = q2.vecstate(olp)
                            vs.ops.append(('append_n', args[0], args[1], q2.loopctx))
                            vs.lost = True
                            q2.effects.append(('vecop', olp, 'push', args[1], q2.loopctx + (('fill_n', show(e['args'][1])),), tuple(e.get('loc', ()))))
                            res.append((q2, opaque(e)))
                    return res
        # --- containers
        if obj is not None:
            octy = (obj.get('cty') or '').replace('const ', '')
            if octy.startswith('std::vector<'):
                return self.call_vector(e, p, ctx, short)
            if octy.startswith(('std::map<', 'std::set<')):
                return self.call_assoc(e, p, ctx, short)
            if '__normal_iterator' in octy or 'iterator' in octy.lower():
                r = self.call_iterator(e, p, ctx, short)
                if r is not None:
                    return r
        if e.get('ck') == 'operator' and obj is None and len(e['args']) == 2:
            a0 = e['args'][0]
            if 'iterator' in (a0.get('cty') or '').lower() and e['op'] in ('==', '!='):
                res = []
                for q, (a, b) in self.eval_args(e['args'], p, ctx):
                    t = ('iteq', a.term, b.term)
                    res.append((q, Val(t if e['op'] == '==' else ('not', t), (0, 1))))
                return res
            if e['op'] in ('==', '!='):
                res = []
                for q, (a, b) in self.eval_args(e['args'], p, ctx):
                    res.append((q, self._cmp(e['op'], Val(a.term), Val(b.term))))
                return res
        # --- assignment to a std::string object: a plain write of the new value
        if short == 'operator=' and obj is not None and len(e['args']) == 1 and \
                (obj.get('cty') or '').replace('const ', '').startswith(('std::basic_string', 'std::__cxx11::basic_string')):
            res = []
            for q, (v,) in self.eval_args(e['args'], p, ctx):
                for q2, lp in self.eval_lvalue(obj, q, ctx):
                    if lp is None:
                        q2.effects.append(('unknown', 'assignment to ' + show(obj), tuple(e.get('loc', ()))))
                    else:
                        self.write_lp(q2, lp, v, e, ctx)
                    res.append((q2, v))
            return res
        # --- functions, methods and lambdas defined in the repository: inlined
        if (e.get('callee_in_repo') or e.get('callee_lambda_id')) and ctx['depth'] < self.MAX_DEPTH and callee not in self.no_inline:
            target = self.find_target(e)
            if target is not None:
                is_lambda = target['kind'] == 'lambda'
                this_lp = None
                if is_lambda:
                    this_lp = ctx['this']
                elif obj is not None:
                    if obj.get('k') == 'this':
                        this_lp = ctx['this']
                    else:
                        lps = self.eval_lvalue(obj, p, ctx)
                        if len(lps) == 1:
                            this_lp = lps[0][1]
                if is_lambda or obj is None or this_lp is not None:
                    res = []
                    for q, args in self.eval_args_for(target, e, p, ctx):
                        q.effects.append(('inlined', callee, tuple(e.get('loc', ()))))
                        for q2 in self.run(target, this_lp=this_lp or (('nothis',),), args=args, path=q,
                                           depth=ctx['depth'] + 1, share_env=is_lambda):
                            rv = q2.ret if q2.ret is not None else Val(('void',))
                            q2.ret = None
                            q2.returned = False
                            if isinstance(rv.term, tuple) and rv.term[0] == 'refto':
                                rv = self.read_lp(q2, rv.term[1], e)
                            res.append((q2, rv))
                    return res
        # --- std::for_each(c.begin(), c.end(), [..](T x) { body }): the range-for over c it stands for
        if callee == 'std::for_each' and obj is None and len(e.get('args', [])) == 3:
            a0, a1, a2 = strip_casts(e['args'][0]), strip_casts(e['args'][1]), e['args'][2]
            lam = next((x for x in walk_expr(a2) if x.get('k') == 'lambda'), None)
            lf = None
            if lam is not None:
                c_ = [x for x in self.facts.by_q.get(lam.get('fn'), []) if x['tmpl'] in ('none', 'inst')]
                lf = c_[0] if c_ else None
            if lf is not None and len(lf.get('params', [])) == 1 and a0 is not None and a1 is not None and a0.get('k') == 'call' and a1.get('k') == 'call' and \
                    (a0.get('callee') or '').split('::')[-1] in ('begin', 'cbegin') and (a1.get('callee') or '').split('::')[-1] in ('end', 'cend') and \
                    a0.get('obj') is not None and a1.get('obj') is not None and show(a0['obj']) == show(a1['obj']) and \
                    not any(st_['k'] == 'return' for st_ in walk_stmts(lf['body'])):
                pv = lf['params'][0]
                loop = {'k': 'rangefor', 'loc': e.get('loc') or [0, 0], 'sid': None, 'range': a0['obj'], 'body': lf['body'],
                        'var': {'d': pv['d'], 'name': pv.get('name'), 'cty': pv.get('cty') or '', 'is_ref': '&' in (pv.get('cty') or '')}}
                res = []
                for q, flow in self.exec_rangefor(loop, p, ctx):
                    res.append((q, Val(('void',))))
                return res
        # --- std::move / std::forward / std::as_const: the value of the argument
        if callee in ('std::move', 'std::forward', 'std::as_const') and obj is None and len(e['args']) == 1:
            return self.eval(e['args'][0], p, ctx)
        # --- unknown call: record as an effect, result opaque
        res = []
        argl = list(e['args'])
        for q, args in self.eval_args(argl, p, ctx):
            olp = None
            if obj is not None:
                lps = self.eval_lvalue(obj, q, ctx)
                if len(lps) == 1:
                    olp = lps[0][1]
            q.effects.append(('call', callee or show(e), tuple(a.term for a in args), olp, q.loopctx,
                              tuple(e.get('loc', ())), bool(e.get('callee_in_repo')),
                              bool(e.get('method_const'))))
            rng = getattr(self, 'extern_ranges', {}).get(callee) or type_range(e.get('cty'))
            res.append((q, Val(('callret', callee or show(e), tuple(a.term for a in args),
                                tuple(e.get('loc', ()))), rng)))
        return res

    def call_vector(self, e, p, ctx, short):
        obj = e['obj']
        res = []
        for q, olp in self.eval_lvalue(obj, p, ctx):
            if olp is None:
                q.effects.append(('unknown', 'vector call on unmodelled object ' + show(e), tuple(e['loc'])))
                res.append((q, opaque(e)))
                continue
            olp = self._norm_lp(q, olp)
            loc = tuple(e.get('loc', ()))
            if short == 'size' or short == 'empty':
                vs = q.vecstate(olp)
                t = ('size', olp, vs.epoch())
                if short == 'size':
                    res.append((q, Val(t, (0, INT_MAX))))    # word/activation counts fit int (assumption)
                else:
                    res.append((q, Val(('cmp', '==', t, C(0)), (0, 1))))
                continue
            if short in ('back', 'front', 'operator[]', 'at'):
                for q2, lp in self.eval_call_lvalue(e, q, ctx):
                    res.append((q2, self.read_lp(q2, lp, e) if lp else opaque(e)))
                continue
            if short in ('end', 'begin', 'rbegin', 'cend', 'cbegin'):
                anchor = {'cend': 'end', 'cbegin': 'begin'}.get(short, short)
                res.append((q, Val(('vit', olp, anchor, C(0)))))
                continue
            if short in ('push_back', 'emplace_back'):
                for q2, args in self.eval_args(e['args'], q, ctx):
                    vs = q2.vecstate(olp)
                    v = args[0] if len(args) == 1 else Val(('emplace', tuple(a.term for a in args)))
                    vs.ops.append(('push', v, q2.loopctx))
                    vs.pushed.append(v)
                    q2.effects.append(('vecop', olp, 'push', v, q2.loopctx, loc))
                    res.append((q2, Val(('void',))))
                continue
            if short == 'pop_back':
                vs = q.vecstate(olp)
                top_lp = self._norm_lp(q, olp + (('top', 0),))
                vs.ops.append(('pop', top_lp, q.loopctx))
                if vs.pushed:
                    vs.pushed.pop()
                elif not vs.lost:
                    vs.popped += 1
                q.effects.append(('vecop', olp, 'pop', top_lp, q.loopctx, loc))
                res.append((q, Val(('void',))))
                continue
            if short == 'clear':
                vs = q.vecstate(olp)
                vs.ops.append(('clear', q.loopctx))
                vs.pushed = []
                vs.lost = True
                q.effects.append(('vecop', olp, 'clear', None, q.loopctx, loc))
                res.append((q, Val(('void',))))
                continue
            if short == 'resize':
                for q2, args in self.eval_args(e['args'], q, ctx):
                    vs = q2.vecstate(olp)
                    fill = args[1] if len(args) > 1 else Val(C(0), (0, 0))
                    vs.ops.append(('resize', args[0], fill, q2.loopctx))
                    vs.pushed = []
                    vs.lost = True
                    q2.effects.append(('vecop', olp, 'resize', (args[0], fill), q2.loopctx, loc))
                    res.append((q2, Val(('void',))))
                continue
            if short == 'insert' and len(e.get('args', [])) == 3:
                # v.insert(v.end(), n, x): n copies of x appended (the fill form; the iterator-range form has iterator arguments)
                handled = False
                for q2, args in self.eval_args(e['args'], q, ctx):
                    p0 = args[0].term
                    a1ty = (strip_casts(e['args'][1]).get('cty') or '')
                    if isinstance(p0, tuple) and p0[0] == 'vit' and p0[1] == olp and p0[2] == 'end' and p0[3] == C(0) and 'iterator' not in a1ty and '*' not in a1ty:
                        vs = q2.vecstate(olp)
                        vs.ops.append(('append_n', args[1], args[2], q2.loopctx))
                        vs.lost = True
                        q2.effects.append(('vecop', olp, 'push', args[2], q2.loopctx + (('fill_n', show(e['args'][1])),), loc))
                        res.append((q2, Val(('vit', olp, 'unknown', C(0)))))
                        handled = True
                    else:
                        vs = q2.vecstate(olp)
                        vs.ops.append(('unknown', short, q2.loopctx))
                        vs.lost = True
                        q2.effects.append(('vecop', olp, 'unknown:' + short, None, q2.loopctx, loc))
                        res.append((q2, opaque(e)))
                continue
            if short == 'erase':
                for q2, args in self.eval_args(e['args'], q, ctx):
                    vs = q2.vecstate(olp)
                    vs.ops.append(('erase', tuple(a.term for a in args), q2.loopctx))
                    vs.pushed = []
                    vs.lost = True
                    q2.effects.append(('vecop', olp, 'erase', tuple(a for a in args), q2.loopctx, loc))
                    res.append((q2, Val(('vit', olp, 'unknown', C(0)))))
                continue
            if short == 'operator=':
                for q2, args in self.eval_args(e['args'], q, ctx):
                    vs = q2.vecstate(olp)
                    vs.ops.append(('assign', args[0], q2.loopctx))
                    vs.pushed = []
                    vs.lost = True
                    q2.effects.append(('vecop', olp, 'assign', args[0], q2.loopctx, loc))
                    res.append((q2, Val(('void',))))
                continue
            if short in ('reserve', 'shrink_to_fit', 'capacity', 'data'):
                res.append((q, Val(('callret', short, (), loc), type_range(e.get('cty')))))
                continue
            vs = q.vecstate(olp)
            vs.ops.append(('unknown', short, q.loopctx))
            vs.lost = True
            q.effects.append(('vecop', olp, 'unknown:' + short, None, q.loopctx, loc))
            res.append((q, opaque(e)))
        return res

    def call_assoc(self, e, p, ctx, short):
        obj = e['obj']
        res = []
        for q, olp in self.eval_lvalue(obj, p, ctx):
            loc = tuple(e.get('loc', ()))
            if olp is None:
                q.effects.append(('unknown', 'container call on unmodelled object ' + show(e), loc))
                res.append((q, opaque(e)))
                continue
            if short == 'find' and len(e['args']) == 1:
                for q2, (kv,) in self.eval_args(e['args'], q, ctx):
                    res.append((q2, Val(('find', olp, kv.term))))
                continue
            if short in ('end', 'cend'):
                res.append((q, Val(('aend', olp))))
                continue
            if short in ('begin', 'cbegin'):
                res.append((q, Val(('abegin', olp))))
                continue
            if short in ('contains', 'count') and len(e['args']) == 1:
                for q2, (kv,) in self.eval_args(e['args'], q, ctx):
                    res.append((q2, Val(('contains', olp, kv.term), (0, 1))))
                continue
            if short in ('size', 'empty'):
                res.append((q, Val(('asize', olp) if short == 'size' else ('cmp', '==', ('asize', olp), C(0)),
                                   (0, INT_MAX) if short == 'size' else (0, 1))))
                continue
            if short in ('operator[]', 'at'):
                for q2, lp in self.eval_call_lvalue(e, q, ctx):
                    res.append((q2, self.read_lp(q2, lp, e) if lp else opaque(e)))
                continue
            if short in ('insert', 'emplace', 'erase', 'clear', 'operator=', 'insert_or_assign', 'swap',
                         'merge', 'extract', 'try_emplace', 'emplace_hint'):
                for q2, args in self.eval_args(e['args'], q, ctx):
                    if short == 'erase' and len(args) == 2 and args[0].term == ('abegin', olp) and args[1].term == ('aend', olp):
                        # erase(begin(), end()) empties the container
                        q2.effects.append(('assoc', olp, 'clear', (), q2.loopctx, loc))
                        self.write_lp_silent(q2, olp, Val(('empty', 'assoc')))
                        res.append((q2, Val(('void',))))
                        continue
                    q2.effects.append(('assoc', olp, short, tuple(a.term for a in args), q2.loopctx, loc))
                    if short in ('clear', 'operator='):
                        self.write_lp_silent(q2, olp, Val(('empty', 'assoc')) if short == 'clear' else args[0])
                    res.append((q2, Val(('void',))))
                continue
            q.effects.append(('assoc', olp, 'unknown:' + short, (), q.loopctx, loc))
            res.append((q, opaque(e)))
        return res

    def write_lp_silent(self, p, lp, val):
        p.heap[lp] = val

    def call_iterator(self, e, p, ctx, short):
        """operator-, operator+, operator*, operator-> on iterators."""
        if e.get('ck') != 'operator':
            return None
        op = e['op']
        obj = e['obj']
        if op in ('-', '+') and len(e['args']) == 1:
            res = []
            for q, it in self.eval(obj, p, ctx):
                for q2, (k,) in self.eval_args(e['args'], q, ctx):
                    t = it.term
                    if isinstance(t, tuple) and t[0] == 'vit':
                        res.append((q2, Val(('vit', t[1], t[2], t_add(t[3], k.term, 1 if op == '+' else -1)))))
                    else:
                        res.append((q2, Val(('itarith', op, t, k.term))))
            return res
        if op in ('*', '->') and not e['args']:
            res = []
            for q, it in self.eval(obj, p, ctx):
                lp = self._deref(it)
                if lp is None:
                    res.append((q, Val(('deref', it.term))))
                elif op == '->':
                    res.append((q, Val(('ptrto', lp))))
                else:
                    res.append((q, self.read_lp(q, lp, e)))
            return res
        if op in ('==', '!=') and len(e['args']) == 1:
            res = []
            for q, it in self.eval(obj, p, ctx):
                for q2, (o,) in self.eval_args(e['args'], q, ctx):
                    t = ('iteq', it.term, o.term)
                    res.append((q2, Val(t if op == '==' else ('not', t), (0, 1))))
            return res
        return None

    def ev_new(self, e, p, ctx):
        p.effects.append(('new', e.get('alloc_ty'), tuple(e.get('loc', ()))))
        return [(p, Val(('new', e.get('alloc_ty'), tuple(e.get('loc', ())))))]

    def ev_delete(self, e, p, ctx):
        res = []
        for q, v in self.eval(e['e'], p, ctx):
            q.effects.append(('delete', v.term, tuple(e.get('loc', ()))))
            res.append((q, Val(('void',))))
        return res
