"""Property -> rule set registry."""
import json
import os
import time

from .facts import VERIF, Facts, AnalysisBroken
from .report import Report

TRUSTED = ['clang 14 front end (AST, name/overload/template resolution)', 'tools/theo_facts.cc extractor',
           'engine/*.py rule engines', 'spec/ oracle files']


def _vm_model(rep, tier):
    from .vmfx import VMModel
    extra = ['VM/src/instr.cpp', 'VM/src/program.cpp'] if tier == 'thorough' else []
    m = VMModel(extra_units=extra)
    rep.note_facts(m.facts)
    return m


def c19(tier):
    from . import props_vm
    rep = Report('C19', tier,
                 'Effect summaries of every path through every method of VM / VM::Activation (abstract '
                 'interpretation of the statement trees, vectors modelled as operation sequences). Decides: data '
                 'grows only in PREPARE_EXEC by prepare.count zero words with the pushed activation recording '
                 '(old size, count); every pop of an activation is paired on the same path with shrinking data to '
                 'that activation\'s data_start; stack.clear is paired with data.clear. Together these give the '
                 'inductive invariant "data = concatenation of the live activations\' frames".',
                 assumptions=['activation records are only created by PREPARE_EXEC (checked: C19.F1 covers every push)',
                              'std::vector operations behave as specified'], trusted=TRUSTED)
    m = _vm_model(rep, tier)
    props_vm.c19(rep, m)
    return rep


def c20(tier):
    from . import props_vm
    rep = Report('C20', tier,
                 'Interval evaluation with C++ typing of every value stored into the VM data array (inductive '
                 'invariant: every word in [0, 2^31-1]); operand ranges are the generator ranges checked as '
                 'C20.A2/A3 over gen.cpp and macro.cpp (literal conversion sites must flow into a range test that '
                 'records an error).',
                 assumptions=['loads from data satisfy the invariant (induction hypothesis)',
                              'instruction operands are within the ranges in spec/isa.json, which C20.A2/A3 establish '
                              'for compiler output'], trusted=TRUSTED)
    m = _vm_model(rep, tier)
    props_vm.c20_vm(rep, m)
    try:
        from . import props_gen
        props_gen.c20_gen(rep, tier)
    except ImportError:
        pass
    return rep


def c17(tier):
    from . import props_vm
    rep = Report('C17', tier,
                 'Field-by-field comparison of the abstract final state of reset() with that of the constructor '
                 '(the field set is read from the record, so a new field is covered automatically); the program is '
                 'covered by the site-restoration summary of clearBreakpoints; HALT handler summary has no effects; '
                 'isDone and execute shapes.',
                 assumptions=['only site opcodes of the loaded program ever change (C05.a)'], trusted=TRUSTED)
    m = _vm_model(rep, tier)
    props_vm.c17(rep, m)
    return rep


def c05(tier):
    from . import props_vm
    rep = Report('C05', tier,
                 'Non-interference over the effect summaries of the VM: computation state (ip, data, activations, '
                 'program except site opcodes) is never written under control or data dependence on debugger state '
                 '(stepping flag, enabled set, BREAK-vs-POTENTIAL_BREAK at sites); debugger entry points do not '
                 'write computation state.',
                 assumptions=['callers use the public API; references handed out by getActivations/'
                              'getEnabledBreakPoints are not written through'], trusted=TRUSTED)
    m = _vm_model(rep, tier)
    props_vm.c05(rep, m)
    return rep


def c06(tier):
    from . import props_vm
    rep = Report('C06', tier,
                 'Return-value summaries per opcode handler (stop conditions), effect summaries of '
                 'setBreakPoint/clearBreakpoints (enabled set <-> site opcodes kept in lock-step), lookup key of '
                 'getCurrentBreak tied to the advance of the break handlers, ordering of BreakPoint keys.',
                 assumptions=['the site tables are consistent (C08)'], trusted=TRUSTED)
    m = _vm_model(rep, tier)
    props_vm.c06(rep, m)
    from . import props_macro
    props_macro.c06e(rep, tier)
    return rep


def c03(tier):
    from . import props_gen
    rep = Report('C03', tier,
                 'Generator invariants over gen.cpp, decided per construct (factory call sites, allocator calls, '
                 'label definitions, routine finishing) by dominance on the CFG, single-definition origin tracking and '
                 'a provenance lattice for register operands; VM frame roles from the handler effect summaries. Each '
                 'lemma holds for every program the generator can emit, so no emitted program is inspected.',
                 assumptions=['the syntax tree handed to gen() is error free (C04.d)',
                              'handlers meet their ISA contract (C01.a)'], trusted=TRUSTED)
    props_gen.c03(rep, tier)
    return rep


def c08(tier):
    from . import props_gen
    rep = Report('C08', tier,
                 'Pairing rules over the two breakpoint tables in gen.cpp: insertion uses one position expression and one '
                 'location for both tables and the emitted instruction; removal is exact (element-wise); who-may-write over '
                 'all generator functions; hidden-file constant agreement between gen.cpp and parse.cpp; locations are '
                 'copied pairwise from token positions. Inverse-ness of the tables for every compiled program follows by '
                 'induction over emissions.',
                 assumptions=['token positions are assigned by the scanner (C14.L6)'], trusted=TRUSTED)
    props_gen.c08(rep, tier)
    return rep


def c16(tier):
    from . import props_gen
    rep = Report('C16', tier,
                 'Who-may-write on the routine table plus dominance in dispatchProgram (registration after body and RET) give '
                 'an acyclic call graph for every accepted source; the LOOP lowering is checked as a dominance chain with a '
                 'private, unnameable, per-loop-unique counter that only the decrement writes. Halting of LOOP programs '
                 'follows by induction; it is not separately executed or simulated.',
                 assumptions=['identifiers cannot contain the characters used in the counter name (C14)'], trusted=TRUSTED)
    props_gen.c16(rep, tier)
    return rep


def c07(tier):
    from . import props_gen
    rep = Report('C07', tier,
                 'PARTIAL: decides the emission discipline that stepping traces depend on (sites only via advanceLine after '
                 'the location moved, advanceLine before any emission in both dispatchers, hidden file constant, labels '
                 'resolve to the site just emitted, header site removed, END marks kept, stack map = non-temporary registers). '
                 'The exact stop sequence of arbitrary programs is NOT decided.',
                 assumptions=['C08 (tables consistent)', 'C01.a (handlers)'], trusted=TRUSTED)
    props_gen.c07(rep, tier)
    return rep


def c02(tier):
    from . import props_c02
    rep = Report('C02', tier,
                 'PARTIAL: decides the structural clauses of totality - (a) allocation-site shape analysis of the syntax '
                 'tree with look-ahead-sensitive nullness in the parser and error-free shapes propagated through the '
                 'generator (every -> on a Node*), (b) cursor/index guards, (c) non-emptiness at back()/front()/[0], '
                 '(d) ownership pairing, (e) the result dichotomy, (f) well-formed error records. NOT decided: bounds on '
                 'recursion depth and work, bad_alloc, UB inside libstdc++/flex, the LR driver stack discipline.',
                 assumptions=['the token stream handed to the parser and to macro extraction ends in one EOF token (C14.S1)',
                              'gen() sees only error-free trees (checked: C02.e / C04.d)'], trusted=TRUSTED)
    props_c02.c02(rep, tier)
    return rep


def _macro(pid, tier, expl, fn, assumptions):
    from . import props_macro
    rep = Report(pid, tier, expl, assumptions=assumptions, trusted=TRUSTED)
    getattr(props_macro, fn)(rep, tier)
    return rep


def c09(tier):
    return _macro('C09', tier,
                  'PARTIAL: decides the structural clauses of expansion order and substitution - the tie-break comparator '
                  'evaluated on all 9 orderings of (start, length) and checked to be a strict weak order, priority bins visited '
                  'highest first, splice range/position from one match, the three cases of body instantiation, agreement of the '
                  'kind tables, leftmost scan per detector. NOT decided: that a detector matches exactly the derivations of its '
                  'pattern, nor longest-match within one macro (LR engine, see C13).', 'c09',
                  ['the LR engine recognises its grammar (C13, not claimed)'])


def c10(tier):
    return _macro('C10', tier,
                  'Dependency rule on the expression that renames a temporary: it must depend on the token text and the pass '
                  'counter and on no other per-token attribute; it contains a non-identifier character; the token becomes an ID; '
                  'the pass argument is the budget-loop counter and there is one instantiation per counted pass (C11.a).', 'c10',
                  ['identifiers match [a-zA-Z_][a-zA-Z0-9_]* (C14)'])


def c11(tier):
    return _macro('C11', tier,
                  'Loop-shape rules over apply_macros: every mutation of the token stream is inside `for (c = ..; c < passes; c++)` '
                  'with an unmodified counter and budget and at most one rewrite per iteration, so at most `passes` rewrites happen '
                  'for every input and every macro set; exhaustion is reported; parse() forwards the error and passes a positive '
                  'constant.', 'c11', ['each detector.detect() call terminates (LR driver consumes or reduces; not claimed)'])


def c12(tier):
    return _macro('C12', tier,
                  'PARTIAL: decides the plumbing of rejection - conflicts become one MACRO_COMPILE_NON_LR error at the first pattern '
                  'token, only conflict-free detectors reach the bins, error collection has no early exit, every parse-table write '
                  'is conflict-checked, prefix mode spreads end-marker items over every column, and the container keys of the LR '
                  'construction are discriminating strict weak orders. NOT decided: that conflict detection coincides with '
                  'prefix-determinism of the pattern.', 'c12', ['LR(1) construction is correct (C13, not claimed)'])


def c14(tier):
    from . import props_lex
    rep = Report('C14', tier,
                 'The scanner specification is compiled (in the checker) to a DFA with flex\'s disambiguation; totality, the keyword '
                 'table in both directions against spec/tokens.tsv, action/enum agreement and absence of shadowed rules are decided on '
                 'that automaton for ALL inputs. The committed lex.yy.c is tied to the specification by decoding its compressed tables '
                 'and checking automaton equivalence (product construction, rule numbers included), by the AST of every action in the '
                 'generated yylex, and by byte-identical regeneration with flex. CFG rules over scan() cover token identity, the final '
                 'EOF, scanner creation and whole-buffer scanning.',
                 assumptions=['flex\'s run-time skeleton implements the table semantics decoded here (match loop read from lex.yy.c)',
                              'byte 0 follows flex\'s separate NUL transition'], trusted=TRUSTED + ['flex 2.6.4 (regeneration step only)'])
    props_lex.c14(rep, tier)
    return rep


def c15(tier):
    from . import props_lex
    rep = Report('C15', tier,
                 'Guard/dominance rules over scan(): each error kind is recorded under exactly its condition with the right request, '
                 'a scanner is pushed only for an existing file that is not on the active stack (so depth <= number of files), every '
                 'iteration reads a token or pops; parse()/compile() return exactly the not-found names.',
                 assumptions=['each file is finite, so each scanner reaches its end'], trusted=TRUSTED)
    props_lex.c15(rep, tier)
    return rep


def c04(tier):
    from . import props_c04
    rep = Report('C04', tier,
                 'The parser is abstracted to a recogniser skeleton (look-ahead tests, match calls, grammar-function calls, error '
                 'pushes) and run as a generator: it enumerates exactly the token sequences up to N tokens that the real control flow '
                 'accepts without recording an error. This finite set must equal the reference grammar enumerated to the same bound '
                 '(quick N=9, thorough N=14); a differing sentence is the witness. Structural rules cover the mismatch error, trailing '
                 'input, error propagation and the four static rules of the generator. Keyword spellings belong to C14.',
                 assumptions=['bounded: sentences longer than N tokens are not compared (the grammar has no construct longer than 9 tokens, '
                              'so every production and every pair of adjacent productions is exercised)',
                              'sources without user macros, duplicate labels or duplicate parameter names (as the property states)'],
                 trusted=TRUSTED)
    props_c04.c04(rep, tier)
    return rep


def c18(tier):
    from . import props_c18
    rep = Report('C18', tier,
                 'Absence of shared mutable state and of nondeterminism sources, decided over every library unit (including the '
                 'generated scanner): inventory of static-storage objects with clang\'s ExprMutationAnalyzer verdict per reference, no '
                 'mutable static locals / thread_local, classification of every external callee (allow / deny / unknown = exit 2), no '
                 'pointer-keyed containers or address comparisons, reentrant scanner with per-call scanner objects, programs owned by '
                 'value, state objects local to one call. No shared mutable state and no nondeterministic source implies equal outputs '
                 'for equal inputs and race freedom of concurrent calls.',
                 assumptions=['malloc and libstdc++ are thread-safe', 'std::hash and container iteration are functions of the insertion history'],
                 trusted=TRUSTED + ['clang ExprMutationAnalyzer'])
    props_c18.c18(rep, tier)
    return rep


def c01(tier):
    from . import props_c01
    rep = Report('C01', tier,
                 'PARTIAL: decides the compositional ingredients of semantic correctness that are visible in the code - each of the 12 '
                 'opcode handlers meets its ISA contract (effect summaries vs spec/isa.json), opcode exhaustiveness and progress, '
                 'encoder/decoder agreement on the instruction union, node-kind exhaustiveness of the dispatchers, lowering order '
                 'obligations of every construct as dominance chains with operand identity, no use of a temporary after release, zeroed '
                 'frames. It does NOT decide end-to-end equality of final variable values for all programs, general liveness of register '
                 'allocation, or the step-budget sentence.',
                 assumptions=['spec/isa.json is the intended instruction semantics (transcribed from instr.hpp and the property text)'],
                 trusted=TRUSTED)
    props_c01.c01(rep, tier)
    return rep


def _sibling(fn, pid, tier):
    """evaluate a sibling property's rules into a scratch report (not written anywhere)"""
    return fn(tier)


def with_shared(base_fn, shares):
    """shares: list of (sibling check function, {sibling rule id: new id}, reason)"""
    def run_(tier):
        try:
            rep = base_fn(tier)
        except AnalysisBroken as ex:
            # the property's own engines lost an anchor: its own rules are undecided (exit 2 unless something else is found), but the
            # necessary conditions it shares with siblings are still evaluated - a violation of one of them is a violation of this property
            pid_ = next(iter(shares[0][1].values())).split('.')[0]
            rep = Report(pid_, tier, 'own analysis broken: %s' % ex, assumptions=[], trusted=TRUSTED)
            rep.rule(pid_ + '.own', 'the rules of this property itself', floor=0).unknown('own analysis', str(ex))
        for sib, mapping, why in shares:
            try:
                other = sib(tier)
            except AnalysisBroken as ex:
                # the sibling lost an anchor: its shared rules are undecided, the property's own rules keep their verdicts
                for old_id, new_id in mapping.items():
                    rep.rule(new_id, '[shared with %s: %s]' % (old_id, why), floor=0).unknown('shared rule', 'sibling analysis broken: %s' % ex)
                continue
            rep.adopt(other, mapping, why)
        return rep
    return run_


_c01, _c02, _c03, _c04, _c05, _c06, _c07, _c08, _c16 = c01, c02, c03, c04, c05, c06, c07, c08, c16
c03 = with_shared(_c03, [(_c16, {'C16.O1': 'C03.j'}, 'a routine record is complete (final frame size, argument count, stack map) whenever a call can read it: records are written only when a routine is finished'),
                         (c19, {'C19.F1': 'C03.n'}, 'the frame a call gets has the size its PREPARE declares: the machine appends exactly prepare.count words, so every register operand of the routine lies inside its frame'),
                         (_c02, {'C02.k': 'C03.m'}, 'the generator keeps its tables without undefined behaviour: no reference into a container is used after the element was removed'),
                         (_c08, {'C08.a': 'C03.l', 'C08.b': 'C03.l2'}, 'the debugger rewrites the opcode at every site listed for a location: the listed sites are exactly the marker instructions, so no jump, call or return of the program is ever turned into a marker'),
                         (_c04, {'C04.e': 'C03.k'}, 'marks are resolved within the routine that uses them and a jump to a mark that routine does not define is rejected, so every jump lands inside its own routine'),
                         (c18, {'C18.P2': 'C03.o'}, 'the callee record a call sequence uses is the one looked up in this compilation: the generator keeps no mutable state (memoised callee, last entry address) between calls')])
c01 = with_shared(_c01, [(c14, {'C14.S4': 'C01.r'}, 'every include of a file pastes the text of that file: the file table is only read by the scanner - content is neither rewritten nor moved out of it'),
                         (_c03, {'C03.f': 'C01.h'}, 'a call binds the record of the routine registered under that name; the latest definition is registered by assignment'),
                         (_c04, {'C04.e': 'C01.k'}, 'a GOTO / IF..GOTO jumps to the mark of that name in its own program: marks are kept per routine and a mark the routine does not define is rejected'),
                         (c17, {'C17.Z1': 'C01.j'}, 'a reset machine is in the constructor state, so a run after reset() computes what the first run computes'),
                         (c10, {'C10.a': 'C01.i', 'C10.d': 'C01.i2'}, 'macro temporaries of different expansions never coincide, so expansion preserves the meaning of nested macro uses'),
                         (c07, {'C07.h': 'C01.m'}, 'the value of a user-named variable of a live activation is the word at that activation\'s own data_start + register: the view through which "every user-named variable of every live activation" is read'),
                         (c20, {'C20.A1': 'C01.n'}, 'x+c and truncated x-c are computed in a wider type and saturate: no signed overflow in the machine\'s arithmetic'),
                         (c15, {'C15.I4': 'C01.p'}, 'a source split over included files means the text with every include directive replaced by the named file: no directive is dropped'),
                         (c18, {'C18.P2': 'C01.q'}, 'a compilation depends on its input only: no function of the compiler keeps detectors, tables or names from an earlier call'),
                         (_c08, {'C08.a': 'C01.o'}, 'arming a line rewrites marker instructions only: the sites listed for a line are the positions of its POTENTIAL_BREAKs, so no instruction of the program is overwritten'),
                         (c09, {'C09.a': 'C01.l3', 'C09.b': 'C01.l4', 'C09.d': 'C01.l5'}, 'which macro use is rewritten (highest priority, then leftmost, then longest) and where its body is spliced in is part of what a source with macros means'),
                         (c09, {'C09.e': 'C01.l', 'C09.f': 'C01.l2'}, 'a macro use means its body with every $n replaced by what slot n matched, and a literal of the pattern matches by kind and (identifiers, integers, operators) by text: otherwise a program using macros computes something else')])
c02 = with_shared(_c02, [(c14, {'C14.L7': 'C02.s', 'C14.L1': 'C02.s2'}, 'the scanner that runs is the generated one: rule actions only return a token, they do not read the input themselves (no hand-written loop over yyinput that can run past the buffer)'),
                         (c15, {'C15.I4': 'C02.g', 'C15.I6': 'C02.g2'}, 'scanning terminates: no hang on include cycles'),
                         (c20, {'C20.A3': 'C02.h', 'C20.A2': 'C02.h2'}, 'no undefined arithmetic inside compile() and no conversion that throws out of it'),
                         (c09, {'C09.e': 'C02.n'}, 'every insertion index that survives extraction is a valid slot index: get_replacement never indexes out of bounds'),
                         (c08, {'C08.e': 'C02.o', 'C08.h': 'C02.o2'}, 'positions carried by tree nodes and tokens are (file, line) pairs of one token, so an error reported there names a line inside a supplied file'),
                         (c11, {'C11.a': 'C02.i'}, 'macro expansion does work bounded by the pass budget: at most `passes` rewrites'),
                         (c12, {'C12.a': 'C02.j', 'C12.f': 'C02.j2'}, 'the conflict error of a definition is located at that definition\'s own first pattern token, a position in a supplied file')])
c04 = with_shared(_c04, [(c09, {'C09.g': 'C04.l'}, 'the built-in id+int / id-int sugar is applied wherever it occurs: every start position of the text is tried'),
                         (c14, {'C14.L7': 'C04.n'}, 'the scanner that is compiled in is the one the specification describes: the committed tables accept exactly the documented spellings of every keyword'),
                         (c11, {'C11.a': 'C04.m'}, 'a source with fewer sugar uses than the pass budget is expanded completely: the budget loop makes exactly budget passes'),
                         (c20, {'C20.A2': 'C04.f', 'C20.A3': 'C04.f2'}, 'every literal that reaches an instruction is range-checked'),
                         (c14, {'C14.L2': 'C04.g'}, 'the terminals have their documented lexical form'),
                         (_c16, {'C16.O1': 'C04.j'}, 'a RUN of a name that is not defined earlier is rejected: the routine table is read only where the name was found, never through an inserting subscript that makes the name known'),
                         (_c03, {'C03.g': 'C04.k'}, 'every jump target is a label of the same program body: a mark that is never set is reported, which needs createLabel\'s "not set" value to be the one the tests compare with'),
                         (_c03, {'C03.f': 'C04.h'}, 'the argument-count rule is checked against the record of the latest definition of the called name'),
                         (_c02, {'C02.e': 'C04.i'}, 'a source is accepted only if no stage recorded an error: correctness is decided after all stage errors were merged'),
                         (c18, {'C18.P2': 'C04.o'}, 'whether a source is accepted depends on that source alone: no stage keeps mutable state between calls (an error that is "reported once" through a static set is missing when the same source is compiled again in the same process)')])
c05 = with_shared(_c05, [(c18, {'C18.P6': 'C05.i'}, 'arming a line rewrites opcodes in the machine\'s own copy of the program: another machine, or the caller\'s program, never sees a BREAK it did not ask for'),
                         (_c06, {'C06.b': 'C05.h'}, 'the enabled set names every armed site, so that clearing and resetting disarm all of them: an armed site that nobody lists stops a run that was asked to run through'),
                         (c08, {'C08.a': 'C05.f', 'C08.b': 'C05.f2', 'C08.c': 'C05.f3'}, 'the sites the VM rewrites are exactly the POTENTIAL_BREAK instructions the generator listed'),
                         (c17, {'C17.Z1': 'C05.g', 'C17.Z2': 'C05.g2'}, 'reset() disarms every site it forgets: a run after reset() with nothing enabled is the uninterrupted run')])
c06 = with_shared(_c06, [(_c08, {'C08.c': 'C06.j'}, 'the location reported at a stop comes from a table that only the compiler\'s site bookkeeping writes: listing or querying a program adds no entries'),
                         (_c05, {'C05.a': 'C06.l'}, 'a request only rewrites opcodes at the sites of the location it names and never adds to the table of locations'),
                         (c18, {'C18.P2': 'C06.k'}, 'the locations listed as available are those of this program: no accessor accumulates results across calls or programs'),
                         (c18, {'C18.P6': 'C06.i'}, 'a machine stops only at lines enabled on this machine: the program whose opcodes it rewrites is its own copy'),
                         (_c05, {'C05.d': 'C06.h'}, 'resuming is a loop of single steps that returns at the first step that reports a stop, and not before'),
                         (_c05, {'C05.b': 'C06.f'}, 'break handlers advance by exactly one instruction, so no site is skipped and the location lookup finds the site just passed'),
                         (_c08, {'C08.a': 'C06.g', 'C08.b': 'C06.g2'}, 'the site armed for a location is the marker emitted for that location and line_info names the same location for it, so a stop is reported at the line that was enabled')])
c07 = with_shared(_c07, [(_c06, {'C06.m': 'C07.v'}, 'stepping a copy of a machine steps like the original: hand-written copy operations of VM transfer the stepping flag and every other field'),
                         (c14, {'C14.S4': 'C07.u'}, 'the line reported at a stop is the line of the statement in the file as supplied: the scanner reads the content unmodified'),
                         (c18, {'C18.P2': 'C07.q'}, 'a variable view shows this activation only: the accessor keeps nothing from an earlier call'),
                         (_c04, {'C04.e': 'C07.s'}, 'the lines a run visits are those of its own routine: marks are kept per routine (a fresh table for every routine), so a jump never lands in another program'),
                         (_c08, {'C08.c': 'C07.t'}, 'the location reported at a stop is a line of the program: listing or querying a program adds no entries to the site table'),
                         (_c05, {'C05.d': 'C07.r'}, 'execute() only drives executeSingle(): stepping by executeSingle() and resuming by execute() go through the same code, neither keeps state of its own (caches, counters) that the other would have to invalidate'),
                         (_c01, {'C01.f': 'C07.p'}, 'a user variable has a register of its own and is listed: no temporary is registered under a name a user variable can have, none is used after its release'),
                         (_c03, {'C03.e': 'C07.n'}, 'every parameter has a register (and stack-map entry) of its own, so the view shows each variable with its own value'),
                         (c17, {'C17.Z1': 'C07.l'}, 'after a reset no activation of the earlier run is left: the view lists the activations of this run only'),
                         (_c06, {'C06.d': 'C07.m'}, 'the line reported at a stop is the line of the site that was just passed'),
                         (c20, {'C20.A1': 'C07.o'}, 'the values the view shows are the source-level values: x+c and x-c are computed without signed overflow and saturate'),
                         (c08, {'C08.a': 'C07.i'}, 'a site is created (and listed) on every call of breakpoint()'),
                         (_c03, {'C03.f': 'C07.j'}, 'a call enters the routine of the latest definition under that name, so the lines visited and the variables listed are those of the routine the source calls')])
c08 = with_shared(_c08, [(_c06, {'C06.b': 'C08.f', 'C06.c': 'C08.f2', 'C06.e': 'C08.g'}, 'the VM never adds a location: enable/clear only touch listed locations; locations are keyed by an order that keeps distinct (file, line) pairs apart'),
                         (c14, {'C14.S9': 'C08.j'}, 'a location is (file, line) of a token as the scanner saw it: the records that carry them to the generator store what they are given'),
                         (_c05, {'C05.a': 'C08.f3'}, 'the VM writes only opcodes at listed sites'),
                         (c14, {'C14.S4': 'C08.h'}, 'a location is a line of the file as it was supplied: the scanner reads the content unmodified (rewriting line ends before scanning shifts every line number)')])
c16 = with_shared(_c16, [(_c05, {'C05.b': 'C16.O7'}, 'every instruction, a breakpoint marker included, advances the machine: a halting program also halts when it is stepped'),
                         (_c01, {'C01.a': 'C16.O11'}, 'the LOOP counter is counted down by ADD_CONST with constant -1: the handler computes max(0, min(INT_MAX, source + constant)) for every source value, INT_MAX included'),
                         (c17, {'C17.Z3': 'C16.O8'}, 'the end of the program is recognised as "the opcode at ip is HALT": a driver that runs until isDone() ends exactly when the program halted'),
                         (_c08, {'C08.a': 'C16.O9'}, 'arming a line rewrites only marker instructions: the counter initialisation of a LOOP is never overwritten, so the number of iterations is the bound at entry'),
                         (c17, {'C17.Z1': 'C16.O4', 'C17.Z4': 'C16.O10'}, 'a reset machine has no activations, so the activation bound also holds across resets; the end of the program is absorbing - '
                               'execute() only drives executeSingle() and writes no machine state itself, so a finished machine is not started again on top of its old activations'),
                         (_c03, {'C03.g': 'C16.O5'}, 'every jump is resolved to a set label of its own routine: an unresolved jump would land on the root PREPARE and push activations without bound'),
                         (c20, {'C20.A1': 'C16.O6'}, 'register values never become negative, so a LOOP counter that is decremented reaches zero'),
                         (c18, {'C18.P2': 'C16.O12'}, 'a RUN of a name that is not (yet) defined is rejected in every compilation, not only the first one of the process: the generator keeps no mutable state between calls')])
_c09, _c12, _c14, _c17, _c18, _c20 = c09, c12, c14, c17, c18, c20
c09 = with_shared(_c09, [(c18, {'C18.P2': 'C09.k'}, 'the detectors that are applied are built from the definitions given to this call: nothing is kept from an earlier call'),
                         (_c12, {'C12.f': 'C09.m'}, 'every definition takes part in the choice of the next step: no definition is left without a detector, so priority decides and not the order of definition'),
                         (c11, {'C11.d': 'C09.l'}, 'rewriting repeats until no pattern matches, within the documented budget: the front end passes the constant budget, not one derived from the input'),
                         (_c12, {'C12.f': 'C09.j'}, 'every definition is matched by a detector built from that very definition (and the caller\'s definitions are left intact for the next call)')])
c12 = with_shared(_c12, [(c14, {'C14.L2': 'C12.m', 'C14.L3': 'C12.n'}, 'a slot is a slot: every documented spelling of the five template tokens is scanned as that template token (a pattern whose statement slot is read as four literal tokens is never checked as ambiguous)'),
                         (_c09, {'C09.h': 'C12.h'}, 'conflicts are judged against the grammar of the language: the pattern grammar derives exactly the language\'s values, argument lists and statement sequences')])
c14 = with_shared(_c14, [(c15, {'C15.I4': 'C14.S5'}, 'an include is replaced by the tokens of the named file exactly once per directive: a file that is being scanned is not entered again'),
                         (c15, {'C15.I3': 'C14.S7'}, 'the file an include names is the text between its quotation marks, byte for byte: the tokens spliced in are those of that file'),
                         (c18, {'C18.P1': 'C14.S8'}, 'the stack of open files belongs to one scan() call: no static or global object survives the call'),
                         (_c02, {'C02.f': 'C14.S6'}, 'synthesised tokens (the final end-of-file token) are labelled with the position of the last scanned token')])
c17 = with_shared(_c17, [(_c06, {'C06.e': 'C17.Z12'}, 'the set of enabled locations and the table of sites are keyed by one strict weak order that tells any two locations apart: what the set records is what was armed'),
                         (_c18, {'C18.P6': 'C17.Z9'}, 'a newly constructed machine starts from the compiled program, not from one that another machine has armed: the program is copied at construction'),
                         (_c05, {'C05.a': 'C17.Z11'}, 'only setBreakPoint/clearBreakpoints/reset rewrite opcodes, and only between BREAK and POTENTIAL_BREAK at the sites of recorded locations: what reset() restores is all that was ever armed'),
                         (_c06, {'C06.c': 'C17.Z10'}, 'what is armed is what is recorded as enabled: a request for a location that is not listed has no effect at all, so reset() and clearBreakpoints(), which restore the sites of the recorded locations, restore every armed site'),
                         (_c08, {'C08.a': 'C17.Z6', 'C08.b': 'C17.Z7'}, 'reset() puts POTENTIAL_BREAK at every listed site: the listed sites are exactly the marker instructions, otherwise a reset machine runs a different program than a fresh one'),
                         (_c06, {'C06.d': 'C17.Z8'}, 'before execution starts and after a reset the current location is none: the lookup is exact (ip - 1 is no site)'),
                         (_c06, {'C06.b': 'C17.Z5'}, 'the enabled set and the armed sites change together: disabling one location leaves the others listed, so reset() can disarm them')])
c18 = with_shared(_c18, [(_c08, {'C08.c': 'C18.P11'}, 'observers (the disassembler, the VM\'s queries) do not write the program\'s tables: listing or inspecting a program leaves it the program that was compiled'),
                         (_c02, {'C02.p': 'C18.P9'}, 'no value is read before it was written: results do not depend on what happened to be in memory')])
c20 = with_shared(_c20, [(_c09, {'C09.b': 'C20.A7', 'C09.e': 'C20.A8'}, 'a priority that passed the range check is the priority that is used: it is not narrowed on the way into the definition; '
                                 'an insertion index whose digits do not fit (reported as -1 by the conversion) is rejected by the range test on both sides'),
                         (c18, {'C18.P2': 'C20.A9'}, 'a range error is reported every time the faulty source is compiled: the diagnostic path keeps no static state that could swallow the report of a later compilation'),
                         (c14, {'C14.L2': 'C20.A10'}, 'a number is a sequence of digits without a sign: the scanner has no spelling for a negative literal or priority, so the one-sided range test of the conversion is enough'),
                         (_c02, {'C02.e': 'C20.A6'}, 'a recorded range error rejects the source: correctness is decided after the errors of every stage were merged'),
                         (c11, {'C11.c': 'C20.A5'}, 'a range error recorded by any stage makes the compilation incorrect: the errors of every stage are merged before correctness is decided')])
_c19 = c19
_c15 = c15
c15 = with_shared(_c15, [(c11, {'C11.a': 'C15.I13'}, 'a missing main file ends in a report, not in a crash: with no definitions at all the expansion stage still hands the token stream (at least its end-of-file token) back to the front end'),
                         (_c14, {'C14.S9': 'C15.I12'}, 'an include problem is reported under its own kind and at the file the scanner was given: the error kinds are distinct numbers and the carrier records store names unchanged'),
                         (c14, {'C14.L2': 'C15.I9', 'C14.L3': 'C15.I10', 'C14.L6': 'C15.I11'}, 'what an include directive names is decided by the scanner: a quoted name is any text between two quotes (FNAME), its token text is the whole match, and text in a // comment is no directive'),
                         (_c02, {'C02.e': 'C15.I8'}, 'a reported include problem rejects the source: correctness is decided after the scanner\'s errors were merged')])
_c11 = c11
c11 = with_shared(_c11, [(c09, {'C09.g': 'C11.f'}, 'a macro that still matches is found: every start position is tried and the table-driven parser rejects only where the tables say so - a runaway expansion cannot end silently because matching gave up'),
                         (_c02, {'C02.e': 'C11.e'}, 'the too-many-substitutions error makes the result incorrect: correctness is decided after the errors of macro application were merged')])
c12 = with_shared(c12, [(_c11, {'C11.c': 'C12.j'}, 'the conflict errors of macro application reach the caller: parse() forwards the errors of every stage'),
                        (_c02, {'C02.e': 'C12.i'}, 'a reported ambiguity makes the result incorrect: correctness is decided after the errors of macro application were merged')])
_c10 = c10
c10 = with_shared(_c10, [(_c03, {'C03.g': 'C10.f'}, 'different names denote different variables only if the register numbers they are mapped to are kept whole: no operand type narrower than the numbers the generator computes'),
                         (c14, {'C14.S9': 'C10.i'}, 'the name of a temporary reaches the generator whole: tokens and syntax-tree nodes store the text they are given (a node that cuts its text drops the pass number at the end of the name)'),
                         (_c01, {'C01.f': 'C10.h'}, 'different names denote different variables: the generator finds a register under the whole name (names of temporaries differ at their end) and no '
                                'temporary register of the generator has a name a macro temporary or a user variable can have'),
                         (c14, {'C14.L2': 'C10.g'}, 'equal n means equal spelling: the scanner admits exactly one spelling of a temporary\'s number (no leading zeros)'),
                         (_c11, {'C11.a': 'C10.e'}, 'every rewriting step has a pass number of its own: at most one rewrite per iteration of the budget loop, whose counter is the number the temporaries are named after')])
c19 = with_shared(_c19, [(c18, {'C18.P1': 'C19.F7'}, 'the data memory belongs to one machine: it is a member of the VM object, not an object with static storage that all machines share'),
                         (c17, {'C17.Z1': 'C19.F4'}, 'reset() returns the data memory and the activation stack to the constructor state: frames of calls that were pending at the reset are released'),
                         (_c03, {'C03.g': 'C19.F5'}, 'every jump of compiled code is resolved to a label of its own routine, so an activation that was entered is left through its RET and its frame is released'),
                         (_c04, {'C04.e': 'C19.F6'}, 'marks are resolved per routine and unknown marks rejected: no jump leaves a routine without returning')])


def with_widths(base_fn, pid):
    """adds the rule <pid>.W: the integer quantities the property depends on are not declared narrower than int (all library units)"""
    def run_(tier):
        rep = base_fn(tier)
        from .facts import all_units
        from .genrules import narrow_rule
        try:
            lib = Facts([os.path.relpath(u, os.environ.get('VERIF_REPO', '/repo')) for u in all_units(os.environ.get('VERIF_REPO', '/repo'))])
            narrow_rule(rep, pid + '.W', pid, lib)
        except AnalysisBroken as ex:
            rep.rule(pid + '.W', 'integer quantities are not declared narrower than int', floor=0).unknown('inventory', str(ex))
        return rep
    return run_


for _pid in ('C01', 'C02', 'C03', 'C04', 'C05', 'C06', 'C07', 'C08', 'C09', 'C10', 'C11', 'C12', 'C14', 'C16', 'C17', 'C19', 'C20'):
    globals()['c' + _pid[1:]] = with_widths(globals()['c' + _pid[1:]], _pid)


CHECKS = {
    'C01': c01,
    'C18': c18,
    'C04': c04,
    'C14': c14, 'C15': c15,
    'C09': c09, 'C10': c10, 'C11': c11, 'C12': c12,
    'C02': c02,
    'C16': c16, 'C07': c07,
    'C08': c08,
    'C03': c03,
    'C19': c19, 'C20': c20, 'C17': c17, 'C05': c05, 'C06': c06,
}


def run(pid, tier):
    rep = CHECKS[pid](tier)
    if tier == 'thorough' and not os.environ.get('VERIF_NO_SELFTEST'):
        selftests(pid, rep)
    return rep


def selftests(pid, rep):
    """thorough tier: the checker is itself checked both ways on scratch copies of the CURRENT tree -
    every mutant of this property's bank must be reported (sensitivity), every behaviour-preserving
    edit of the benign bank must leave this check quiet (no false alarm).  A missed mutant or a false
    alarm is 'analysis broken' (exit 2): the checker lost its footing, the property is not judged."""
    import subprocess
    import sys
    here = os.path.join(VERIF, 'selftest')
    env = dict(os.environ)
    env['VERIF_NO_SELFTEST'] = '1'
    out = {}
    mfile = os.path.join(here, 'mutants', '%s.json' % pid)
    if os.path.exists(mfile):
        r = subprocess.run([sys.executable, os.path.join(here, 'run_mutants.py'), pid], capture_output=True, text=True, env=env)
        lines = r.stdout.strip().split('\n')
        det = sum(1 for l in lines if l.startswith('detected'))
        mis = [l for l in lines if l.startswith('MISSED')]
        skp = [l for l in lines if l.startswith('skipped')]
        out['mutants'] = {'detected': det, 'missed': [m[:120] for m in mis], 'skipped': [x[:120] for x in skp]}
        for m in mis:
            rep.broken.append('self-test: seeded mutant not reported: %s' % m[10:110].strip())
    bdir = os.path.join(here, 'benign')
    if os.path.isdir(bdir):
        items = []
        for f in sorted(os.listdir(bdir)):
            if f.endswith('.json'):
                items.extend(json.load(open(os.path.join(bdir, f))))
        sys.path.insert(0, here)
        import run_benign
        import concurrent.futures
        quiet = 0
        alarms, unk = [], []
        with concurrent.futures.ThreadPoolExecutor(max_workers=8) as ex:
            futs = [(m, ex.submit(run_benign.run_one, m, [pid])) for m in items]
            for m, fu in futs:
                for st, p2, info in fu.result():
                    if st == 'quiet':
                        quiet += 1
                    elif st == 'FALSE-ALARM':
                        alarms.append(m['name'])
                    elif st == 'unknown':
                        unk.append(m['name'])
        out['benign'] = {'quiet': quiet, 'false_alarms': alarms, 'cannot_classify': unk}
        for a in alarms:
            rep.broken.append('self-test: false alarm on a behaviour-preserving edit: %s' % a)
    rep.extra['selftest'] = out
    print('   self-test: %s' % json.dumps(out)[:400])


def write_broken_evidence(pid, tier, msg):
    ev = {'property_id': pid, 'tier': tier, 'seed': int(os.environ.get('VERIF_SEED', '0') or 0), 'level': 'other',
          'coverage': {'explanation': 'analysis broken: ' + msg, 'obligations': 0, 'discharged': 0,
                       'analysis_broken': [msg]},
          'wall_s': 0.0, 'violations': 0}
    from .report import EVID
    os.makedirs(EVID, exist_ok=True)
    json.dump(ev, open(os.path.join(EVID, '%s.json' % pid), 'w'), indent=1)
