"""E3 `nullshape`: allocation-site abstraction of the compiler's own syntax tree.

Phase 1 (parse.cpp): a path-sensitive abstract interpretation of every function that handles
Node*.  Each creation of a node (new Node reached through AST::mk / matchmk, inlined) is an
abstract *site* keyed by the outermost call position, with its Node::Type enumerator and
points-to sets for left/right.  Two worlds are tracked side by side: `all` (every execution,
used for null-safety inside the parser) and `ok` (executions that recorded no syntax error -
the only trees the code generator ever sees, because gen_ast forwards errors otherwise).
The look-ahead token set is tracked through `lookahead()` guards so that "VALUE() cannot return
NULL when the look-ahead is ID/INT/RUN" is available to callers.

Phase 2 (gen.cpp): the `ok` shapes are propagated from the tree root through the recursive
dispatchers to a fixpoint; `switch (c->t)` / `c->t == X` filter by node type, null tests filter
NULL, and the one relational refinement the code relies on is implemented: after
dispatchCallArgs(gs, E, v) on a fresh vector, `v.size() == k` means E has exactly k leaves.

Every `->` on an expression whose value set contains NULL is reported with its witness chain."""
import os

from .facts import (Facts, AnalysisBroken, walk_expr, walk_all_exprs, walk_stmts, show, strip_casts, strip_copies,
                    member_path)

NULL = 'NULL'
NODE_PTR = 'Theo::Node *'
MAX_INLINE = 4


def is_node_ptr(e):
    return e is not None and (e.get('cty') or '').replace('const ', '') == NODE_PTR


class Site:
    def __init__(self, key, fn, loc):
        self.key, self.fn, self.loc = key, fn, loc
        self.types = set()
        self.fields = {'left': {'all': set(), 'ok': set()}, 'right': {'all': set(), 'ok': set()}}
        self.assigned = {'left': False, 'right': False}
        self.ok_reachable = False

    def type(self):
        return sorted(self.types)[0] if len(self.types) == 1 else None

    def desc(self):
        return '%s@%s:%d' % ('/'.join(sorted(t.split('::')[-1] for t in self.types)) or '?', self.fn, self.loc[0] if self.loc else 0)


class V:
    """value of a Node* expression in both worlds"""
    __slots__ = ('all', 'ok')

    def __init__(self, all_=(), ok=()):
        self.all = frozenset(all_)
        self.ok = frozenset(ok)

    def join(self, o):
        return V(self.all | o.all, self.ok | o.ok)

    def __eq__(self, o):
        return isinstance(o, V) and self.all == o.all and self.ok == o.ok

    def __hash__(self):
        return hash((self.all, self.ok))


class PState:
    def __init__(self):
        self.env = {}           # did -> V (Node*) | ('enum', q) | ('this', obj)
        self.la = None          # set of token names or None (= any)
        self.entry_la = None
        self.consumed = False
        self.err = False        # this path recorded an error itself
        self.ok_dead = False    # no error-free execution reaches here
        self.ccount = 0         # number of token-consuming calls so far on this path (validity of look-ahead aliases)

    def copy(self):
        s = PState()
        s.env = dict(self.env)
        s.la = None if self.la is None else set(self.la)
        s.entry_la = None if self.entry_la is None else set(self.entry_la)
        s.consumed, s.err, s.ok_dead = self.consumed, self.err, self.ok_dead
        s.ccount = self.ccount
        return s


class ParserShapes:
    def __init__(self, facts=None):
        self.facts = facts or Facts(['Compiler/src/parse.cpp', 'Compiler/src/ast.cpp'])
        self.tokens = [n for n, _ in self.facts.enum('Theo::Token::Type')['enumerators']]
        self.ALL = set(self.tokens)
        self.sites = {}
        self.fns = {}
        for f in self.facts.functions:
            if f['tmpl'] in ('none', 'inst') and (f['file'].endswith('parse.cpp') or f['file'].endswith('ast.cpp')):
                self.fns.setdefault(f['q'], f)
        # summaries of Node*-returning functions that take the parse state (grammar functions)
        self.summ = {}           # q -> {'all': set, 'ok': set, 'null_la': set, 'null_la_ok': set, 'finish_ok': bool}
        self.reports = {}        # key -> dict
        self.derefs = 0
        self.deref_sites = set()
        self.root = V()
        self.changed = False
        self.paths = 0

    # ------------------------------------------------------------------ driver
    def grammar_fns(self):
        out = []
        for q, f in self.fns.items():
            takes_ps = any('ParseState' in p['cty'] for p in f['params'])
            if takes_ps and f['file'].endswith('parse.cpp'):
                out.append(f)
        return out

    def run(self):
        gfs = self.grammar_fns()
        for f in gfs:
            self.summ[f['q']] = {'all': set(), 'ok': set(), 'null_la': set(), 'null_la_ok': set(), 'finish_ok': False,
                                 'returns_node': f['ret_c'].replace('const ', '') == NODE_PTR}
        entry = self.fns.get('Theo::parse')
        if entry is None:
            raise AnalysisBroken('Theo::parse not found (anchor vanished)')
        for it in range(40):
            self.changed = False
            self.reports = {}
            for f in gfs:
                self.analyse_fn(f)
            self.analyse_fn(entry, top=True)
            if not self.changed:
                break
        else:
            raise AnalysisBroken('nullshape: no fixpoint after 40 rounds')
        # unassigned fields are null (value-initialised node)
        for s in self.sites.values():
            for fld in ('left', 'right'):
                if not s.assigned[fld]:
                    s.fields[fld]['all'].add(NULL)
                    s.fields[fld]['ok'].add(NULL)
        return self

    def analyse_fn(self, f, top=False):
        st = PState()
        for p in f['params']:
            if p['cty'].replace('const ', '') == NODE_PTR:
                st.env[p['d']] = V({'UNK'}, {'UNK'})
        ctx = {'fn': f, 'depth': 0, 'callstack': (), 'top': top}
        outs = self.exec_stmt(f['body'], st, ctx)
        sm = self.summ.get(f['q'])
        for s, flow, rv in outs:
            self.paths += 1
            if sm is None:
                continue
            if not s.ok_dead and not s.err:
                if not sm['finish_ok']:
                    sm['finish_ok'] = True
                    self.changed = True
            if rv is not None and isinstance(rv, V):
                ela = self.ALL if s.entry_la is None else s.entry_la
                self._add(sm, 'all', rv.all - {NULL})
                if NULL in rv.all:
                    self._add(sm, 'null_la', ela)
                if not s.ok_dead and not s.err:
                    self._add(sm, 'ok', rv.ok - {NULL})
                    if NULL in rv.ok:
                        self._add(sm, 'null_la_ok', ela)

    def _add(self, sm, key, vals):
        vals = set(vals)
        if not vals <= sm[key]:
            sm[key] |= vals
            self.changed = True

    # ------------------------------------------------------------------ statements
    def exec_block(self, stmts, st, ctx):
        cur = [(st, 'next', None)]
        for s in stmts:
            nxt = []
            for q, flow, rv in cur:
                if flow != 'next':
                    nxt.append((q, flow, rv))
                else:
                    nxt.extend(self.exec_stmt(s, q, ctx))
            cur = self.merge(nxt)
        return cur

    def merge(self, outs):
        """join states with identical control flow and identical guards-relevant facts to bound the path count"""
        if len(outs) <= 64:
            return outs
        groups = {}
        for q, flow, rv in outs:
            key = (flow, q.err, q.ok_dead, q.consumed, None if q.la is None else frozenset(q.la),
                   None if q.entry_la is None else frozenset(q.entry_la))
            if key in groups:
                g, _, grv = groups[key]
                for d, v in q.env.items():
                    if d in g.env and isinstance(v, V) and isinstance(g.env[d], V):
                        g.env[d] = g.env[d].join(v)
                    elif d not in g.env:
                        g.env[d] = v
                if isinstance(rv, V) and isinstance(grv, V):
                    groups[key] = (g, flow, grv.join(rv))
            else:
                groups[key] = (q, flow, rv)
        return list(groups.values())

    def exec_stmt(self, s, st, ctx):
        if s is None:
            return [(st, 'next', None)]
        k = s['k']
        if k == 'block':
            return self.exec_block(s['s'], st, ctx)
        if k == 'empty':
            return [(st, 'next', None)]
        if k == 'expr':
            return [(q, 'next', None) for q, _ in self.eval(s['e'], st, ctx)]
        if k == 'decl':
            cur = [st]
            for v in s['vars']:
                nxt = []
                for q in cur:
                    if v.get('init') is None:
                        if v['cty'].replace('const ', '') == NODE_PTR:
                            q.env[v['d']] = V({'UNINIT'}, {'UNINIT'})
                        nxt.append(q)
                        continue
                    for q2, val in self.eval(v['init'], q, ctx):
                        q2.env[v['d']] = val
                        init = strip_casts(v['init'])
                        if self.is_lookahead_call(init):
                            q2.env[v['d']] = ('la_alias', q2.ccount)
                        elif (v.get('cty') or '').replace('const ', '') == 'bool' and self.la_cond(init, q2) is not None:
                            q2.env[v['d']] = ('la_bool', init, q2.ccount)
                        nxt.append(q2)
                cur = nxt
            return [(q, 'next', None) for q in cur]
        if k == 'return':
            if s.get('e') is None:
                return [(st, 'return', None)]
            return [(q, 'return', v) for q, v in self.eval(s['e'], st, ctx)]
        if k == 'break':
            return [(st, 'break', None)]
        if k == 'continue':
            return [(st, 'continue', None)]
        if k == 'if':
            res = []
            for q, cv in self.eval(s['c'], st, ctx):
                for branch, pol in ((s['t'], True), (s.get('e'), False)):
                    qq = self.assume(q.copy(), s['c'], pol, ctx)
                    if qq is None:
                        continue
                    if branch is None:
                        res.append((qq, 'next', None))
                    else:
                        res.extend(self.exec_stmt(branch, qq, ctx))
            return self.merge(res)
        if k == 'switch':
            return self.exec_switch(s, st, ctx)
        if k in ('for', 'while', 'do'):
            return self.exec_loop(s, st, ctx)
        if k == 'rangefor':
            res = []
            for q, _ in self.eval(s['range'], st, ctx):
                res.extend(self.exec_loop_body(s['body'], q, ctx))
            return res
        raise AnalysisBroken('nullshape: unsupported statement %s in %s' % (k, ctx['fn']['sig']))

    def exec_loop_body(self, body, st, ctx):
        """run the body until the (joined) environment is stable; returns exits"""
        cur = st
        exits = []
        for it in range(6):
            outs = self.exec_stmt(body, cur.copy(), ctx) if body is not None else [(cur.copy(), 'next', None)]
            nxt = cur.copy()
            changed = False
            exits = []
            for q, flow, rv in outs:
                if flow in ('next', 'continue'):
                    for d, v in q.env.items():
                        if isinstance(v, V):
                            old = nxt.env.get(d)
                            j = v if not isinstance(old, V) else old.join(v)
                            if j != old:
                                nxt.env[d] = j
                                changed = True
                    nxt.la = None
                    nxt.consumed = nxt.consumed or q.consumed
                    nxt.err = nxt.err or q.err
                    nxt.ok_dead = nxt.ok_dead and q.ok_dead
                    exits.append((q, 'next', None))
                elif flow == 'break':
                    exits.append((q, 'next', None))
                else:
                    exits.append((q, flow, rv))
            cur = nxt
            if not changed:
                break
        return exits

    def exec_loop(self, s, st, ctx):
        cur = [st]
        if s['k'] == 'for' and s.get('init'):
            cur = [q for q, _, _ in self.exec_stmt(s['init'], st, ctx)]
        res = []
        for q in cur:
            # zero iterations (unless the loop is endless)
            endless = s.get('c') is None or (s['c'].get('k') == 'bool' and s['c']['v'])
            q.la = q.la
            body_outs = self.exec_loop_body(s['body'], self._loop_entry(q, s, ctx), ctx)
            for qq, flow, rv in body_outs:
                if flow == 'next':
                    qq.la = None
                res.append((qq, flow, rv))
            if not endless and s['k'] != 'do':
                z = self.assume(q.copy(), s['c'], False, ctx) if s.get('c') else None
                if z is not None:
                    res.append((z, 'next', None))
        # an endless loop is left only by break/return (already in res as 'next' for break)
        if s.get('c') is None or (s['c'].get('k') == 'bool' and s['c']['v']):
            res = [(q, flow, rv) for q, flow, rv in res if flow != 'next' or True]
        return self.merge(res)

    def _loop_entry(self, q, s, ctx):
        if s.get('c') is not None and s['k'] != 'do':
            qq = self.assume(q.copy(), s['c'], True, ctx)
            return qq if qq is not None else q.copy()
        return q.copy()

    def exec_switch(self, s, st, ctx):
        res = []
        c = strip_casts(s['c'])
        on_la = self.is_lookahead_call(c) or (c.get('k') == 'ref' and isinstance(st.env.get(c.get('d')), tuple) and st.env[c['d']][0] == 'la_alias'
                                               and st.env[c['d']][1] == st.ccount)
        on_type = self.type_switch_subject(c)
        labels_all = []
        for case in s['cases']:
            for l in case['labels']:
                if isinstance(l, dict):
                    labels_all.append(l.get('name'))
        has_default = any('default' in case['labels'] for case in s['cases'])
        for q0, _ in self.eval(s['c'], st, ctx):
            for i, case in enumerate(s['cases']):
                labs = [l.get('name') for l in case['labels'] if isinstance(l, dict)]
                q = q0.copy()
                if 'default' in case['labels']:
                    sel = ('notin', [x for x in labels_all if x not in labs])
                else:
                    sel = ('in', labs)
                if on_la:
                    q = self.refine_la(q, sel)
                    if q is None:
                        continue
                if on_type is not None:
                    q = self.refine_type(q, on_type, sel, ctx)
                    if q is None:
                        continue
                cur = [(q, 'next', None)]
                for c2 in s['cases'][i:]:
                    nxt = []
                    for qq, flow, rv in cur:
                        if flow == 'next':
                            nxt.extend(self.exec_block(c2['s'], qq, ctx))
                        else:
                            nxt.append((qq, flow, rv))
                    cur = nxt
                    if all(flow != 'next' for _, flow, _ in cur):
                        break
                for qq, flow, rv in cur:
                    res.append((qq, 'next' if flow == 'break' else flow, rv))
            if not has_default:
                q = q0.copy()
                sel = ('notin', labels_all)
                if on_la:
                    q = self.refine_la(q, sel)
                if q is not None and on_type is not None:
                    q = self.refine_type(q, on_type, sel, ctx)
                if q is not None:
                    res.append((q, 'next', None))
        return self.merge(res)

    # ------------------------------------------------------------------ guards
    def is_lookahead_call(self, e):
        e = strip_casts(e)
        return e is not None and e.get('k') == 'call' and (e.get('callee') or '').endswith('::lookahead')

    def type_switch_subject(self, e):
        """`c->t` -> the pointer expression c"""
        e = strip_casts(e)
        if e is not None and e.get('k') == 'member' and e.get('arrow') and e['name'] == 't' and is_node_ptr(e['base']):
            return e['base']
        return None

    def refine_la(self, q, sel):
        cur = self.ALL if q.la is None else q.la
        if sel[0] == 'in':
            new = cur & set(sel[1])
        else:
            new = cur - set(sel[1])
        if not new:
            return None
        q.la = new
        if not q.consumed:
            e = self.ALL if q.entry_la is None else q.entry_la
            q.entry_la = e & new
        return q

    def refine_type(self, q, ptr_expr, sel, ctx):
        return q

    def la_cond(self, e, st=None):
        """condition -> (tokens when true, tokens when false) or None when unrelated to the look-ahead.
        With a state, locals that hold the look-ahead (or a test of it) are looked through while still valid."""
        e = strip_casts(e)
        if e is None:
            return None
        k = e.get('k')

        def is_la(x):
            if self.is_lookahead_call(x):
                return True
            if st is not None and x.get('k') == 'ref' and isinstance(st.env.get(x.get('d')), tuple) and st.env[x['d']][0] == 'la_alias':
                return st.env[x['d']][1] == st.ccount
            return False
        if k == 'ref' and st is not None and isinstance(st.env.get(e.get('d')), tuple) and st.env[e['d']][0] == 'la_bool':
            if st.env[e['d']][2] == st.ccount:
                return self.la_cond(st.env[e['d']][1], st)
            return None
        if k == 'bin' and e['op'] in ('==', '!='):
            l, r = strip_casts(e['l']), strip_casts(e['r'])
            tok = None
            if is_la(l) and r.get('k') == 'ref' and r.get('dk') == 'enumerator':
                tok = r['name']
            elif is_la(r) and l.get('k') == 'ref' and l.get('dk') == 'enumerator':
                tok = l['name']
            if tok is None:
                return None
            t, f = {tok}, self.ALL - {tok}
            return (t, f) if e['op'] == '==' else (f, t)
        if k == 'bin' and e['op'] in ('&&', '||'):
            a, b = self.la_cond(e['l'], st), self.la_cond(e['r'], st)
            if a is None and b is None:
                return None
            a = a or (self.ALL, self.ALL)
            b = b or (self.ALL, self.ALL)
            if e['op'] == '&&':
                return (a[0] & b[0], a[1] | b[1])
            return (a[0] | b[0], a[1] & b[1])
        if k == 'un' and e['op'] == '!':
            a = self.la_cond(e['e'], st)
            return None if a is None else (a[1], a[0])
        if k == 'paren':
            return self.la_cond(e['e'], st)
        if k == 'call' and not e.get('args') and e.get('ck') != 'operator' and e.get('callee_in_repo') and not self.is_lookahead_call(e):
            # a parameterless predicate of the parse state (at_eof()): its single return expression is the test
            facts = getattr(self, 'facts', None)
            g = facts.fn(e.get('callee'), optional=True) if facts is not None and e.get('callee') else None
            if g is not None and g.get('body') is not None and getattr(self, '_la_depth', 0) < 3:
                rets = [x for x in walk_stmts(g['body']) if x['k'] == 'return' and x.get('e') is not None]
                others = [x for x in walk_stmts(g['body']) if x['k'] not in ('return', 'block')]
                if len(rets) == 1 and not others:
                    self._la_depth = getattr(self, '_la_depth', 0) + 1
                    try:
                        return self.la_cond(rets[0]['e'], None)
                    finally:
                        self._la_depth -= 1
        if k == 'call' and e.get('obj') is None and e.get('ck') != 'operator' and len(e.get('args', [])) == 1 and is_la(strip_casts(e['args'][0])):
            # an in-repo predicate over the look-ahead (e.g. "is this token in FIRST(P)?"): evaluated for every token kind
            facts = getattr(self, 'facts', None)
            g = facts.fn(e.get('callee'), optional=True) if facts is not None and e.get('callee') else None
            if g is not None and g.get('body') is not None and len(g['params']) == 1:
                from .enumeval import EnumEval
                ee = EnumEval(facts, lambda x, env: False, lambda c: False)
                t, f = set(), set()
                for tok in self.ALL:
                    v = ee._call_pred(g, g['params'][0]['d'], tok, 0)
                    if v is None:
                        return None
                    (t if v else f).add(tok)
                return (t, f)
        return None

    def assume(self, q, cond, pol, ctx):
        lc = self.la_cond(cond, q)
        if lc is not None:
            # only sound while nothing was consumed since the look-ahead was read: lookahead() reads the
            # current token, so the refinement applies to the current la
            sel = lc[0] if pol else lc[1]
            cur = self.ALL if q.la is None else q.la
            new = cur & sel
            if not new:
                return None
            q.la = new
            if not q.consumed:
                e = self.ALL if q.entry_la is None else q.entry_la
                q.entry_la = e & new
        return self.assume_ptr(q, cond, pol, ctx)

    def assume_ptr(self, q, cond, pol, ctx):
        """null tests / type tests on Node* variables"""
        c = strip_casts(cond)
        if c is None:
            return q
        k = c.get('k')
        if k == 'un' and c['op'] == '!':
            return self.assume_ptr(q, c['e'], not pol, ctx)
        if k == 'bin' and c['op'] == '&&':
            if pol:
                q = self.assume_ptr(q, c['l'], True, ctx)
                return self.assume_ptr(q, c['r'], True, ctx) if q is not None else None
            return q
        if k == 'bin' and c['op'] == '||':
            if not pol:
                q = self.assume_ptr(q, c['l'], False, ctx)
                return self.assume_ptr(q, c['r'], False, ctx) if q is not None else None
            return q
        if k == 'bin' and c['op'] in ('==', '!='):
            l, r = strip_casts(c['l']), strip_casts(c['r'])
            if r.get('k') == 'null' or l.get('k') == 'null':
                p = l if r.get('k') == 'null' else r
                isnull = (c['op'] == '==') == pol
                return self.filter_null(q, p, isnull)
        if k == 'cast' and c.get('ck') == 'PointerToBoolean':
            return self.filter_null(q, c['e'], not pol)
        if k == 'ref' and is_node_ptr(c):
            return self.filter_null(q, c, not pol)
        return q

    def filter_null(self, q, p, isnull):
        p = strip_casts(p)
        if p.get('k') == 'ref' and p.get('d') in q.env and isinstance(q.env[p['d']], V):
            v = q.env[p['d']]
            if isnull:
                nv = V(v.all & {NULL}, v.ok & {NULL})
            else:
                nv = V(v.all - {NULL}, v.ok - {NULL})
            if not nv.all:
                return None
            q.env[p['d']] = nv
        return q

    # ------------------------------------------------------------------ expressions
    def site_for(self, ctx, e):
        cs = ctx['callstack']
        loc = cs[0][1] if cs else tuple(e.get('loc', ()))
        fn = cs[0][0] if cs else ctx['fn']['q']
        key = (fn, loc)
        if key not in self.sites:
            self.sites[key] = Site(key, fn, loc)
            self.changed = True
        return self.sites[key]

    def eval(self, e, st, ctx):
        """returns [(state, value)]; value is V for Node* expressions, ('enum', q) for enumerators, else None"""
        if e is None:
            return [(st, None)]
        e0 = e
        e = strip_copies(e)
        k = e.get('k')
        if k == 'null':
            return [(st, V({NULL}, {NULL}))]
        if k == 'cast':
            return self.eval(e['e'], st, ctx)
        if k == 'ref':
            if e.get('dk') == 'enumerator':
                return [(st, ('enum', e['q']))]
            if e.get('d') in st.env:
                return [(st, st.env[e['d']])]
            if is_node_ptr(e):
                return [(st, V({'UNK'}, {'UNK'}))]
            return [(st, None)]
        if k == 'new':
            if e.get('alloc_ty') == 'Theo::Node':
                s = self.site_for(ctx, e)
                return [(st, V({s.key}, {s.key}))]
            return [(st, None)]
        if k == 'member':
            res = []
            for q, bv in self.eval(e['base'], st, ctx):
                if e.get('arrow') and is_node_ptr(e['base']):
                    self.check_deref(q, e, bv, ctx)
                    if isinstance(bv, V) and e['name'] in ('left', 'right'):
                        res.append((q, self.field_of(bv, e['name'])))
                        continue
                    if isinstance(bv, V) and e['name'] == 't':
                        res.append((q, ('typeof', bv)))
                        continue
                res.append((q, None))
            return res
        if k == 'assign':
            res = []
            for q, rv in self.eval(e['r'], st, ctx):
                l = strip_casts(e['l'])
                if l.get('k') == 'ref' and (isinstance(rv, V) or l.get('d') in q.env):
                    if isinstance(rv, V) or rv is None or isinstance(rv, tuple):
                        q.env[l['d']] = rv
                    res.append((q, rv))
                elif l.get('k') == 'member' and l.get('arrow') and is_node_ptr(l['base']):
                    for q2, bv in self.eval(l['base'], q, ctx):
                        self.check_deref(q2, l, bv, ctx)
                        if isinstance(bv, V):
                            self.store_field(q2, bv, l['name'], rv)
                        res.append((q2, rv))
                elif l.get('k') == 'member' and l['name'] == 'root' and isinstance(rv, V):
                    if ctx.get('top') or True:
                        nr = self.root.join(rv)
                        if nr != self.root:
                            self.root = nr
                            self.changed = True
                    res.append((q, rv))
                else:
                    for q2, _ in self.eval(e['l'], q, ctx):
                        res.append((q2, rv))
            return res
        if k == 'cond':
            res = []
            for q, _ in self.eval(e['c'], st, ctx):
                for br, pol in ((e['t'], True), (e['e'], False)):
                    qq = self.assume(q.copy(), e['c'], pol, ctx)
                    if qq is not None:
                        res.extend(self.eval(br, qq, ctx))
            return res
        if k == 'bin' and e['op'] in ('&&', '||'):
            res = []
            for q, _ in self.eval(e['l'], st, ctx):
                # right side evaluated only when the left side is true (&&) / false (||)
                qq = self.assume(q.copy(), e['l'], e['op'] == '&&', ctx)
                if qq is not None:
                    for q3, _ in self.eval(e['r'], qq, ctx):
                        res.append((q3, None))
                other = self.assume(q.copy(), e['l'], e['op'] != '&&', ctx)
                if other is not None:
                    res.append((other, None))
            return self._join_states(res) if len(res) > 1 else res
        if k == 'call':
            return self.eval_call(e, st, ctx)
        if k in ('construct', 'init'):
            cur = [st]
            args = e.get('args') or [v for _, v in (e.get('fields') or [])] or (e.get('elems') or [])
            for a in args:
                nxt = []
                for q in cur:
                    nxt.extend(q2 for q2, _ in self.eval(a, q, ctx))
                cur = nxt
            return [(q, None) for q in cur]
        # generic: evaluate children for their derefs
        cur = [st]
        from .facts import expr_children
        for c in expr_children(e):
            nxt = []
            for q in cur:
                nxt.extend(q2 for q2, _ in self.eval(c, q, ctx))
            cur = nxt
        return [(q, None) for q in cur]

    def _join_states(self, res):
        # states after a short-circuit expression differ only in refinements; keep them separate but bounded
        return res[:8]

    def field_of(self, bv, name):
        a, o = set(), set()
        for s in bv.all:
            if s in self.sites:
                a |= self.sites[s].fields[name]['all']
                if not self.sites[s].assigned[name]:
                    a.add(NULL)
            elif s in ('UNK',):
                a.add('UNK')
        for s in bv.ok:
            if s in self.sites:
                o |= self.sites[s].fields[name]['ok']
                if not self.sites[s].assigned[name]:
                    o.add(NULL)
            elif s in ('UNK',):
                o.add('UNK')
        return V(a, o)

    def store_field(self, q, bv, name, rv):
        targets = [s for s in bv.all if s in self.sites]
        for sk in targets:
            s = self.sites[sk]
            if name in ('left', 'right'):
                if not s.assigned[name]:
                    s.assigned[name] = True
                    self.changed = True
                if isinstance(rv, V):
                    if not rv.all <= s.fields[name]['all']:
                        s.fields[name]['all'] |= rv.all
                        self.changed = True
                    if not q.err and not q.ok_dead and not rv.ok <= s.fields[name]['ok']:
                        s.fields[name]['ok'] |= rv.ok
                        self.changed = True
            elif name == 't' and isinstance(rv, tuple) and rv[0] == 'enum':
                if rv[1] not in s.types:
                    s.types.add(rv[1])
                    self.changed = True
            if not q.err and not q.ok_dead and not s.ok_reachable:
                s.ok_reachable = True
                self.changed = True

    def check_deref(self, q, e, bv, ctx):
        self.deref_sites.add((ctx['fn']['q'], e.get('sid'), show(e), tuple(e.get('loc', ()))))
        self.derefs = len(self.deref_sites)
        if not isinstance(bv, V):
            return
        if NULL in bv.all or 'UNINIT' in bv.all:
            cs = ctx['callstack']
            fn = cs[0][0] if cs else ctx['fn']['q']
            key = '%s: %s' % (fn, show(e))
            if key not in self.reports:
                self.reports[key] = {'fn': fn, 'expr': show(e), 'loc': tuple(e.get('loc', ())), 'file': ctx['fn']['file'],
                                     'base': show(e['base']),
                                     'la': sorted(q.la) if q.la is not None else 'any',
                                     'after_error': q.err}

    # ------------------------------------------------------------------ calls
    def eval_call(self, e, st, ctx):
        callee = e.get('callee') or ''
        # evaluate object and arguments
        cur = [(st, [])]
        if e.get('obj') is not None:
            cur = [(q, []) for q, _ in self.eval(e['obj'], st, ctx)]
        for a in e['args']:
            nxt = []
            for q, l in cur:
                for q2, v in self.eval(a, q, ctx):
                    nxt.append((q2, l + [v]))
            cur = nxt
        res = []
        target = self.fns.get(callee) if e.get('callee_in_repo') else None
        for q, args in cur:
            # error recording: push_back on an `errors` member
            if callee.endswith('::push_back') and e.get('obj') is not None:
                root, path = member_path(strip_casts(e['obj']))
                if path[-1:] == ['errors']:
                    q.err = True
            if callee.endswith('::lookahead'):
                res.append((q, None))
                continue
            if target is not None and callee in self.summ and not self._inlinable(target):
                sm = self.summ[callee]
                cur_la = self.ALL if q.la is None else q.la
                va = set(sm['all'])
                vo = set(sm['ok'])
                if cur_la & sm['null_la']:
                    va.add(NULL)
                if cur_la & sm['null_la_ok']:
                    vo.add(NULL)
                if not sm['finish_ok']:
                    q.ok_dead = True
                q.la = None
                q.consumed = True
                q.ccount += 1
                val = V(va, vo) if sm['returns_node'] else None
                if sm['returns_node'] and not va:
                    val = V({'BOTTOM'}, set())      # not yet known (fixpoint in progress)
                res.append((q, val))
                continue
            if target is not None and self._inlinable(target) and ctx['depth'] < MAX_INLINE:
                res.extend(self.inline(target, e, q, args, ctx))
                continue
            if target is not None:
                # other in-repo function (e.g. scan/extract/apply): no Node* involved
                res.append((q, V({'UNK'}, {'UNK'}) if is_node_ptr(e) else None))
                continue
            res.append((q, V({'UNK'}, {'UNK'}) if is_node_ptr(e) else None))
        return res

    def _inlinable(self, f):
        """helpers that build nodes or consume tokens without being grammar functions themselves"""
        if f['q'] in ('Theo::AST::mk', 'Theo::Node::mk'):
            return True
        if f.get('rec') == 'ParseState':
            return True
        return False

    def inline(self, f, call, q, args, ctx):
        saved = q.env
        q2 = q.copy()
        q2.env = {}
        for p, a in zip(f['params'], args):
            q2.env[p['d']] = a
        nctx = {'fn': f, 'depth': ctx['depth'] + 1,
                'callstack': ctx['callstack'] + ((ctx['fn']['q'], tuple(call.get('loc', ()))),), 'top': False}
        outs = self.exec_stmt(f['body'], q2, nctx)
        res = []
        consumes = f.get('rec') == 'ParseState' and f['name'] in ('match', 'matchmk')
        for s, flow, rv in outs:
            s.env = dict(saved)
            if consumes or f['name'] in ('match', 'matchmk') or f.get('rec') == 'ParseState':
                s.la = None
                s.consumed = True
                s.ccount += 1
            res.append((s, rv if isinstance(rv, V) else (V({'UNK'}, {'UNK'}) if is_node_ptr(call) else None)))
        # in the ok world a match() never takes its error branch: drop the states that recorded the error
        # when an error-free sibling exists (they only differ in err)
        if f['name'] == 'match':
            okp = [r for r in res if not r[0].err or q.err]
            badp = [r for r in res if r[0].err and not q.err]
            if okp and badp:
                # keep one erroneous continuation for the all-world
                res = okp + badp[:1]
        return res


# =============================================================================== phase 2: generator
class GenShapes:
    def __init__(self, shapes, facts=None):
        self.sh = shapes
        self.facts = facts or Facts(['Compiler/src/gen.cpp'])
        self.fns = {}
        for f in self.facts.functions_in('gen.cpp'):
            self.fns.setdefault(f['q'], f)
        self.params = {}        # (q, did) -> set of sites/NULL
        self.reports = {}
        self.derefs = 0
        self.deref_sites = set()
        self.kinds_seen = {}    # fn -> set of node types reaching its switch
        self.changed = True
        self._counts = {}

    # -- shape helpers (ok world)
    def fld(self, s, name):
        if s in self.sh.sites:
            return set(self.sh.sites[s].fields[name]['ok'])
        return {'UNK'}

    def typ(self, s):
        if s in self.sh.sites:
            t = self.sh.sites[s].type()
            return t.split('::')[-1] if t else None
        return None

    def counts(self, s, cap):
        """possible leaf counts of the list rooted at s, as dispatchCallArgs counts them"""
        key = (s, cap)
        if key in self._counts:
            return self._counts[key]
        self._counts[key] = set()
        if s == NULL:
            r = {0}
        elif self.typ(s) != 'SPLIT':
            r = {1}
        else:
            r = set()
            for it in range(cap + 2):
                new = set()
                for l in self.fld(s, 'left'):
                    for rr in self.fld(s, 'right'):
                        for i in (self.counts(l, cap) if l != s else r):
                            for j in (self.counts(rr, cap) if rr != s else r):
                                new.add(min(i + j, cap + 1))
                if new <= r:
                    break
                r |= new
                self._counts[key] = set(r)
        self._counts[key] = r
        return r

    def run(self, root_fn='gen_ast'):
        # seed: every reference to the member `root` of the AST evaluates to the parser's root set
        for it in range(60):
            self.changed = False
            self.reports = {}
            for q, f in self.fns.items():
                if any(p['cty'].replace('const ', '') == NODE_PTR for p in f['params']) or q == root_fn or q == 'Theo::gen':
                    self.analyse(f)
            if not self.changed:
                break
        else:
            raise AnalysisBroken('genshape: no fixpoint')
        return self

    def analyse(self, f):
        env = {}
        for p in f['params']:
            if p['cty'].replace('const ', '') == NODE_PTR:
                vals = self.params.get((f['q'], p['d']))
                if vals is None:
                    return      # not called yet
                env[p['d']] = frozenset(vals)
        st = {'env': env, 'hyp': {}, 'boolhyp': {}}
        self.exec_stmt(f['body'], st, f)

    def copy(self, st):
        return {'env': dict(st['env']), 'hyp': dict(st['hyp']), 'boolhyp': dict(st['boolhyp'])}

    def exec_block(self, stmts, st, f):
        cur = [(st, 'next')]
        for s in stmts:
            nxt = []
            for q, flow in cur:
                if flow != 'next':
                    nxt.append((q, flow))
                else:
                    nxt.extend(self.exec_stmt(s, q, f))
            cur = nxt
            if len(cur) > 200:
                cur = self.merge(cur)
        return cur

    def merge(self, outs):
        groups = {}
        for q, flow in outs:
            if flow in groups:
                g = groups[flow]
                for d, v in q['env'].items():
                    g['env'][d] = frozenset(g['env'].get(d, frozenset()) | v) if isinstance(v, frozenset) else v
            else:
                groups[flow] = q
        return [(q, flow) for flow, q in groups.items()]

    def exec_stmt(self, s, st, f):
        if s is None:
            return [(st, 'next')]
        k = s['k']
        if k == 'block':
            return self.exec_block(s['s'], st, f)
        if k == 'empty':
            return [(st, 'next')]
        if k == 'expr':
            return [(q, 'next') for q, _ in self.eval(s['e'], st, f)]
        if k == 'decl':
            cur = [st]
            for v in s['vars']:
                nxt = []
                for q in cur:
                    if v.get('init') is None:
                        nxt.append(q)
                        continue
                    for q2, val in self.eval(v['init'], q, f):
                        if isinstance(val, frozenset):
                            q2['env'][v['d']] = val
                        elif isinstance(val, tuple) and val and val[0] == 'hyp':
                            q2['boolhyp'][v['d']] = val[1]
                        nxt.append(q2)
                cur = nxt
            return [(q, 'next') for q in cur]
        if k == 'return':
            if s.get('e') is not None:
                return [(q, 'return') for q, _ in self.eval(s['e'], st, f)]
            return [(st, 'return')]
        if k == 'break':
            return [(st, 'break')]
        if k == 'continue':
            return [(st, 'continue')]
        if k == 'if':
            res = []
            for q, cv in self.eval(s['c'], st, f):
                for br, pol in ((s['t'], True), (s.get('e'), False)):
                    qq = self.assume(self.copy(q), s['c'], pol, f)
                    if qq is None:
                        continue
                    if br is None:
                        res.append((qq, 'next'))
                    else:
                        res.extend(self.exec_stmt(br, qq, f))
            return res
        if k == 'switch':
            res = []
            subj = strip_casts(s['c'])
            ptr = None
            if subj.get('k') == 'member' and subj.get('arrow') and subj['name'] == 't' and is_node_ptr(subj['base']):
                ptr = strip_casts(subj['base'])
            labels_all = [l.get('name') for c in s['cases'] for l in c['labels'] if isinstance(l, dict)]
            for q0, _ in self.eval(s['c'], st, f):
                if ptr is not None and ptr.get('k') == 'ref':
                    vals = q0['env'].get(ptr['d'], frozenset())
                    self.kinds_seen.setdefault(f['q'], set()).update(self.typ(v) for v in vals if v in self.sh.sites)
                for i, c in enumerate(s['cases']):
                    labs = [l.get('name') for l in c['labels'] if isinstance(l, dict)]
                    q = self.copy(q0)
                    if ptr is not None and ptr.get('k') == 'ref' and ptr['d'] in q['env']:
                        vals = q['env'][ptr['d']]
                        if 'default' in c['labels']:
                            keep = frozenset(v for v in vals if self.typ(v) not in [x for x in labels_all if x not in labs] or v == 'UNK')
                        else:
                            keep = frozenset(v for v in vals if self.typ(v) in labs or v == 'UNK')
                        if not keep:
                            continue
                        q['env'][ptr['d']] = keep
                    cur = [(q, 'next')]
                    for c2 in s['cases'][i:]:
                        nxt = []
                        for qq, flow in cur:
                            if flow == 'next':
                                nxt.extend(self.exec_block(c2['s'], qq, f))
                            else:
                                nxt.append((qq, flow))
                        cur = nxt
                        if all(flow != 'next' for _, flow in cur):
                            break
                    for qq, flow in cur:
                        res.append((qq, 'next' if flow == 'break' else flow))
            return res
        if k in ('for', 'while', 'do', 'rangefor'):
            cur = [st]
            if k == 'for' and s.get('init'):
                cur = [q for q, _ in self.exec_stmt(s['init'], st, f)]
            res = []
            for q in cur:
                if k == 'rangefor':
                    q = [x for x, _ in self.eval(s['range'], q, f)][0]
                elif s.get('c') is not None:
                    q = [x for x, _ in self.eval(s['c'], q, f)][0]
                outs = self.exec_stmt(s['body'], self.copy(q), f)
                if k == 'for' and s.get('inc') is not None:
                    outs = [(x, fl) for o, fl in outs for x, _ in self.eval(s['inc'], o, f)]
                res.append((q, 'next'))
                for o, fl in outs:
                    res.append((o, 'next' if fl in ('break', 'continue', 'next') else fl))
            return self.merge(res)
        raise AnalysisBroken('genshape: unsupported statement %s in %s' % (k, f['sig']))

    # -- guards
    def assume(self, q, cond, pol, f):
        c = strip_casts(cond)
        if c is None:
            return q
        k = c.get('k')
        if k == 'un' and c['op'] == '!':
            return self.assume(q, c['e'], not pol, f)
        if k == 'bin' and c['op'] == '&&':
            if pol:
                q = self.assume(q, c['l'], True, f)
                return self.assume(q, c['r'], True, f) if q is not None else None
            return q
        if k == 'bin' and c['op'] == '||':
            if not pol:
                q = self.assume(q, c['l'], False, f)
                return self.assume(q, c['r'], False, f) if q is not None else None
            return q
        if k == 'bin' and c['op'] in ('==', '!='):
            l, r = strip_casts(c['l']), strip_casts(c['r'])
            if l.get('k') == 'null' or r.get('k') == 'null':
                p = l if r.get('k') == 'null' else r
                isnull = (c['op'] == '==') == pol
                return self.filter(q, p, lambda v: (v == NULL) == isnull)
            # c->t == Node::Type::X
            for a, b in ((l, r), (r, l)):
                if a.get('k') == 'member' and a.get('arrow') and a['name'] == 't' and b.get('k') == 'ref' and b.get('dk') == 'enumerator':
                    want = b['name']
                    eq = (c['op'] == '==') == pol
                    return self.filter(q, a['base'], lambda v: v == 'UNK' or ((self.typ(v) == want) == eq))
            # v.size() == K hypothesis
            h = self.size_hyp(c, f)
            if h is not None and ((c['op'] == '==') == pol):
                q['hyp'][h[0]] = h[1]
            return q
        if k == 'ref' and c.get('d') in q['boolhyp'] and pol:
            for key, kk in q['boolhyp'][c['d']].items():
                q['hyp'][key] = kk
            return q
        if k == 'cast' and c.get('ck') == 'PointerToBoolean':
            return self.filter(q, c['e'], lambda v: (v != NULL) == pol)
        return q

    def filter(self, q, p, pred):
        p = strip_casts(p)
        if p.get('k') == 'ref' and p.get('d') in q['env']:
            keep = frozenset(v for v in q['env'][p['d']] if pred(v))
            if not keep:
                return None
            q['env'][p['d']] = keep
        return q

    def size_hyp(self, c, f):
        """`vec.size() == K` where vec was filled by dispatchCallArgs(gs, E, vec) -> (show(E), K)"""
        l, r = strip_casts(c['l']), strip_casts(c['r'])
        for a, b in ((l, r), (r, l)):
            if a.get('k') == 'call' and (a.get('callee') or '').endswith('::size') and a.get('obj') is not None and b.get('k') == 'int':
                vec = strip_casts(a['obj'])
                if vec.get('k') != 'ref':
                    continue
                fills = []
                for e in walk_all_exprs(f['body']):
                    if e.get('k') == 'call' and e.get('callee_in_repo'):
                        for i, x in enumerate(e['args']):
                            if strip_casts(x).get('k') == 'ref' and strip_casts(x).get('d') == vec['d']:
                                pt = (e.get('pty') or [''] * (i + 1))[i] if i < len(e.get('pty') or []) else ''
                                if pt.rstrip().endswith('&') and not pt.lstrip().startswith('const '):
                                    fills.append(e)
                pushes = [e for e in walk_all_exprs(f['body']) if e.get('k') == 'call' and (e.get('callee') or '').endswith('::push_back') and
                          e.get('obj') is not None and strip_casts(e['obj']).get('d') == vec['d']]
                fresh = any(st['k'] == 'decl' and any(v['d'] == vec['d'] and (v.get('init') is None or strip_casts(v['init']).get('k') == 'construct' and not strip_casts(v['init'])['args'])
                                                       for v in st['vars']) for st in walk_stmts(f['body']))
                if len(fills) == 1 and not pushes and fresh and self.counts_leaves(fills[0]):
                    node_arg = [x for x in fills[0]['args'] if is_node_ptr(x)]
                    if len(node_arg) == 1:
                        return show(node_arg[0]), b['v']
        return None

    def counts_leaves(self, call):
        """the callee pushes exactly one element per non-SPLIT, non-NULL leaf of its node argument"""
        g = self.fns.get(call.get('callee'))
        if g is None:
            return False
        body = g['body']
        node_p = [p for p in g['params'] if p['cty'].replace('const ', '') == NODE_PTR]
        vec_p = [p for p in g['params'] if p['cty'].startswith('std::vector<int')]
        if len(node_p) != 1 or len(vec_p) != 1:
            return False
        stmts = body['s']
        # shape: if (c == NULL) return;  if (c->t == SPLIT) { self(left); self(right); return; }  ...push_back once
        txt = [show(s.get('c')) if s['k'] == 'if' else s['k'] for s in stmts]
        if len(stmts) < 3 or stmts[0]['k'] != 'if' or stmts[1]['k'] != 'if':
            return False
        c0 = strip_casts(stmts[0]['c'])
        ok0 = c0.get('k') == 'bin' and c0['op'] == '==' and 'NULL' in show(c0) and [x['k'] for x in walk_stmts(stmts[0]['t'])][-1] == 'return'
        c1 = show(stmts[1]['c'])
        rec = [e for e in walk_all_exprs(stmts[1]['t']) if e.get('k') == 'call' and e.get('callee') == g['q']]
        ok1 = 'SPLIT' in c1 and '==' in c1 and len(rec) == 2 and sorted(show(x['args'][1]).split('->')[-1] for x in rec) == ['left', 'right'] \
            and [x['k'] for x in walk_stmts(stmts[1]['t'])][-1] == 'return'
        pushes = [e for e in walk_all_exprs(body) if e.get('k') == 'call' and (e.get('callee') or '').endswith('::push_back') and
                  strip_casts(e['obj']).get('d') == vec_p[0]['d']]
        rest_pushes = [e for s in stmts[2:] for e in walk_all_exprs(s) if e in pushes]
        return ok0 and ok1 and len(pushes) == 1 and len(rest_pushes) == 1

    # -- expressions
    def eval(self, e, st, f):
        if e is None:
            return [(st, None)]
        e = strip_copies(e)
        k = e.get('k')
        if k == 'null':
            return [(st, frozenset({NULL}))]
        if k == 'cast':
            return self.eval(e['e'], st, f)
        if k == 'ref':
            if e.get('d') in st['env']:
                v = st['env'][e['d']]
                return [(st, self.apply_hyp(st, e, v))]
            if is_node_ptr(e):
                return [(st, frozenset({'UNK'}))]
            return [(st, None)]
        if k == 'member':
            res = []
            for q, bv in self.eval(e['base'], st, f):
                if e.get('arrow') and is_node_ptr(e['base']):
                    self.check_deref(q, e, bv, f)
                    if isinstance(bv, frozenset) and e['name'] in ('left', 'right'):
                        vals = set()
                        for s in bv:
                            if s in (NULL,):
                                continue
                            vals |= self.fld(s, e['name'])
                        res.append((q, self.apply_hyp(q, e, frozenset(vals), parent=(e['base'], bv))))
                        continue
                if e['name'] == 'root' and is_node_ptr(e):
                    res.append((q, frozenset(self.sh.root.ok)))
                    continue
                res.append((q, None))
            return res
        if k == 'assign':
            res = []
            for q, rv in self.eval(e['r'], st, f):
                l = strip_casts(e['l'])
                if l.get('k') == 'ref' and isinstance(rv, frozenset):
                    q['env'][l['d']] = rv
                    res.append((q, rv))
                else:
                    for q2, _ in self.eval(e['l'], q, f):
                        res.append((q2, rv))
            return res
        if k == 'cond':
            res = []
            for q, _ in self.eval(e['c'], st, f):
                vals = None
                outs = []
                for br, pol in ((e['t'], True), (e['e'], False)):
                    qq = self.assume(self.copy(q), e['c'], pol, f)
                    if qq is not None:
                        outs.extend(self.eval(br, qq, f))
                # merge the value, keep the state before the conditional (refinements are local)
                vs = [v for _, v in outs if isinstance(v, frozenset)]
                if vs:
                    allv = frozenset().union(*vs)
                    res.append((q, allv))
                else:
                    res.append((q, None))
            return res
        if k == 'bin' and e['op'] in ('&&', '||'):
            res = []
            hyp = {}
            for q, lv in self.eval(e['l'], st, f):
                qq = self.assume(self.copy(q), e['l'], e['op'] == '&&', f)
                if qq is not None:
                    for q3, rv in self.eval(e['r'], qq, f):
                        pass
                    # hypotheses established by the conjunction hold when the whole expression is true
                    if e['op'] == '&&':
                        hyp = dict(qq['hyp'])
                        if isinstance(lv, tuple) and lv and lv[0] == 'hyp':
                            hyp.update(lv[1])
                res.append((q, ('hyp', hyp)))
            return res
        if k == 'call':
            cur = [(st, [])]
            if e.get('obj') is not None:
                cur = [(q, []) for q, _ in self.eval(e['obj'], st, f)]
            for a in e['args']:
                nxt = []
                for q, l in cur:
                    for q2, v in self.eval(a, q, f):
                        nxt.append((q2, l + [v]))
                cur = nxt
            callee = e.get('callee') or ''
            g = self.fns.get(callee) if e.get('callee_in_repo') else None
            if g is not None:
                for q, args in cur:
                    for p, a in zip(g['params'], args):
                        if p['cty'].replace('const ', '') == NODE_PTR and isinstance(a, frozenset):
                            key = (g['q'], p['d'])
                            old = self.params.get(key, set())
                            if not a <= old:
                                self.params[key] = old | a
                                self.changed = True
            return [(q, frozenset({'UNK'}) if is_node_ptr(e) else None) for q, _ in cur]
        cur = [st]
        from .facts import expr_children
        for c in expr_children(e):
            nxt = []
            for q in cur:
                nxt.extend(q2 for q2, _ in self.eval(c, q, f))
            cur = nxt
        return [(q, None) for q in cur]

    def apply_hyp(self, st, e, vals, parent=None):
        """refine a value by an active leaf-count hypothesis on this access path"""
        key = show(e)
        for hk, k in st['hyp'].items():
            if key == hk:
                return frozenset(v for v in vals if k in self.counts(v, k) or v == 'UNK')
            if key.startswith(hk + '->'):
                # path below the hypothesised root: walk down from the root with count constraints
                steps = key[len(hk) + 2:].split('->')
                root_e = self.find_prefix(e, len(steps))
                rv = st['env'].get(strip_casts(root_e).get('d')) if strip_casts(root_e).get('k') == 'ref' else None
                cur = None
                base = self.eval_raw(root_e, st)
                if base is None:
                    return vals
                allowed = {k}
                cur_set = frozenset(v for v in base if self.counts(v, k) & allowed or v == 'UNK')
                for stp in steps:
                    nxt_set, nxt_allowed = set(), set()
                    for s in cur_set:
                        if s in (NULL, 'UNK'):
                            continue
                        if self.typ(s) != 'SPLIT':
                            nxt_set |= self.fld(s, stp)
                            nxt_allowed = None
                            continue
                        other = 'right' if stp == 'left' else 'left'
                        for kk in allowed or ():
                            for c1 in self.fld(s, stp):
                                for c2 in self.fld(s, other):
                                    for i in self.counts(c1, k):
                                        for j in self.counts(c2, k):
                                            if i + j == kk:
                                                nxt_set.add(c1)
                                                if nxt_allowed is not None:
                                                    nxt_allowed.add(i)
                    if nxt_allowed is None:
                        return vals & frozenset(nxt_set) if nxt_set else vals
                    cur_set = frozenset(v for v in nxt_set if self.counts(v, k) & nxt_allowed or v == 'UNK')
                    allowed = nxt_allowed
                return vals & cur_set
        return vals

    def find_prefix(self, e, n):
        for _ in range(n):
            e = strip_casts(e)['base']
        return e

    def eval_raw(self, e, st):
        e = strip_casts(e)
        if e.get('k') == 'ref':
            return st['env'].get(e['d'])
        if e.get('k') == 'member' and e.get('arrow'):
            b = self.eval_raw(e['base'], st)
            if b is None:
                return None
            vals = set()
            for s in b:
                if s != NULL:
                    vals |= self.fld(s, e['name'])
            return frozenset(vals)
        return None

    def check_deref(self, q, e, bv, f):
        self.deref_sites.add((f['q'], e.get('sid'), show(e), tuple(e.get('loc', ()))))
        self.derefs = len(self.deref_sites)
        if not isinstance(bv, frozenset):
            return
        if NULL in bv:
            key = '%s: %s' % (f['q'], show(e))
            if key not in self.reports:
                chain = self.witness(e, q)
                self.reports[key] = {'fn': f['q'], 'expr': show(e), 'loc': tuple(e.get('loc', ())), 'file': f['file'],
                                     'base': show(e['base']), 'witness': chain}

    def witness(self, e, q):
        """which abstract node has the NULL child"""
        b = strip_casts(e['base'])
        if b.get('k') == 'member' and b.get('arrow'):
            parent = self.eval_raw(b['base'], q)
            if parent:
                out = []
                for s in parent:
                    if s in self.sh.sites and NULL in self.fld(s, b['name']):
                        out.append('%s.%s may be NULL' % (self.sh.sites[s].desc(), b['name']))
                return out[:4]
        return []
