"""E1 `vmfx`: effect summaries of the VM (one per opcode handler and per method),
computed by symex over VM/src/vm.cpp.  Roles of the VM's fields are inferred from their
types (so a rename does not matter); activation fields are resolved by name."""
import json
import os

from .facts import Facts, AnalysisBroken, VERIF, show, walk_all_exprs, walk_expr
from .symex import (Symex, Val, C, INT_MAX, is_const, lin_parts, t_add, t_show, lp_show, type_range)

THIS = (('this',),)


def load_isa():
    return json.load(open(os.path.join(VERIF, 'spec', 'isa.json')))


class PathSummary:
    """One path through a VM method, in role terms."""

    def __init__(self, model, path, fn):
        self.model = model
        self.p = path
        self.fn = fn
        self.opcodes = None      # set of opcode names compatible with the guards (executeSingle)
        self.guards = []         # residual guards (term, polarity)

    # -- helpers
    def final(self, role):
        lp = self.model.lp(role)
        return self.p.heap.get(lp)

    def vec_ops(self, role):
        vs = self.p.vec.get(self.model.lp(role))
        return vs.ops if vs else []

    def ret(self):
        return self.p.ret

    def effects(self):
        return self.p.effects


class VMModel:
    UNITS = ['VM/src/vm.cpp']

    def __init__(self, facts=None, extra_units=()):
        self.isa = load_isa()
        self.facts = facts or Facts(self.UNITS + list(extra_units))
        f = self.facts
        self.vm = f.record('Theo::VM')
        self.act = f.record('Theo::VM::Activation')
        self.opcodes = [n for n, _ in f.enum('Theo::OpCode')['enumerators']]
        self.roles = self._infer_roles()
        for need in ('data_start', 'seg_size', 'ret_target', 'ret_addr', 'debug_info'):
            if need not in [x['name'] for x in self.act['fields']]:
                raise AnalysisBroken('Activation field %s not found (anchor vanished)' % need)
        operand_ranges = {}
        for op, spec in self.isa['operands'].items():
            for name, rng in spec.items():
                operand_ranges['%s.%s' % (op, name)] = tuple(rng)
        self.operand_ranges = operand_ranges
        self.sx = Symex(f, this_rec='Theo::VM',
                        init_ranges={'data_start': (0, INT_MAX), 'seg_size': (0, INT_MAX),
                                     'ret_target': (0, INT_MAX), 'ret_addr': (-1, INT_MAX),
                                     'debug_info': (0, INT_MAX),
                                     self.roles['ip']: (0, INT_MAX - 1),
                                     self.roles['stepping']: (0, 1)},
                        vec_elem_ranges={self.roles['data']: (0, INT_MAX)})
        self.sx.init_hook = self._init_hook
        self._summ = {}

    # ------------------------------------------------------------------ roles
    def _infer_roles(self):
        by = {}

        def put(role, name):
            if role in by:
                raise AnalysisBroken('two VM fields qualify for role %s: %s, %s' % (role, by[role], name))
            by[role] = name
        INTS = ('int', 'unsigned int', 'short', 'unsigned short', 'long', 'unsigned long', 'long long', 'unsigned long long', 'signed char', 'unsigned char')
        ints = [fld['name'] for fld in self.vm['fields'] if fld['cty'] in INTS]
        not_ip = set()
        if len(ints) > 1:
            # several integer fields: the instruction pointer is the one that indexes the code array
            used = set()
            for fn in self.facts.functions_in('VM/src/vm.cpp'):
                for e in walk_all_exprs(fn.get('body')):
                    if e.get('k') == 'call' and (e.get('callee') or '').endswith('::operator[]') and e.get('obj') is not None and \
                            show(e['obj']).endswith('code.code') and e.get('args'):
                        for x in walk_expr(e['args'][0]):
                            if x.get('k') == 'member' and x.get('name') in ints:
                                used.add(x['name'])
            if len(used) == 1:
                not_ip = set(ints) - used
        bools = [fld['name'] for fld in self.vm['fields'] if fld['cty'] == 'bool']
        if len(bools) > 1:
            # several flags: the stepping flag is the one setSteppingMode assigns from its parameter
            ssm = self.facts.fn('Theo::VM::setSteppingMode', optional=True)
            used = set()
            if ssm is not None and ssm.get('body') is not None and ssm['params']:
                pd = ssm['params'][0]['d']
                for e in walk_all_exprs(ssm['body']):
                    if e.get('k') == 'assign' and e.get('op') == '=':
                        l = e['l']
                        while l is not None and l.get('k') in ('cast', 'paren'):
                            l = l.get('e')
                        if l is not None and l.get('k') == 'member' and l.get('name') in bools and any(x.get('k') == 'ref' and x.get('d') == pd for x in walk_expr(e['r'])):
                            used.add(l['name'])
            if len(used) == 1:
                not_ip |= set(bools) - used
        for fld in self.vm['fields']:
            c = fld['cty'].replace('std::__cxx11::', 'std::')
            if fld['name'] in not_ip:
                by.setdefault('other', [])
                by['other'].append(fld['name'])
            elif c == 'bool':
                put('stepping', fld['name'])
            elif c in INTS:
                # (an instruction pointer of another width is still the instruction pointer; its width is the W rule's finding)
                put('ip', fld['name'])
            elif c.replace('const ', '').replace(' &', '').replace(' *', '').strip() == 'Theo::Program':
                # (a program held by reference or pointer is still the program this machine runs; that it is not its own is C18.P6's finding)
                put('code', fld['name'])
            elif c.startswith('std::vector<int') or any(c.startswith('std::vector<%s' % t_) for t_ in INTS):
                put('data', fld['name'])
            elif c.startswith('std::vector<Theo::VM::Activation'):
                put('stack', fld['name'])
            elif c.startswith('std::set<Theo::BreakPoint'):
                put('enabled', fld['name'])
            else:
                by.setdefault('other', [])
                by['other'].append(fld['name'])
        for r in ('stepping', 'ip', 'code', 'data', 'stack', 'enabled'):
            if r not in by:
                raise AnalysisBroken('no VM field qualifies for role %s (anchor vanished)' % r)
        return by

    def lp(self, role):
        if role == 'code.code':
            return THIS + (('f', self.roles['code']), ('f', 'code'))
        if role in ('potential_breaks', 'line_info', 'stack_maps'):
            return THIS + (('f', self.roles['code']), ('f', role))
        return THIS + (('f', self.roles[role]),)

    def ip0(self):
        return ('init', self.lp('ip'))

    # ------------------------------------------------------------------ term classification
    def _init_hook(self, lp):
        # operand of the current instruction
        opd = self.operand_of(('init', lp))
        if opd is not None:
            rng = self.operand_ranges.get(opd, (type_range('int')))
            return Val(('init', lp), tuple(rng))
        return None

    def instr_base(self):
        return self.lp('code.code') + (('idx', self.ip0()),)

    def operand_of(self, t):
        """'add.target' when t is a parameter field of the instruction at the entry ip."""
        if not (isinstance(t, tuple) and t and t[0] == 'init'):
            return None
        lp = t[1]
        b = self.instr_base()
        if lp[:len(b)] != b:
            return None
        rest = lp[len(b):]
        names = [c[1] for c in rest if c[0] == 'f']
        if len(names) == 3 and names[0] == 'parameters':
            return '%s.%s' % (names[1], names[2])
        return None

    def is_opcode_term(self, t):
        return t == ('init', self.instr_base() + (('f', 'op'),))

    def act_field(self, t):
        """(k, field) when t is field `field` of the k-th activation from the entry top."""
        if not (isinstance(t, tuple) and t and t[0] == 'init'):
            return None
        lp = t[1]
        s = self.lp('stack')
        if lp[:len(s)] == s and len(lp) == len(s) + 2 and lp[len(s)][0] == 'top0' and lp[-1][0] == 'f':
            return lp[len(s)][1], lp[-1][1]
        return None

    def data_index(self, idx_term):
        """Decompose a data index into (frame k, operand or act-field name, const)."""
        c, atoms = lin_parts(idx_term)
        frame = None
        others = []
        for a, k in atoms.items():
            af = self.act_field(a)
            if af and af[1] == 'data_start' and k == 1 and frame is None:
                frame = af[0]
            else:
                others.append((a, k))
        return frame, others, c

    def mentions(self, t, pred):
        if pred(t):
            return True
        if isinstance(t, tuple):
            return any(self.mentions(x, pred) for x in t[1:] if isinstance(x, tuple))
        return False

    def mentions_lp_prefix(self, t, prefix):
        def pred(x):
            if isinstance(x, tuple) and x and x[0] in ('init', 'ld', 'seq', 'find', 'contains', 'aend', 'abegin',
                                                       'size', 'asize', 'refto', 'ptrto', 'empty'):
                lp = x[1]
                if isinstance(lp, tuple) and lp[:len(prefix)] == prefix:
                    return True
            return False
        return self.mentions(t, pred)

    def is_debug_term(self, t):
        return self.mentions_lp_prefix(t, self.lp('stepping')) or self.mentions_lp_prefix(t, self.lp('enabled'))

    # ------------------------------------------------------------------ summaries
    # the documented entry points that may get overloads: the one meant is told apart by its number of parameters
    API_ARITY = {'setBreakPoint': 3}

    def method(self, name, rec='Theo::VM'):
        c = self.facts.fns('%s::%s' % (rec, name))
        if len(c) > 1 and name in self.API_ARITY:
            c2 = [f for f in c if len(f.get('params', [])) == self.API_ARITY[name]]
            if len(c2) == 1:
                return c2[0]
        return self.facts.fn('%s::%s' % (rec, name))

    def paths(self, name, rec='Theo::VM', no_inline=()):
        key = (rec, name, tuple(no_inline))
        if key in self._summ:
            return self._summ[key]
        f = self.method(name, rec)
        self.sx.no_inline = set(no_inline)
        ps = self.sx.run(f)
        self.sx.no_inline = set()
        out = [PathSummary(self, p, f) for p in ps]
        self._summ[key] = out
        return out

    def handler_paths(self):
        """executeSingle paths grouped by opcode."""
        key = 'handlers'
        if key in self._summ:
            return self._summ[key]
        allops = set(self.opcodes)
        groups = {o: [] for o in self.opcodes}
        for s in self.paths('executeSingle'):
            ops = set(allops)
            resid = []
            for (t, pol) in s.p.guards:
                if isinstance(t, tuple) and t[0] in ('switch_in', 'switch_notin') and self.is_opcode_term(t[1]):
                    labs = set(x.split('::')[-1] for x in t[2])
                    ops = ops & labs if t[0] == 'switch_in' else ops - labs
                elif isinstance(t, tuple) and t[0] == 'cmp' and t[1] in ('==', '!=') and \
                        (self.is_opcode_term(t[2]) or self.is_opcode_term(t[3])):
                    other = t[3] if self.is_opcode_term(t[2]) else t[2]
                    if isinstance(other, tuple) and other[0] == 'enum':
                        name = other[1].split('::')[-1]
                        eq = (t[1] == '==') == pol
                        ops = ops & {name} if eq else ops - {name}
                    else:
                        resid.append((t, pol))
                else:
                    resid.append((t, pol))
            s.opcodes = ops
            s.guards = resid
            for o in ops:
                groups[o].append(s)
        self._summ[key] = groups
        return groups

    # canonical rendering of the effects of one path (everything except the return value)
    def effect_signature(self, s, ignore_debug_guards=True):
        out = []
        for ef in s.p.effects:
            k = ef[0]
            if k == 'write':
                if lp_show(ef[1]).split('.')[0].split('[')[0] in self.roles.get('other', []):
                    # a write to VM state outside the model (a cache, a statistic): it cannot change what the modelled
                    # state does unless something reads it, and a read shows up as pre(<field>) in a term
                    self.ignored_other_writes = getattr(self, 'ignored_other_writes', set()) | {lp_show(ef[1])}
                    continue
                out.append(('write', lp_show(ef[1]), t_show(ef[2].term), _lc(ef[3])))
            elif k == 'store':
                out.append(('store', lp_show(ef[1]), t_show(ef[2]), t_show(ef[3].term), _lc(ef[4])))
            elif k == 'vecop':
                arg = ef[3]
                if isinstance(arg, Val):
                    arg = t_show(arg.term)
                elif isinstance(arg, tuple) and arg and isinstance(arg[0], Val):
                    arg = tuple(t_show(a.term) for a in arg)
                elif isinstance(arg, tuple):
                    arg = lp_show(arg)
                out.append(('vecop', lp_show(ef[1]), ef[2], arg, _lc(ef[4])))
            elif k == 'assoc':
                out.append(('assoc', lp_show(ef[1]), ef[2], tuple(t_show(a) for a in ef[3]), _lc(ef[4])))
            elif k == 'call':
                out.append(('call', ef[1], tuple(t_show(a) for a in ef[2])))
            elif k in ('unknown', 'new', 'delete', 'map_subscript', 'loopwrite'):
                out.append((k,) + tuple(str(x) for x in ef[1:3]))
        return out


def _lc(loopctx):
    return tuple((c[0], t_show(c[1]) if isinstance(c[1], tuple) else str(c[1])) for c in loopctx)


def fmt_iv(iv):
    if iv is None:
        return 'unbounded'
    return '[%d, %d]' % iv
