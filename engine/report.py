"""Rule bookkeeping, known findings, evidence files and exit codes.

exit 0: every obligation discharged (listed findings print KNOWN-FINDING lines)
exit 1: a construct violates a rule and is not listed -> VIOLATION line
exit 2: analysis broken (anchor vanished, count below floor, unsupported construct)"""
import json
import os
import sys
import time

from .facts import VERIF, AnalysisBroken

KNOWN = os.path.join(VERIF, 'known_findings.json')
EVID = os.environ.get('VERIF_EVIDENCE_DIR') or os.path.join(VERIF, 'evidence')


class Instance:
    __slots__ = ('rule', 'name', 'status', 'detail', 'where', 'witness', 'nontrivial')

    def __init__(self, rule, name, status, detail, where, witness, nontrivial):
        self.rule, self.name, self.status = rule, name, status
        self.detail, self.where, self.witness, self.nontrivial = detail, where, witness, nontrivial

    def key(self):
        return '%s|%s' % (self.rule, self.name)


class Rule:
    def __init__(self, report, rid, desc, floor):
        self.report, self.rid, self.desc, self.floor = report, rid, desc, floor
        self.instances = []
        self.broken = []

    def ok(self, name, detail='', where='', nontrivial=True):
        self.instances.append(Instance(self.rid, name, 'ok', detail, where, None, nontrivial))

    def violation(self, name, detail, where='', witness=None):
        self.instances.append(Instance(self.rid, name, 'violation', detail, where, witness, True))

    def unknown(self, name, detail, where=''):
        """cannot classify -> analysis broken for this rule (never a guess)"""
        self.broken.append('%s: %s%s' % (name, detail, (' at ' + where) if where else ''))

    def check(self, cond, name, detail_ok='', detail_bad='', where='', witness=None):
        if cond:
            self.ok(name, detail_ok, where)
        else:
            self.violation(name, detail_bad or detail_ok, where, witness)
        return cond


class Report:
    def __init__(self, pid, tier, explanation, assumptions=None, trusted=None):
        self.pid, self.tier = pid, tier
        self.explanation = explanation
        self.assumptions = assumptions or []
        self.trusted = trusted or []
        self.rules = []
        self.t0 = time.time()
        self.units = []
        self.functions = set()
        self.extra = {}
        self.seed = int(os.environ.get('VERIF_SEED', '0') or 0)
        self.broken = []
        self.tolerated = []

    def rule(self, rid, desc, floor=1):
        r = Rule(self, rid, desc, floor)
        self.rules.append(r)
        return r

    def adopt(self, other, mapping, why):
        """Take over rules evaluated for a sibling property: they are necessary conditions of this property too.
        mapping: sibling rule id -> new rule id (the sibling id is kept in the description)."""
        for r in other.rules:
            if r.rid not in mapping:
                continue
            nr = Rule(self, mapping[r.rid], '[shared with %s: %s] %s' % (r.rid, why, r.desc), r.floor)
            for i in r.instances:
                nr.instances.append(Instance(mapping[r.rid], '%s: %s' % (r.rid, i.name), i.status, i.detail, i.where, i.witness, i.nontrivial))
            nr.broken = list(r.broken)
            self.rules.append(nr)
        # a rule that the sibling did not get to evaluate (its own analysis lost an anchor before) is undecided here as well - never silently absent
        have = set(r.rid for r in other.rules)
        for old_id, new_id in mapping.items():
            if old_id not in have:
                broken_own = [i.detail for r in other.rules for i in r.instances if i.status == 'unknown'][:1]
                self.rule(new_id, '[shared with %s: %s]' % (old_id, why), floor=0).unknown(
                    'shared rule', 'the sibling analysis did not reach %s%s' % (old_id, (': ' + broken_own[0]) if broken_own else ''))
        for u in other.units:
            if u not in self.units:
                self.units.append(u)
        self.functions |= other.functions
        for d in other.tolerated:
            if d not in self.tolerated:
                self.tolerated.append(d)

    def analysed(self, *fns):
        for f in fns:
            if f is not None:
                self.functions.add(f['sig'] if isinstance(f, dict) else str(f))

    def note_facts(self, facts):
        for u in facts.units:
            if u not in self.units:
                self.units.append(u)
        for d in facts.tolerated_diagnostics():
            if d not in self.tolerated:
                self.tolerated.append(d)
        self.extra.setdefault('flags_source', facts.meta['flags_info'].get('source'))

    # ------------------------------------------------------------------
    def _known(self):
        try:
            k = json.load(open(KNOWN))
        except FileNotFoundError:
            return {'known': [], 'fixed': []}
        return k

    def finish(self):
        known = self._known()
        listed = {e['key']: e for e in known.get('known', []) if e.get('property') == self.pid}
        lines = []
        n_inst = n_ok = 0
        new_viol = []
        known_hits = []
        broken = list(self.broken)
        table = []
        samples = []
        nontrivial_keys = set()
        for r in self.rules:
            cnt = len(r.instances)
            n_inst += cnt
            bad = [i for i in r.instances if i.status == 'violation']
            n_ok += cnt - len(bad)
            for b in r.broken:
                broken.append('%s %s' % (r.rid, b))
            if cnt < r.floor and not r.broken:
                broken.append('%s matched %d instance(s), floor is %d (a rule must not pass '
                              'vacuously)' % (r.rid, cnt, r.floor))
            unlisted = [i for i in bad if i.key() not in listed]
            verdict = 'BROKEN' if (r.broken or cnt < r.floor) else ('VIOLATED' if unlisted else ('known' if bad else 'ok'))
            lines.append('  %-8s %-9s instances=%-3d floor=%-3d %s' % (r.rid, verdict, cnt, r.floor, r.desc))
            table.append({'rule': r.rid, 'desc': r.desc, 'instances': cnt, 'floor': r.floor,
                          'verdict': verdict})
            for i in r.instances:
                if i.nontrivial:
                    nontrivial_keys.add(i.key())
                if i.status == 'ok' and len([s for s in samples if s['rule'] == r.rid]) < 3:
                    samples.append({'rule': r.rid, 'instance': i.name, 'where': i.where,
                                    'argument': i.detail, 'status': 'discharged'})
            for i in bad:
                if i.key() in listed:
                    known_hits.append(i)
                else:
                    new_viol.append(i)
        print('== %s (%s tier): %d rule(s), %d obligation(s), %d discharged' % (
            self.pid, self.tier, len(self.rules), n_inst, n_ok))
        print('   units: ' + ', '.join(os.path.relpath(u, '/') for u in self.units))
        for l in lines:
            print(l)
        for i in known_hits:
            print('KNOWN-FINDING: property=%s %s [%s] %s %s' % (
                self.pid, listed[i.key()].get('what', i.detail), i.key(), i.where, i.detail))
        vdir = os.path.join(EVID, 'violations')
        vpaths = []
        for n, i in enumerate(new_viol):
            os.makedirs(vdir, exist_ok=True)
            p = os.path.join(vdir, '%s-%d.json' % (self.pid, n))
            json.dump({'property': self.pid, 'rule': i.rule, 'instance': i.name, 'key': i.key(),
                       'where': i.where, 'detail': i.detail, 'witness': i.witness,
                       'replay': './check %s --replay %s' % (self.pid, os.path.relpath(p, VERIF))},
                      open(p, 'w'), indent=1)
            vpaths.append(p)
            print('  report: %s %s: %s -- %s' % (i.where, i.rule, i.name, i.detail))
            if i.witness:
                print('          witness: %s' % (json.dumps(i.witness)[:400]))
        for b in broken:
            print('  ANALYSIS-BROKEN: %s' % b)
        # evidence
        ev = {
            'property_id': self.pid,
            'tier': self.tier,
            'seed': self.seed,
            'level': 'other',
            'coverage': {
                'explanation': self.explanation,
                'obligations': n_inst,
                'discharged': n_ok,
                'evaluations': max(n_inst, 0),
                'distinct_nontrivial': len(nontrivial_keys),
                'rule': 'one obligation per (rule, construct) pair found in the current source; '
                        'non-trivial = needed an argument beyond "declaration found"; distinct by '
                        '(rule id, enclosing function, normalised construct)',
                'rules': table,
                'samples': samples[:40],
                'units': [os.path.relpath(u, '/') for u in self.units],
                'functions_analysed': sorted(self.functions),
                'frontend_errors_tolerated_outside_repo': self.tolerated[:8],
                'checker_cmd': './check %s --tier %s' % (self.pid, self.tier),
                'trusted_base': self.trusted,
                'analysis_broken': broken,
                'known_findings_hit': [i.key() for i in known_hits],
                'exhaustive': False,
            },
            'assumptions': self.assumptions,
            'wall_s': round(time.time() - self.t0, 3),
            'violations': len(new_viol),
        }
        ev['coverage'].update(self.extra)
        os.makedirs(EVID, exist_ok=True)
        p = os.path.join(EVID, '%s.json' % self.pid)
        tmp = p + '.%d.tmp' % os.getpid()
        json.dump(ev, open(tmp, 'w'), indent=1)
        os.replace(tmp, p)
        if new_viol:
            for vp in vpaths:
                print('VIOLATION property=%s replay=%s' % (self.pid, os.path.relpath(vp, VERIF)))
            return 1
        if broken:
            return 2
        print('   %s: all obligations discharged' % self.pid)
        return 0
