"""Finite-domain evaluation of a classifying function: a function that looks at one value of an enumeration (a token kind)
and, depending on it only, performs some calls.  For every enumerator the statements are executed with every test of the
subject decided (switch, ==, !=, &&, ||, !, calls of in-repo predicates over the subject); a test that depends on anything
else and guards a collected effect makes the evaluation Unsupported (never guessed)."""
from .facts import strip_casts, show, walk_all_exprs, walk_expr, walk_stmts


class Unsupported(Exception):
    pass


class EnumEval:
    def __init__(self, facts, is_subject, interesting, carrier=None):
        """is_subject(expr, env) -> bool; interesting(call expr) -> bool for the effects to collect.
        carrier: substring of a record type; when given, the subject is recognised by type in any function (a field of an object
        of that type), so predicates that receive the whole object are evaluated with the same is_subject."""
        self.facts = facts
        self.is_subject = is_subject
        self.interesting = interesting
        self.carrier = carrier

    def table(self, f, kinds):
        out = {}
        self.returned = {}
        for k in kinds:
            self.effects = []
            self.ret_exprs = []
            self._exec(f['body'], k, {})
            out[k] = list(self.effects)
            self.returned[k] = list(self.ret_exprs)
        return out

    def _const_sets(self):
        """declaration id -> enumerator names, for const containers initialised with a list of enumerators and never modified"""
        if not hasattr(self, '_csets'):
            from .facts import walk_stmts as _ws, walk_expr as _we, walk_all_exprs as _wa
            out, written = {}, set()
            for f in self.facts.functions:
                if f.get('body') is None or f['tmpl'] == 'pattern':
                    continue
                for st in _ws(f['body']):
                    if st['k'] == 'decl':
                        for v in st['vars']:
                            if v.get('init') is None or not (v.get('cty') or '').startswith('const '):
                                continue
                            leaves = [x for x in _we(v['init']) if x.get('k') in ('ref', 'int', 'str', 'call', 'member')]
                            enums = [x for x in leaves if x.get('k') == 'ref' and x.get('dk') == 'enumerator']
                            if enums and all(x.get('k') == 'ref' and x.get('dk') == 'enumerator' or (x.get('k') == 'call' and not x.get('callee_in_repo')) for x in leaves):
                                out[v['d']] = set(x['name'] for x in enums)
            self._csets = out
        return self._csets

    # ------------------------------------------------------------------ conditions
    def cond(self, e, K, env, depth=0):
        e = strip_casts(e)
        if e is None or depth > 8:
            return None
        k = e.get('k')
        if k == 'paren':
            return self.cond(e['e'], K, env, depth)
        if k == 'bool':
            return bool(e['v'])
        if k == 'un' and e['op'] == '!':
            v = self.cond(e['e'], K, env, depth)
            return None if v is None else not v
        if k == 'bin' and e['op'] in ('&&', '||'):
            a, b = self.cond(e['l'], K, env, depth), self.cond(e['r'], K, env, depth)
            if e['op'] == '&&':
                return False if (a is False or b is False) else (True if (a and b) else None)
            return True if (a or b) else (False if (a is False and b is False) else None)
        if k in ('bin', 'call') and e.get('op') in ('==', '!='):
            l = strip_casts(e['l'] if k == 'bin' else (e.get('obj') or e['args'][0]))
            r = strip_casts(e['r'] if k == 'bin' else e['args'][-1])
            for a, b in ((l, r), (r, l)):
                if self.is_subject(a, env) and b.get('k') == 'ref' and b.get('dk') == 'enumerator':
                    return (b['name'] == K) == (e['op'] == '==')
            return None
        if k == 'ref' and e.get('d') in env:
            return env[e['d']]
        if k == 'call' and e.get('obj') is not None and (e.get('callee') or '').split('::')[-1] in ('contains', 'count') and len(e.get('args', [])) == 1 and \
                self.is_subject(strip_casts(e['args'][0]), env):
            # membership in a constant set of kinds: static const std::set<Token::Type> literal = {Token::ID, Token::NV_ID}
            names = self._const_sets().get(strip_casts(e['obj']).get('d'))
            if names is not None:
                return K in names
            return None
        if k == 'call' and e.get('ck') != 'operator' and e.get('obj') is None:
            g = self.facts.fn(e.get('callee'), optional=True) if e.get('callee') else None
            if g is not None and g.get('body') is not None:
                idx = [i for i, a in enumerate(e['args']) if self.is_subject(strip_casts(a), env)]
                if len(idx) == 1 and idx[0] < len(g['params']):
                    return self._call_pred(g, g['params'][idx[0]]['d'], K, depth + 1)
                if self.carrier and any(self.carrier in (strip_casts(a).get('cty') or '') for a in e['args']):
                    return self._call_pred(g, None, K, depth + 1)
        return None

    def _call_pred(self, g, pd, K, depth):
        if pd is None:
            sub = EnumEval(self.facts, self.is_subject, lambda c: False, self.carrier)
        else:
            sub = EnumEval(self.facts, lambda x, env: x is not None and x.get('k') == 'ref' and x.get('d') == pd, lambda c: False)
        sub.ret = []
        try:
            sub._exec(g['body'], K, {}, depth)
        except Unsupported:
            return None
        vals = set(sub.ret)
        return vals.pop() if len(vals) == 1 and None not in vals else None

    # ------------------------------------------------------------------ statements
    def _has_effect(self, s):
        return s is not None and (any(self.interesting(e) for e in walk_all_exprs(s)) or
                                  any(x['k'] in ('return', 'break', 'continue') for x in walk_stmts(s)))

    def _collect(self, e):
        for x in walk_expr(e):
            if x.get('k') == 'call' and self.interesting(x):
                self.effects.append(x)

    def _exec(self, s, K, env, depth=0):
        """returns 'next' | 'break' | 'return'"""
        if s is None:
            return 'next'
        k = s['k']
        if k == 'block':
            for c in s['s']:
                fl = self._exec(c, K, env, depth)
                if fl != 'next':
                    return fl
            return 'next'
        if k == 'empty':
            return 'next'
        if k == 'expr':
            self._collect(s['e'])
            return 'next'
        if k == 'decl':
            for v in s['vars']:
                if v.get('init') is not None:
                    self._collect(v['init'])
                    if (v.get('cty') or '').replace('const ', '') == 'bool':
                        env[v['d']] = self.cond(v['init'], K, env, depth)
            return 'next'
        if k == 'return':
            if s.get('e') is not None:
                self._collect(s['e'])
                if hasattr(self, 'ret_exprs'):
                    self.ret_exprs.append(s['e'])
                if hasattr(self, 'ret'):
                    self.ret.append(self.cond(s['e'], K, env, depth))
            return 'return'
        if k == 'break':
            return 'break'
        if k == 'continue':
            return 'continue'       # the rest of the (loop) body is skipped for this kind
        if k == 'if':
            self._collect(s['c'])
            v = self.cond(s['c'], K, env, depth)
            if v is None:
                jumps = any(x['k'] in ('return', 'break', 'continue') for y in (s['t'], s.get('e')) if y is not None for x in walk_stmts(y))
                if self._has_effect(s['t']) or self._has_effect(s.get('e')) or jumps:
                    raise Unsupported('condition %s does not depend on the classified kind only' % show(s['c'])[:80])
                return 'next'
            return self._exec(s['t'] if v else s.get('e'), K, env, depth)
        if k == 'switch':
            if not self.is_subject(strip_casts(s['c']), env):
                if self._has_effect(s):
                    raise Unsupported('switch on %s' % show(s['c'])[:60])
                return 'next'
            start = None
            for i, case in enumerate(s['cases']):
                if any(isinstance(l, dict) and l.get('name') == K for l in case['labels']):
                    start = i
            if start is None:
                for i, case in enumerate(s['cases']):
                    if 'default' in case['labels']:
                        start = i
            if start is None:
                return 'next'
            for case in s['cases'][start:]:
                for st in case['s']:
                    fl = self._exec(st, K, env, depth)
                    if fl == 'break':
                        return 'next'
                    if fl == 'return':
                        return 'return'
            return 'next'
        if self._has_effect(s):
            raise Unsupported('statement kind %s around a classified effect' % k)
        return 'next'
