"""C04: the compiler accepts exactly the language (parser == reference grammar up to a bound; every
deviation records an error; trailing input; error propagation; static rules present and blocking)."""
import os

from .facts import (Facts, AnalysisBroken, walk_expr, walk_all_exprs, walk_stmts, show, strip_casts, strip_copies, member_path)
from .genrules import GenModel, is_call, field_chain, guarded, guard_implies, direct_exprs
from .props_c02 import Multi
from .props_macro import forwarded_errors_rule
from . import grammar


def c04(rep, tier):
    n = 13 if tier == 'quick' else 17
    start, prods = grammar.load_reference()
    sk = grammar.Skeleton()
    rep.note_facts(sk.facts)
    for f in sk.grammar_fns.values():
        rep.analysed(f)
    A = rep.rule('C04.a', 'the recursive-descent functions accept exactly the sentences of the reference grammar (all token sequences up to '
                          'the bound, accepted = no error recorded)', floor=100)
    if len(sk.grammar_fns) < 10:
        A.unknown('parser skeleton', 'only %d grammar functions found (floor 10)' % len(sk.grammar_fns))
    ref = grammar.enumerate_grammar(start, prods, n)
    entry = find_start(sk)
    code = sk.language(entry, n)
    rep.extra['bound_tokens'] = n
    rep.extra['reference_sentences'] = len(ref)
    rep.extra['parser_sentences'] = len(code)
    rep.extra['start_function'] = entry
    only_ref = sorted(ref - code, key=lambda s: (len(s), s))
    only_code = sorted(code - ref, key=lambda s: (len(s), s))
    for s in sorted(ref & code, key=lambda s: (len(s), s)):
        A.ok('sentence: ' + ' '.join(s), 'in the language and accepted', nontrivial=len(s) > 3)
    for s in only_ref[:5]:
        A.violation('sentence: ' + ' '.join(s), 'a sentence of the language is rejected by the parser (an error is recorded)', 'Compiler/src/parse.cpp',
                    witness={'tokens': list(s), 'kind': 'valid program rejected'})
    for s in only_code[:5]:
        A.violation('sentence: ' + ' '.join(s), 'the parser accepts a token sequence that is not a sentence of the language (no error recorded)', 'Compiler/src/parse.cpp',
                    witness={'tokens': list(s), 'kind': 'invalid program accepted'})
    pf = sk.facts
    M = Multi(pf)
    # ---------------------------------------------------------------- b
    B = rep.rule('C04.b', 'a token mismatch records an error before skipping', floor=1)
    mt = sk.match_fn
    rep.analysed(mt)
    g = M.cfg(mt)
    def is_err_push(e):
        return is_call(e, '::push_back') and e.get('obj') is not None and member_path(strip_casts(e['obj']))[1][-1:] == ['errors']
    # helpers of the parse state that record an error on every path (report_unexpected(...))
    recorders = set()
    for f2 in pf.functions:
        if f2.get('body') is None or not f2['q'].startswith('ParseState::') or f2 is mt:
            continue
        g2 = M.cfg(f2)
        if any(is_err_push(ev.e) and g2.on_all_paths(ev) for ev in g2.calls()):
            recorders.add(f2['q'])
    pushes = [ev for ev in g.calls() if is_err_push(ev.e) or (ev.e.get('callee') in recorders)]
    tparam = mt['params'][0]

    def mismatch(c):
        return c.get('k') == 'bin' and c['op'] == '!=' and any(strip_casts(x).get('d') == tparam['d'] for x in (c['l'], c['r'])) and \
            any((strip_casts(x).get('callee') or '').endswith('::lookahead') for x in (c['l'], c['r']))
    def matches(c):
        return c.get('k') == 'bin' and c['op'] == '==' and any(strip_casts(x).get('d') == tparam['d'] for x in (c['l'], c['r'])) and \
            any((strip_casts(x).get('callee') or '').endswith('::lookahead') for x in (c['l'], c['r']))
    okb = len(pushes) == 1 and (guarded(g, pushes[0], mismatch, True) or guarded(g, pushes[0], matches, False))
    if okb:
        # on the mismatch path the push happens on every path (not nested further)
        skips = [ev for ev in g.events if (ev.e.get('k') == 'un' and ev.e['op'] == '++') or
                 (ev.e.get('k') == 'call' and ev.e.get('callee_in_repo') and (ev.e.get('callee') or '').startswith('ParseState::') and
                  ev.e.get('callee') not in recorders and not ev.e.get('callee').endswith(('::lookahead', '::at_eof')))]
        okb = all(g.dominates(pushes[0], s) or not (guarded(g, s, mismatch, True) or guarded(g, s, matches, False)) for s in skips)
    # ... and the comparison of the look-ahead with the expected token is made on every path through match(): an early return in front
    # of it (e.g. "at the end marker: nothing to do") lets a missing token pass without a record (seed C04k-3)
    cmps = [ev for ev in g.events if mismatch(ev.e) or matches(ev.e)]
    B.check(bool(cmps) and any(g.on_all_paths(ev) for ev in cmps), 'ParseState::match: comparison on every path',
            'lookahead() is compared with the expected token on every path from entry to return',
            'match() can return without having compared the look-ahead with the expected token: on that path a mismatch (e.g. the input ends where END is expected) records no error and the truncated source is accepted',
            'Compiler/src/parse.cpp:%d' % mt['loc'][1])
    B.check(okb, 'ParseState::match: mismatch', 'errors.push_back(...) under lookahead() != t, before skipping', 'a token mismatch is not recorded as an error',
            'Compiler/src/parse.cpp:%d' % mt['loc'][1])
    # ---------------------------------------------------------------- c
    Cc = rep.rule('C04.c', 'input remaining after the start symbol is an error', floor=1)
    parse = pf.fn('Theo::parse')
    rep.analysed(parse)
    gp = M.cfg(parse)
    okc = False
    for st in walk_stmts(parse['body']):
        if st['k'] == 'while':
            lc = sk.ps.la_cond(st['c'])
            cond_ok = lc is not None and 'T_EOF' not in lc[0]
            body = st['body']
            first = body['s'][0] if body['k'] == 'block' and body['s'] else body
            push_first = first['k'] == 'expr' and is_call(strip_casts(first['e']), '::push_back') and member_path(strip_casts(strip_casts(first['e'])['obj']))[1][-1:] == ['errors']
            # the loop must come after the start symbol call
            sc = [ev for ev in gp.calls() if (ev.e.get('callee') or '') == entry]
            okc = cond_ok and push_first and bool(sc)
    Cc.check(okc, 'parse: trailing input', 'while (lookahead() != T_EOF) { errors.push_back(...); ... }', 'input after a complete program is silently ignored',
             'Compiler/src/parse.cpp:%d' % parse['loc'][1])
    # ---------------------------------------------------------------- d
    D = rep.rule('C04.d', 'scanner, macro and parser errors all make the parse incorrect; code is generated only for correct parses', floor=4)
    forwarded_errors_rule(D, pf, parse)
    gf = Facts(['Compiler/src/gen.cpp'])
    rep.note_facts(gf)
    MG = Multi(gf)
    ga = gf.fn('gen_ast', unit_suffix='gen.cpp')
    gga = MG.cfg(ga)
    disp = [ev for ev in gga.calls() if (ev.e.get('callee') or '').startswith('dispatch')]
    okd = bool(disp) and all(guarded(gga, ev, lambda c: c.get('k') == 'member' and c['name'] == 'parsed_correctly', True) for ev in disp)
    D.check(okd, 'gen_ast: generation only when parsed correctly', 'dispatch is dominated by parsed_correctly', 'code is generated for an incorrectly parsed tree',
            'Compiler/src/gen.cpp:%d' % ga['loc'][1])
    # ---------------------------------------------------------------- e
    E = rep.rule('C04.e', 'static rules are present and blocking: unknown program, argument count, unknown mark, literal range', floor=4)
    m = GenModel(gf)
    dv = m.fn_with_helpers('dispatchValue', lambda fx: any(m.is_factory(x, 'PrepareExec') for x in walk_all_exprs(fx['body']) if x.get('k') == 'call'),
                           exclude=('dispatchCallArgs', 'strToInt', 'strToIntSilent'))
    gv = m.cfg(dv)
    emits_call = [ev for ev in gv.calls() if m.is_factory(ev.e, 'PrepareExec') or m.is_factory(ev.e, 'Exec') or m.is_factory(ev.e, 'Arg')]

    def err_then_return(kind):
        evs = [ev for ev in gv.calls() if is_call(ev.e, 'GenState::err') and kind in show(ev.e)]
        if len(evs) != 1:
            return False, None
        ev = evs[0]
        # a return follows on every path and no call-sequence emission can follow the error
        after = [x for x in emits_call if gv.can_follow(ev, x)]
        return not after, ev
    ok1, ev1 = err_then_return('UNKNOWN_PROGRAM_NAME')
    def notfound(c):
        if not (c.get('k') in ('call', 'bin') and c.get('op') == '=='):
            return False
        ops = (([c['obj']] if c.get('obj') is not None else []) + list(c.get('args') or [])) if c.get('k') == 'call' else [c['l'], c['r']]
        txt = [show(m.origin(dv, x)) for x in ops]
        return any('funcAddrs.find' in t for t in txt) and any('funcAddrs.end()' in t for t in txt)
    okg1 = ev1 is not None and guarded(gv, ev1, notfound, True)
    E.check(ok1 and okg1, 'dispatchValue: unknown program', 'failed lookup -> UNKNOWN_PROGRAM_NAME, no call sequence emitted afterwards',
            'a call of an undefined program is not rejected', 'Compiler/src/gen.cpp:%d' % dv['loc'][1])
    ok2, ev2 = err_then_return('ARGSIZE_MISMATCH')
    okg2 = ev2 is not None and guarded(gv, ev2, lambda c: c.get('k') == 'bin' and c['op'] == '!=' and 'argnum' in show(c) and 'size()' in show(c), True)
    E.check(ok2 and okg2, 'dispatchValue: argument count', 'argnum != number of arguments -> ARGSIZE_MISMATCH, no call sequence emitted afterwards',
            'a call with the wrong number of arguments is not rejected', 'Compiler/src/gen.cpp:%d' % dv['loc'][1])
    pop = m.fn('GenState::popSymbols')
    okm = False
    from .genrules import unconditional_callees
    for st in [x for fb in unconditional_callees(m, pop) for x in walk_stmts(fb['body'])]:
        if st['k'] == 'rangefor' and field_chain(st['range'])[1][-1:] == ['marks']:
            for c in [x for x in walk_stmts(st['body']) if x['k'] == 'if']:
                txt = strip_casts(c['c'])
                if txt.get('k') == 'bin' and txt['op'] == '==' and show(strip_casts(txt['r'])) in ('-1',) and 'labels[' in show(txt['l']) and \
                        any(is_call(x, 'GenState::err') and 'UNKNOWN_MARK' in show(x) for x in direct_exprs(c['t'])):
                    okm = True
    # marks are per routine: the table is a member of the per-routine state
    fgs = [r for r in gf.records.values() if r['q'] == 'FunctionGenState']
    per_routine = bool(fgs) and any(f['name'] == 'marks' for f in fgs[0]['fields'])
    E.check(okm and per_routine, 'popSymbols: unknown mark', 'every mark of the finished routine whose label is unset -> UNKNOWN_MARK; marks live in the per-routine state',
            'a jump to a label that does not exist in the same program body is not rejected', 'Compiler/src/gen.cpp:%d' % pop['loc'][1])
    # ... and every routine starts with an empty table: pushSymbols() pushes a fresh per-routine state, or resets every field of a reused one
    psf = m.fn('GenState::pushSymbols') if hasattr(m, 'fn') else None
    if psf is not None and fgs:
        fresh = [e for e in walk_all_exprs(psf['body']) if (is_call(e, '::push_back') or is_call(e, '::emplace_back')) and e.get('obj') is not None and
                 field_chain(e['obj'])[1][-1:] == ['symbols']]
        if fresh:
            E.ok('pushSymbols: fresh state', 'a new FunctionGenState is pushed for every routine (its mark table starts empty)', 'Compiler/src/gen.cpp:%d' % psf['loc'][1])
        else:
            written = set()
            for e in walk_all_exprs(psf['body']):
                tgt = None
                if e.get('k') == 'assign':
                    tgt = strip_casts(e['l'])
                elif e.get('k') == 'call' and e.get('obj') is not None and (e.get('callee') or '').split('::')[-1] in ('clear', 'assign', 'operator=', 'swap'):
                    tgt = strip_casts(e['obj'])
                if tgt is not None and tgt.get('k') == 'member' and 'FunctionGenState' in (strip_casts(tgt.get('base') or {}).get('cty') or ''):
                    written.add(tgt['name'])
            need = [f_['name'] for f_ in fgs[0]['fields']]
            missing = [n_ for n_ in need if n_ not in written]
            if not written:
                E.unknown('pushSymbols: fresh state', 'neither a push of a new state nor resets of a reused one were found')
            else:
                E.check(not missing, 'pushSymbols: fresh state', 'a reused state is reset field by field: %s' % sorted(written),
                        'pushSymbols() reuses a per-routine state and resets %s but not %s: a routine inherits the %s of the routine that used the slot before - a GOTO to a mark that only '
                        'an earlier program defines is accepted and lands in that program' % (sorted(written), missing, '/'.join(missing)), 'Compiler/src/gen.cpp:%d' % psf['loc'][1],
                        witness={'input': 'PROGRAM a IN x DO m: x0 := x END; PROGRAM b IN x DO GOTO m END; x1 := b(1)'} if missing else None)
    # names are compared exactly: the routine table (and every other string-keyed table of the generator) uses the default order
    from .genrules import lossy_key_orders
    lko = lossy_key_orders(gf)
    E.check(not lko, 'routine table: keys', 'no string-keyed container of the generator is ordered by a case-folding or partial comparator',
            '%s %s is ordered by %s, which compares through %s: program names that differ only in what it ignores denote one routine - a call of an undefined name is accepted, '
            'a valid call is checked against the wrong parameter list' % (lko[0][0] if lko else '', lko[0][1] if lko else '', lko[0][2] if lko else '', '/'.join(lko[0][3]) if lko else ''),
            'Compiler/src/gen.cpp', witness={'input': 'PROGRAM Add IN a, b DO x0 := a END; x1 := RUN add WITH 2, 3 END'} if lko else None)
    # literal range: the NUMBER case converts through the checked conversion
    num_ok = False
    for st in walk_stmts(dv['body']):
        if st['k'] == 'switch':
            for c in st['cases']:
                if any(isinstance(l, dict) and l.get('name') == 'NUMBER' for l in c['labels']):
                    calls = [e for s in c['s'] for e in walk_all_exprs(s) if e.get('k') == 'call' and e.get('callee_in_repo') and 'strToInt' in (e.get('callee') or '')]
                    if len(calls) == 1:
                        from .props_gen import checked_conversion, conversion_sites
                        sites = [(f2, c2) for f2, c2 in conversion_sites(gf, ('gen.cpp',)) if f2['q'] == calls[0]['callee']]
                        res = [checked_conversion(MG.gm, f2, c2)[0] for f2, c2 in sites]
                        num_ok = bool(res) and all(r is True for r in res)
                        if any(r is None for r in res):
                            num_ok = None
    if num_ok is None:
        E.unknown('dispatchValue: literal range', 'the range test of the literal conversion compares with a value the checker cannot evaluate')
        num_ok = True
    E.check(num_ok, 'dispatchValue: literal range', 'NUMBER -> conversion that records an error for values >= 2^31-1', 'an out-of-range literal is accepted silently',
            'Compiler/src/gen.cpp:%d' % dv['loc'][1])


def find_start(sk):
    """the grammar function parse() calls first (the start symbol)"""
    parse = sk.facts.fn('Theo::parse')
    for e in walk_all_exprs(parse['body']):
        if e.get('k') == 'call' and (e.get('callee') or '') in sk.grammar_fns:
            return e['callee']
    raise AnalysisBroken('parse() calls no grammar function (anchor vanished)')
