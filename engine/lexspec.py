"""E5 `lexspec`: the scanner specification as an automaton.

* parser for the flex subset used by Compiler/src/lexer.l (definitions, {name}, classes, escapes, | * + ?, .)
* Thompson NFA -> subset-construction DFA over bytes, flex disambiguation (longest match, earliest rule)
* finite-language enumeration per rule (keyword tables)
* decoder for flex 2.6.4's compressed tables in the committed lex.yy.c and a product-construction
  equivalence check against the spec DFA
Unsupported flex features (start conditions, trailing context, {n,m}, quoted strings) raise
AnalysisBroken - the checks then exit 2 instead of guessing."""
import os
import re

from .facts import AnalysisBroken


class FlexSpec:
    def __init__(self, path):
        self.path = path
        self.text = open(path, encoding='latin1').read()
        self.defs = {}
        self.options = set()
        self.rules = []       # dict(pattern, action, line)
        self.prologue = []
        self._parse()

    def _parse(self):
        lines = self.text.split('\n')
        sec = 0
        in_block = False
        pending = None
        for i, ln in enumerate(lines, 1):
            if ln.strip() == '%%':
                sec += 1
                continue
            if sec == 0:
                if ln.startswith('%{'):
                    in_block = True
                    continue
                if ln.startswith('%}'):
                    in_block = False
                    continue
                if in_block:
                    self.prologue.append(ln)
                    continue
                if getattr(self, '_in_comment', False):
                    # a C comment in the definitions section is copied to the output, it defines nothing
                    if '*/' in ln:
                        self._in_comment = False
                    continue
                if ln.lstrip().startswith('/*'):
                    if '*/' not in ln:
                        self._in_comment = True
                    continue
                if ln.startswith('%option'):
                    for o in ln[len('%option'):].split():
                        self.options.add(o)
                    continue
                if ln.startswith('%'):
                    raise AnalysisBroken('lexer.l:%d unsupported directive %s' % (i, ln.split()[0]))
                if not ln.strip() or ln[0] in ' \t':
                    continue
                m = re.match(r'([A-Za-z_][A-Za-z0-9_-]*)\s+(.*\S)\s*$', ln)
                if not m:
                    raise AnalysisBroken('lexer.l:%d cannot parse definition' % i)
                self.defs[m.group(1)] = m.group(2)
            elif sec == 1:
                if pending is not None:
                    # continuation of a brace-delimited action spanning several lines
                    pending['action'] += '\n' + ln
                    if self._balanced(pending['action']):
                        pending = None
                    continue
                if not ln.strip():
                    continue
                if ln[0] in ' \t':
                    raise AnalysisBroken('lexer.l:%d indented code in the rules section is not supported' % i)
                pat, act = self._split_rule(ln, i)
                self.rules.append({'pattern': pat, 'action': act.strip(), 'line': i})
                if not self._balanced(act):
                    pending = self.rules[-1]
        if pending is not None:
            raise AnalysisBroken('lexer.l:%d action is not closed' % pending['line'])
        if sec < 1 or not self.rules:
            raise AnalysisBroken('lexer.l: no rules section')

    @staticmethod
    def _balanced(act):
        """braces balanced outside character/string literals and comments"""
        depth = 0
        i = 0
        n = len(act)
        while i < n:
            c = act[i]
            if c == '/' and act[i:i + 2] == '/*':
                j = act.find('*/', i + 2)
                if j < 0:
                    return False
                i = j + 2
                continue
            if c == '/' and act[i:i + 2] == '//':
                j = act.find('\n', i)
                i = n if j < 0 else j
                continue
            if c in '"\'':
                j = i + 1
                while j < n and act[j] != c:
                    j += 2 if act[j] == '\\' else 1
                i = j + 1
                continue
            if c == '{':
                depth += 1
            elif c == '}':
                depth -= 1
            i += 1
        return depth == 0

    def _split_rule(self, ln, lineno):
        i = 0
        in_class = False
        while i < len(ln):
            c = ln[i]
            if c == '\\':
                i += 2
                continue
            if in_class:
                if c == ']':
                    in_class = False
            elif c == '[':
                in_class = True
            elif c == '"':
                raise AnalysisBroken('lexer.l:%d quoted strings in patterns are not supported' % lineno)
            elif c in ' \t':
                return ln[:i], ln[i:]
            i += 1
        return ln, ''

    def token_of(self, rule):
        """'X' for {TOK(Theo::Token::Type::X)}, None for a skip action {}, False otherwise"""
        a = rule['action'].replace(' ', '')
        if a in ('{}', ''):
            return None
        body = re.sub(r'/\*.*?\*/', '', rule['action'], flags=re.S)
        if 'TOK' not in body and 'return' not in body and 'ret' not in re.findall(r'[A-Za-z_]+', body):
            return None      # code that neither returns nor produces a token: a skip with bookkeeping
        m = re.fullmatch(r'\{TOK\(Theo::Token::(?:Type::)?([A-Za-z_0-9]+)\);?\}', a)
        if m:
            return m.group(1)
        return False


# ----------------------------------------------------------------------------- regex -> NFA
class NFA:
    def __init__(self):
        self.eps = []      # state -> set(state)
        self.trans = []    # state -> list of (frozenset(bytes), state)
        self.accept = {}   # state -> rule index

    def new(self):
        self.eps.append(set())
        self.trans.append([])
        return len(self.eps) - 1


ALLBYTES = frozenset(range(256))


class RegexParser:
    def __init__(self, spec, nfa):
        self.spec, self.nfa = spec, nfa

    def parse(self, pat, depth=0):
        self.s = pat
        self.i = 0
        self.depth = depth
        frag = self.alt()
        if self.i != len(self.s):
            raise AnalysisBroken('lexer.l: cannot parse pattern %r at %d' % (pat, self.i))
        return frag

    def peek(self):
        return self.s[self.i] if self.i < len(self.s) else None

    def alt(self):
        frags = [self.concat()]
        while self.peek() == '|':
            self.i += 1
            frags.append(self.concat())
        if len(frags) == 1:
            return frags[0]
        s, e = self.nfa.new(), self.nfa.new()
        for a, b in frags:
            self.nfa.eps[s].add(a)
            self.nfa.eps[b].add(e)
        return s, e

    def concat(self):
        frags = []
        while self.peek() is not None and self.peek() not in '|)':
            frags.append(self.repeat())
        if not frags:
            s = self.nfa.new()
            return s, s
        s, e = frags[0]
        for a, b in frags[1:]:
            self.nfa.eps[e].add(a)
            e = b
        return s, e

    def repeat(self):
        a, b = self.atom()
        while self.peek() in ('*', '+', '?'):
            op = self.s[self.i]
            self.i += 1
            s, e = self.nfa.new(), self.nfa.new()
            self.nfa.eps[s].add(a)
            self.nfa.eps[b].add(e)
            if op in '*?':
                self.nfa.eps[s].add(e)
            if op in '*+':
                self.nfa.eps[b].add(a)
            a, b = s, e
        if self.peek() == '{' and re.match(r'\{\d', self.s[self.i:]):
            raise AnalysisBroken('lexer.l: {n,m} repetition is not supported')
        return a, b

    def esc(self):
        c = self.s[self.i]
        self.i += 1
        return {'n': 10, 't': 9, 'r': 13, 'f': 12, 'v': 11, 'a': 7, 'b': 8, '0': 0}.get(c, ord(c))

    def lit(self, byteset):
        s, e = self.nfa.new(), self.nfa.new()
        self.nfa.trans[s].append((frozenset(byteset), e))
        return s, e

    def atom(self):
        c = self.peek()
        if c == '(':
            self.i += 1
            f = self.alt()
            if self.peek() != ')':
                raise AnalysisBroken('lexer.l: unbalanced parenthesis in %r' % self.s)
            self.i += 1
            return f
        if c == '[':
            self.i += 1
            neg = False
            if self.peek() == '^':
                neg = True
                self.i += 1
            bs = set()
            first = True
            while self.peek() is not None and (self.peek() != ']' or first):
                first = False
                ch = self.s[self.i]
                self.i += 1
                lo = self.esc() if ch == '\\' else ord(ch)
                if self.peek() == '-' and self.i + 1 < len(self.s) and self.s[self.i + 1] != ']':
                    self.i += 1
                    ch2 = self.s[self.i]
                    self.i += 1
                    hi = self.esc() if ch2 == '\\' else ord(ch2)
                    bs |= set(range(lo, hi + 1))
                else:
                    bs.add(lo)
            if self.peek() != ']':
                raise AnalysisBroken('lexer.l: unterminated class in %r' % self.s)
            self.i += 1
            return self.lit(ALLBYTES - bs if neg else bs)
        if c == '{':
            m = re.match(r'\{([A-Za-z_][A-Za-z0-9_-]*)\}', self.s[self.i:])
            if not m:
                raise AnalysisBroken('lexer.l: unsupported use of { in %r' % self.s)
            name = m.group(1)
            if name not in self.spec.defs:
                raise AnalysisBroken('lexer.l: undefined name {%s}' % name)
            if self.depth > 10:
                raise AnalysisBroken('lexer.l: definitions nested too deeply')
            self.i += len(m.group(0))
            sub = RegexParser(self.spec, self.nfa)
            return sub.parse(self.spec.defs[name], self.depth + 1)
        if c == '.':
            self.i += 1
            return self.lit(ALLBYTES - {10})
        if c == '\\':
            self.i += 1
            return self.lit({self.esc()})
        if c == '<' and self.depth == 0 and self.i == 0:
            raise AnalysisBroken('lexer.l: start conditions are not supported (%r)' % self.s)
        if c in '^$/"':
            raise AnalysisBroken('lexer.l: unsupported regex feature %r in %r' % (c, self.s))
        self.i += 1
        return self.lit({ord(c)})


class DFA:
    def __init__(self, nfa, start):
        self.nfa = nfa
        self.states = []        # frozenset of nfa states
        self.index = {}
        self.delta = []         # state -> list[256] of next state or -1
        self.accept = []        # state -> rule index or None
        self._closure_cache = {}
        s0 = self.closure(frozenset([start]))
        self._add(s0)
        i = 0
        while i < len(self.states):
            S = self.states[i]
            row = [-1] * 256
            # group by byte
            moves = {}
            for q in S:
                for bs, t in nfa.trans[q]:
                    for b in bs:
                        moves.setdefault(b, set()).add(t)
            cache = {}
            for b, tg in moves.items():
                key = frozenset(tg)
                if key not in cache:
                    cache[key] = self._add(self.closure(key))
                row[b] = cache[key]
            self.delta.append(row)
            i += 1

    def closure(self, S):
        if S in self._closure_cache:
            return self._closure_cache[S]
        st = list(S)
        seen = set(S)
        while st:
            q = st.pop()
            for t in self.nfa.eps[q]:
                if t not in seen:
                    seen.add(t)
                    st.append(t)
        r = frozenset(seen)
        self._closure_cache[S] = r
        return r

    def _add(self, S):
        if S in self.index:
            return self.index[S]
        self.index[S] = len(self.states)
        self.states.append(S)
        acc = [self.nfa.accept[q] for q in S if q in self.nfa.accept]
        self.accept.append(min(acc) if acc else None)
        return self.index[S]

    def longest(self, data, pos=0):
        """(length, rule) of flex's match at data[pos:], or (0, None)"""
        s = 0
        best = (0, None)
        i = pos
        while i < len(data):
            s = self.delta[s][data[i]]
            if s < 0:
                break
            i += 1
            if self.accept[s] is not None:
                best = (i - pos, self.accept[s])
        return best


def build(spec):
    nfa = NFA()
    start = nfa.new()
    for idx, r in enumerate(spec.rules):
        p = RegexParser(spec, nfa)
        a, b = p.parse(r['pattern'])
        nfa.eps[start].add(a)
        nfa.accept[b] = idx
    return DFA(nfa, start)


def rule_language(spec, idx, limit=200):
    """finite language of one rule as a sorted list of byte strings, or None when infinite / too large"""
    nfa = NFA()
    start = nfa.new()
    p = RegexParser(spec, nfa)
    a, b = p.parse(spec.rules[idx]['pattern'])
    nfa.eps[start].add(a)
    nfa.accept[b] = 0
    d = DFA(nfa, start)
    # cycle reachable and co-reachable -> infinite
    n = len(d.states)
    succ = [set(t for t in row if t >= 0) for row in d.delta]
    co = set(i for i in range(n) if d.accept[i] is not None)
    changed = True
    while changed:
        changed = False
        for i in range(n):
            if i not in co and succ[i] & co:
                co.add(i)
                changed = True
    out = []

    def dfs(s, path, onstack):
        if len(out) > limit:
            return False
        if d.accept[s] is not None:
            out.append(bytes(path))
        for b2 in range(256):
            t = d.delta[s][b2]
            if t < 0 or t not in co:
                continue
            if t in onstack:
                return False
            onstack.add(t)
            ok = dfs(t, path + [b2], onstack)
            onstack.discard(t)
            if ok is False:
                return False
        return True
    if dfs(0, [], {0}) is False:
        return None
    return sorted(set(out))


def eol_witness(spec, idx, dfa=None):
    """a string containing a newline that the scanner returns as one match of rule idx (when followed by end of input),
    or None when rule idx can never win with a newline inside its match"""
    d = dfa or build(spec)
    seen = {(0, False): b''}
    work = [(0, False)]
    while work:
        s0, nl = work.pop(0)
        path = seen[(s0, nl)]
        if nl and d.accept[s0] == idx:
            return path
        for b in range(1, 256):
            t = d.delta[s0][b]
            if t < 0:
                continue
            key = (t, nl or b == 10)
            if key not in seen:
                seen[key] = path + bytes([b])
                work.append(key)
    return None


# ----------------------------------------------------------------------------- flex table decoder
def parse_tables(cfile):
    txt = open(cfile, encoding='latin1').read()
    tabs = {}
    full = re.search(r'static const \w+ yy_nxt\[\]\[(\d+)\] =\s*\{(.*?)\}\s*;', txt, re.S)
    if full:
        # flex -Cf / -CF style: uncompressed two-dimensional transition table
        width = int(full.group(1))
        rows = [[int(x) for x in re.findall(r'-?\d+', r)] for r in re.findall(r'\{([^{}]*)\}', full.group(2))]
        if not rows or any(len(r) != width for r in rows):
            raise AnalysisBroken('lex.yy.c: malformed full transition table')
        m = re.search(r'static const \w+ yy_accept\[(\d+)\] =\s*\{(.*?)\}\s*;', txt, re.S)
        if not m:
            raise AnalysisBroken('lex.yy.c: table yy_accept not found')
        tabs['yy_accept'] = [int(x) for x in re.findall(r'-?\d+', m.group(2))]
        tabs['mode'] = 'full'
        tabs['nxt2'] = rows
        tabs['width'] = width
        nr = re.search(r'#define YY_NUM_RULES (\d+)', txt)
        start = re.search(r'yyg->yy_start = (\d+);', txt)
        tabs['num_rules'] = int(nr.group(1)) if nr else None
        tabs['start'] = int(start.group(1)) if start else 1
        tabs['jam'] = -1
        if not re.search(r'yy_current_state = yy_nxt\[yy_current_state\]\[\s*YY_SC_TO_UI\(\*yy_cp\)\s*\]\) > 0', txt):
            raise AnalysisBroken('lex.yy.c: full-table match loop has an unexpected form')
        return tabs
    tabs['mode'] = 'compressed'
    tabs['width'] = 256
    for name in ('yy_accept', 'yy_ec', 'yy_meta', 'yy_base', 'yy_def', 'yy_nxt', 'yy_chk'):
        m = re.search(r'static const \w+ %s\[(\d+)\] =\s*\{(.*?)\}\s*;' % name, txt, re.S)
        if not m:
            raise AnalysisBroken('lex.yy.c: table %s not found' % name)
        vals = [int(x) for x in re.findall(r'-?\d+', m.group(2))]
        if len(vals) != int(m.group(1)):
            raise AnalysisBroken('lex.yy.c: table %s has %d entries, declared %s' % (name, len(vals), m.group(1)))
        tabs[name] = vals
    m = re.search(r'yy_match:(.*?)yy_find_action:', txt, re.S)
    if not m:
        raise AnalysisBroken('lex.yy.c: match loop not found')
    loop = m.group(1)
    thr = re.search(r'if \( yy_current_state >= (\d+) \)', loop)
    jam = re.search(r'while \( yy_current_state != (\d+) \)', loop)
    if not thr or not jam:
        raise AnalysisBroken('lex.yy.c: match loop has an unexpected form (template threshold / jam state)')
    nr = re.search(r'#define YY_NUM_RULES (\d+)', txt)
    start = re.search(r'yyg->yy_start = (\d+);', txt)
    tabs['threshold'] = int(thr.group(1))
    tabs['jam'] = int(jam.group(1))
    tabs['num_rules'] = int(nr.group(1)) if nr else None
    tabs['start'] = int(start.group(1)) if start else 1
    return tabs


def table_step(t, s, byte):
    if t.get('mode') == 'full':
        v = t['nxt2'][s][byte]
        return v if v > 0 else t['jam']
    c = t['yy_ec'][byte]
    while t['yy_chk'][t['yy_base'][s] + c] != s:
        s = t['yy_def'][s]
        if s >= t['threshold']:
            c = t['yy_meta'][c]
    return t['yy_nxt'][t['yy_base'][s] + c]


def equivalent(dfa, t):
    """product construction over bytes 1..255; returns (ok, witness, pairs explored)"""
    start = (0, t['start'])
    seen = {start: b''}
    work = [start]
    while work:
        a, b = work.pop()
        path = seen[(a, b)]
        la = dfa.accept[a]
        lb = t['yy_accept'][b]
        la1 = 0 if la is None else la + 1
        if la1 != lb and (a, b) != start:
            return False, (path, 'spec accepts rule %s, committed tables accept rule %s' % (la1 or None, lb or None)), len(seen)
        for byte in range(1, 256):
            na = dfa.delta[a][byte]
            if byte >= t.get('width', 256) or (t.get('mode') != 'full' and byte >= len(t.get('yy_ec') or [])):
                if t.get('mode') != 'full' and byte < t.get('width', 256):
                    return False, (path + bytes([byte]), 'the committed equivalence-class table yy_ec has only %d entries (7-bit scanner): byte 0x%02x indexes outside it' % (
                        len(t.get('yy_ec') or []), byte)), len(seen)
                return False, (path + bytes([byte]), 'the committed transition table is only %d columns wide (7-bit scanner): byte 0x%02x indexes outside it, '
                                                     'the specification %s' % (t['width'], byte, 'has no transition either' if na < 0 else 'continues')), len(seen)
            nb = table_step(t, b, byte)
            ja, jb = na < 0, nb == t['jam']
            if ja != jb:
                return False, (path + bytes([byte]), 'spec %s, committed tables %s' % ('jams' if ja else 'continue', 'jam' if jb else 'continue')), len(seen)
            if ja:
                continue
            if (na, nb) not in seen:
                seen[(na, nb)] = path + bytes([byte])
                work.append((na, nb))
    return True, None, len(seen)


def single_dfa(spec, pattern):
    nfa = NFA()
    start = nfa.new()
    p = RegexParser(spec, nfa)
    a, b = p.parse(pattern)
    nfa.eps[start].add(a)
    nfa.accept[b] = 0
    return DFA(nfa, start)


def dfa_equal(d1, d2):
    """language equality of two DFAs; returns (True, None) or (False, shortest-ish witness bytes)"""
    seen = {(0, 0): b''}
    work = [(0, 0)]
    while work:
        a, b = work.pop(0)
        path = seen[(a, b)]
        acc_a = a >= 0 and d1.accept[a] is not None
        acc_b = b >= 0 and d2.accept[b] is not None
        if acc_a != acc_b:
            return False, path
        for byte in range(256):
            na = d1.delta[a][byte] if a >= 0 else -1
            nb = d2.delta[b][byte] if b >= 0 else -1
            if na < 0 and nb < 0:
                continue
            if (na, nb) not in seen:
                seen[(na, nb)] = path + bytes([byte])
                work.append((na, nb))
    return True, None
