"""C01 (compiled programs compute the reference semantics) - PARTIAL: the compositional
ingredients whose truth is visible in the code: (a) every opcode handler meets its ISA contract,
(b) opcode exhaustiveness and progress, (c) encoder/decoder agreement on the instruction union,
(d) node-kind exhaustiveness of the dispatchers, (e) lowering order obligations per construct,
(f) temporaries are not used after release, (g) frames are zero-initialised.
NOT decided: end-to-end equality of final values for all programs, register allocation never
clobbering a live value in general, the step-budget sentence."""
import os

from .facts import (Facts, AnalysisBroken, walk_expr, walk_all_exprs, walk_stmts, show, strip_casts, strip_copies, strip_conv, member_path)
from .genrules import GenModel, callers_of, field_chain, is_call, guarded, guard_implies
from .symex import C, INT_MAX, is_const, lin_parts, t_add, t_show, lp_show, Val
from .vmfx import VMModel
from .props_gen import (Prov, chain_check, find_factory_ev, enclosing_emit, loop_rules, W)


def strip_clamps(t):
    """returns (inner term, truncated_at_zero, upper_saturated)"""
    lower = upper = False
    while isinstance(t, tuple):
        if t[0] == 'max' and (t[1] == C(0) or t[2] == C(0)):
            t = t[2] if t[1] == C(0) else t[1]
            lower = True
        elif t[0] == 'min' and any(is_const(x) and x[1] >= INT_MAX for x in t[1:3]):
            t = t[2] if (is_const(t[1]) and t[1][1] >= INT_MAX) else t[1]
            upper = True
        elif t[0] == 'clamp' and t[2] == C(0) and is_const(t[3]) and t[3][1] >= INT_MAX:
            t = t[1]
            lower = upper = True
        elif t[0] == 'ite':
            # saturating forms written with ?: are not decomposed
            break
        else:
            break
    return t, lower, upper


def c01(rep, tier):
    vm = VMModel(extra_units=['VM/src/instr.cpp', 'VM/src/program.cpp'])
    rep.note_facts(vm.facts)
    isa = vm.isa
    groups = vm.handler_paths()
    es = vm.method('executeSingle')
    rep.analysed(es)
    dlp, slp, iplp = vm.lp('data'), vm.lp('stack'), vm.lp('ip')
    WV = 'VM/src/vm.cpp:%d' % es['loc'][1]

    def data_loc(idx):
        frame, others, c = vm.data_index(idx)
        if frame is None or c != 0 or len(others) != 1 or others[0][1] != 1:
            return None
        o = vm.operand_of(others[0][0])
        af = vm.act_field(others[0][0])
        if o:
            return (frame, o)
        if af and af[0] == 0:
            return (frame, 'act:' + af[1])
        return None

    def load_loc(t):
        if isinstance(t, tuple) and t and t[0] == 'ld' and t[1] == dlp and t[3] == 0:
            return data_loc(t[2])
        return None
    A = rep.rule('C01.a', 'every opcode handler meets its ISA contract (locations written and read, frame roles, polarity, ip, result)', floor=12)
    # an enumerator that no expression of the library ever mentions (outside case labels) cannot occur in a program: a reserved opcode
    mentioned = set()
    for fx_ in (vm.facts, Facts(['Compiler/src/gen.cpp'])):
        for f_ in fx_.functions:
            if f_.get('body') is None or f_['tmpl'] == 'pattern':
                continue
            for x_ in walk_all_exprs(f_['body']):
                if x_.get('k') == 'ref' and x_.get('dk') == 'enumerator' and (x_.get('q') or '').startswith('Theo::OpCode::'):
                    mentioned.add(x_['name'])
    for op in vm.opcodes:
        spec = isa['handlers'].get(op)
        ps = groups.get(op, [])
        inst = 'executeSingle/%s' % op
        if spec is None and op not in mentioned:
            A.ok(inst, 'reserved opcode: not part of the ISA (spec/isa.json) and no expression of the compiler or the VM creates it', WV)
            continue
        if spec is None:
            A.unknown(inst, 'no contract for this opcode in spec/isa.json')
            continue
        if not ps:
            A.violation(inst, 'no handler: the VM neither advances nor stops on this opcode', WV)
            continue
        why = []
        for s in ps:
            unk = [ef for ef in s.p.effects if ef[0] == 'unknown' or (ef[0] == 'call')]
            if unk:
                A.unknown(inst, 'handler contains an unmodelled effect: %s' % (unk[0][1],))
                why = None
                break
            # ---- ip
            ipv = s.final('ip')
            ipspec = spec['ip']
            ipt = ipv.term if ipv is not None else None
            if ipspec == 'next':
                if ipt != t_add(vm.ip0(), C(1)):
                    why.append('ip becomes %s, contract: ip+1' % (t_show(ipt) if ipt else 'unchanged'))
            elif ipspec == 'same':
                if ipt is not None and ipt != vm.ip0():
                    why.append('ip becomes %s, contract: unchanged' % t_show(ipt))
            elif isinstance(ipspec, dict) and 'offset' in ipspec:
                c, atoms = lin_parts(ipt) if ipt is not None else (0, {})
                ok = ipt is not None and c == 0 and len(atoms) == 2 and atoms.get(vm.ip0()) == 1 and \
                    [vm.operand_of(a) for a in atoms if a != vm.ip0()] == [ipspec['offset']]
                if not ok:
                    why.append('ip becomes %s, contract: ip + %s' % (t_show(ipt) if ipt else 'unchanged', ipspec['offset']))
            elif isinstance(ipspec, dict) and 'operand' in ipspec:
                if ipt is None or vm.operand_of(ipt) != ipspec['operand']:
                    why.append('ip becomes %s, contract: %s' % (t_show(ipt) if ipt else 'unchanged', ipspec['operand']))
            elif isinstance(ipspec, dict) and 'act_field' in ipspec:
                if ipt is None or vm.act_field(ipt) != (0, ipspec['act_field']):
                    why.append('ip becomes %s, contract: %s of the finished activation' % (t_show(ipt) if ipt else 'unchanged', ipspec['act_field']))
            elif isinstance(ipspec, dict) and 'if_zero' in ipspec:
                # the two outcomes: either two paths split by the test, or one path with ip = ite(test, a, b)
                outcomes = []

                def polarity_of(t, pol):
                    if isinstance(t, tuple) and t[0] == 'not':
                        return polarity_of(t[1], not pol)
                    if isinstance(t, tuple) and t[0] == 'cmp' and t[1] in ('==', '!='):
                        a, b = t[2], t[3]
                        other = b if a == C(0) else (a if b == C(0) else None)
                        if other is not None and load_loc(other) == (ipspec['if_zero']['frame'], ipspec['if_zero']['reg']):
                            return (t[1] == '==') == pol
                    return None
                if isinstance(ipt, tuple) and ipt[0] == 'lin':
                    # ip += test ? offset : 1   ->   ip = test ? ip + offset : ip + 1
                    from .symex import lin_parts as _lp, mk_lin as _ml, t_add as _ta
                    c_, atoms_ = _lp(ipt)
                    ites = [a_ for a_, k_ in atoms_.items() if isinstance(a_, tuple) and a_ and a_[0] == 'ite' and k_ == 1]
                    if len(ites) == 1:
                        rest = _ml(c_, {a_: k_ for a_, k_ in atoms_.items() if a_ is not ites[0]})
                        ipt = ('ite', ites[0][1], _ta(rest, ites[0][2]), _ta(rest, ites[0][3]))
                if isinstance(ipt, tuple) and ipt[0] == 'ite':
                    z = polarity_of(ipt[1], True)
                    if z is not None:
                        outcomes = [(z, ipt[2]), (not z, ipt[3])]
                else:
                    for t, pol in s.guards:
                        z = polarity_of(t, pol)
                        if z is not None:
                            outcomes = [(z, ipt)]
                if not outcomes:
                    why.append('ip is not decided by "%s == 0": ip = %s under guards %s' % (ipspec['if_zero']['reg'], t_show(ipt) if ipt else 'unchanged', [(t_show(t), p) for t, p in s.guards]))
                for zero, it in outcomes:
                    c, atoms = lin_parts(it) if it is not None else (0, {})
                    jumped = it is not None and c == 0 and len(atoms) == 2 and atoms.get(vm.ip0()) == 1 and \
                        [vm.operand_of(a) for a in atoms if a != vm.ip0()] == [ipspec['then_offset']]
                    stepped = it == t_add(vm.ip0(), C(1))
                    if zero and not jumped:
                        why.append('when the register is zero ip becomes %s, contract: ip + %s' % (t_show(it) if it else 'unchanged', ipspec['then_offset']))
                    if not zero and not stepped:
                        why.append('when the register is non-zero ip becomes %s, contract: ip+1' % (t_show(it) if it else 'unchanged'))
            # ---- returns
            r = s.ret()
            want = spec['returns']
            if want in ('true', 'false'):
                if r is None or r.term != C(1 if want == 'true' else 0):
                    why.append('returns %s, contract: %s' % (t_show(r.term) if r else None, want))
            # ---- data stores
            dops = s.p.vec.get(dlp).ops if dlp in s.p.vec else []
            stores = [o for o in dops if o[0] == 'store']
            wstores = spec.get('stores', [])
            if len(stores) != len(wstores):
                why.append('%d store(s) into data, contract: %d' % (len(stores), len(wstores)))
            else:
                for o, w in zip(stores, wstores):
                    loc = data_loc(o[1].term)
                    wloc = (w['frame'], w.get('reg') or ('act:' + w['reg_act_field']))
                    if loc != wloc:
                        why.append('stores to %s, contract: frame %d + %s' % (loc or t_show(o[1].term), wloc[0], wloc[1]))
                    v = w['value']
                    vt = o[2].term
                    if v['kind'] == 'operand':
                        if vm.operand_of(vt) != v['name']:
                            why.append('stores %s, contract: operand %s' % (t_show(vt), v['name']))
                    elif v['kind'] == 'load':
                        if load_loc(vt) != (v['frame'], v['reg']):
                            why.append('stores %s, contract: value of frame %d + %s' % (t_show(vt), v['frame'], v['reg']))
                    elif v['kind'] == 'test':
                        okt = False
                        if isinstance(vt, tuple) and vt[0] == 'not' and isinstance(vt[1], tuple) and vt[1][0] == 'cmp' and vt[1][1] in ('==', '!='):
                            vt = ('cmp', '!=' if vt[1][1] == '==' else '==', vt[1][2], vt[1][3])
                        if isinstance(vt, tuple) and vt[0] == 'cmp' and vt[1] in ('==', '!=') and len(vt) == 4:
                            vt = ('ite', vt, C(1), C(0))      # a comparison stored as a number: 1 when it holds, 0 otherwise
                        if isinstance(vt, tuple) and vt[0] == 'ite' and isinstance(vt[1], tuple) and vt[1][0] == 'cmp' and vt[1][1] in ('==', '!='):
                            locs = sorted([load_loc(vt[1][2]) or (9, '?'), load_loc(vt[1][3]) or (9, '?')])
                            wl = sorted([(0, v['a']), (0, v['b'])])
                            eq_val, ne_val = (vt[2], vt[3]) if vt[1][1] == '==' else (vt[3], vt[2])
                            okt = locs == wl and eq_val == C(v['equal']) and ne_val == C(v['different'])
                        if not okt:
                            why.append('stores %s, contract: %d if %s == %s else %d' % (t_show(vt), v['equal'], v['a'], v['b'], v['different']))
                    elif v['kind'] == 'add_trunc':
                        inner, lower, upper = strip_clamps(vt)
                        # the saturation may be written as an if-chain (one path per branch): the guards of this path then say which
                        # piece of max(min(sum, INT_MAX), 0) it is
                        for gt, gpol in s.p.guards:
                            if not (isinstance(gt, tuple) and gt[0] == 'cmp' and len(gt) == 4):
                                continue
                            op_, a_, b_ = gt[1], gt[2], gt[3]
                            if is_const(a_) and not is_const(b_):
                                a_, b_ = b_, a_
                                op_ = {'<': '>', '>': '<', '<=': '>=', '>=': '<='}.get(op_, op_)
                            if not is_const(b_):
                                continue
                            below = (op_ == '<' and b_[1] == 0) or (op_ == '<=' and b_[1] == -1)
                            above = (op_ == '>' and b_[1] >= INT_MAX) or (op_ == '>=' and b_[1] > INT_MAX)
                            if below and gpol and vt == C(0):
                                inner, lower = a_, True          # the branch "sum < 0": stores 0
                            elif below and not gpol and a_ == inner:
                                lower = True                     # the branch "sum >= 0": stores the sum
                            elif above and gpol and is_const(vt) and vt[1] == INT_MAX:
                                inner, upper = a_, True
                                lower = lower or any(isinstance(g2, tuple) and g2[0] == 'cmp' and g2[2] == a_ and g2[1] == '<' and g2[3] == C(0) and not p2 for g2, p2 in s.p.guards)
                            elif above and not gpol and a_ == inner:
                                upper = True
                        c, atoms = lin_parts(inner)
                        okat = c == 0 and len(atoms) == 2 and all(k == 1 for k in atoms.values())
                        if okat:
                            kinds = sorted(str(load_loc(a) or vm.operand_of(a)) for a in atoms)
                            okat = kinds == sorted([str((v['frame'], v['reg'])), v['const']])
                        if not okat:
                            why.append('stores %s, contract: max(%s + %s, 0)' % (t_show(vt), v['reg'], v['const']))
                        elif not lower:
                            why.append('the sum is not truncated at zero: x - c can become negative')
            # ---- stack
            sops = s.p.vec.get(slp).ops if slp in s.p.vec else []
            sspec = spec['stack']
            actw = [ef for ef in s.p.effects if ef[0] == 'write' and ef[1][:len(slp)] == slp]
            if sspec == 'same':
                if sops or actw:
                    why.append('activation stack modified (%s), contract: unchanged' % ([o[0] for o in sops] + [lp_show(w[1]) for w in actw]))
            elif sspec == 'pop':
                if [o[0] for o in sops] != ['pop']:
                    why.append('activation stack ops %s, contract: one pop' % [o[0] for o in sops])
            elif isinstance(sspec, dict) and 'push' in sspec:
                pushes = [o for o in sops if o[0] == 'push']
                if len(pushes) != 1 or len(sops) != 1 or not pushes[0][1].struct:
                    why.append('activation stack ops %s, contract: one push' % [o[0] for o in sops])
                else:
                    st = pushes[0][1].struct
                    for fld, src in sspec['push'].items():
                        got = st.get(fld)
                        okp = got is not None and ((src == 'old_size' and got.term == ('size', dlp, 0)) or vm.operand_of(got.term) == src)
                        if not okp:
                            why.append('new activation has %s = %s, contract: %s' % (fld, t_show(got.term) if got else None, src))
            elif isinstance(sspec, dict) and 'set_top_field' in sspec:
                fld = list(sspec['set_top_field'])[0]
                okw = len(actw) == 1 and not sops and actw[0][1] == slp + (('top0', 0), ('f', fld)) and actw[0][2].term == t_add(vm.ip0(), C(1))
                if not okw:
                    why.append('contract: top activation.%s := ip+1; found %s' % (fld, [(lp_show(w[1]), t_show(w[2].term)) for w in actw]))
            # ---- data shape
            dspec = spec['data']
            other = [o for o in dops if o[0] != 'store']
            if dspec == 'same' and other:
                why.append('data resized (%s), contract: size unchanged' % [o[0] for o in other])
            elif isinstance(dspec, dict) and 'append_zeros' in dspec:
                from .props_vm import growth_of
                gr = growth_of(vm, other[0]) if len(other) == 1 else None
                okd = gr is not None and vm.operand_of(gr[0]) == dspec['append_zeros'] and gr[1].term == C(0)
                if not other:
                    # nothing appended: fine on a path whose guards bound the count by zero
                    cnt = [t for t in s.p.refine if vm.operand_of(t) == dspec['append_zeros']]
                    okd = bool(cnt) and s.p.refine[cnt[0]][1] <= 0
                if not okd:
                    why.append('contract: append %s zero words; found %s' % (dspec['append_zeros'], [o[0] for o in other]))
            elif dspec == 'shrink_to_popped_frame':
                from .props_vm import shrink_target
                tg = [shrink_target(vm, s, o) for o in other]
                if [vm.act_field(t) for t in tg if t is not None] != [(0, 'data_start')]:
                    why.append('contract: shrink data to the finished activation\'s start; found %s' % [o[0] for o in other])
            # no other writes
            extra = [ef for ef in s.p.effects if ef[0] in ('write', 'assoc', 'map_subscript') and ef[1][:len(iplp)] != iplp and ef[1][:len(slp)] != slp
                     and not (ef[0] == 'write' and lp_show(ef[1]).split('.')[0].split('[')[0] in vm.roles.get('other', []))]
            if extra:
                why.append('additional effects: %s' % [lp_show(x[1]) for x in extra])
        if why is None:
            continue
        others = [n for n in vm.roles.get('other', []) if any(n in w for w in why)]
        if why and others:
            A.unknown(inst, 'the handler reads or writes VM state outside the model (%s): whether it meets the contract depends on an invariant of that '
                            'state which this rule does not decide; deviations seen: %s' % (', '.join(others), '; '.join(dict.fromkeys(why))[:300]))
            continue
        if spec['returns'] == 'stepping':
            pass   # decided by C06.a
        A.check(not why, inst, 'meets the contract in spec/isa.json (%d path(s))' % len(ps), '; '.join(dict.fromkeys(why)), WV,
                witness={'opcode': op, 'deviations': list(dict.fromkeys(why))[:4]} if why else None)
    B = rep.rule('C01.b', 'every opcode has a handler and every handler except HALT changes ip on every path', floor=12)
    for op in vm.opcodes:
        ps = groups.get(op, [])
        inst = 'executeSingle/%s: progress' % op
        if op not in mentioned and op not in isa['handlers']:
            B.ok(inst, 'reserved opcode: not part of the ISA (spec/isa.json) and no expression of the compiler or the VM creates it', WV)
            continue
        if not ps:
            B.violation(inst, 'no handler', WV)
            continue
        stuck = [s for s in ps if (s.final('ip') is None or s.final('ip').term == vm.ip0())]
        explicit = all(any(isinstance(t, tuple) and t[0] == 'switch_in' for t, pol in s.p.guards) or not any(isinstance(t, tuple) and t[0].startswith('switch') for t, pol in s.p.guards) for s in ps)
        if op == 'HALT':
            B.check(len(stuck) == len(ps), inst, 'HALT leaves ip unchanged (absorbing)', 'HALT moves ip', WV)
        else:
            B.check(not stuck and explicit, inst, 'ip changes on all %d path(s)' % len(ps),
                    'a path leaves ip unchanged%s: the VM spins on this instruction' % ('' if explicit else ' (opcode has no case in the switch)'), WV)
    # ------------------------------------------------------------------ c
    Cc = rep.rule('C01.c', 'encoder/decoder agreement: each factory sets its opcode and initialises the union member (field by field, from the '
                           'documented parameter) that the handlers, the backpatcher and the disassembler read for that opcode', floor=12)
    member_of = {}
    for name, fs in isa['factories'].items():
        f = vm.facts.fn('Theo::Instruction::' + name, optional=True)
        inst = 'Instruction::%s' % name
        if f is None:
            Cc.unknown(inst, 'factory not found')
            continue
        rep.analysed(f)
        rets = [s for s in walk_stmts(f['body']) if s['k'] == 'return']
        init = strip_copies(strip_casts(rets[0]['e'])) if len(rets) == 1 else None
        why = []
        if init is not None and init.get('k') == 'call' and init.get('obj') is None:
            # return helper(args): look through one in-repo helper with a single aggregate return
            g = vm.facts.fn(init.get('callee'), optional=True) if init.get('callee') else None
            if g is not None and g.get('body') is not None:
                grets = [s2 for s2 in walk_stmts(g['body']) if s2['k'] == 'return']
                others = [s2 for s2 in walk_stmts(g['body']) if s2['k'] not in ('return', 'block')]
                ginit = strip_copies(strip_casts(grets[0]['e'])) if len(grets) == 1 and not others else None
                if ginit is not None and ginit.get('k') == 'init' and len(init['args']) == len(g['params']):
                    mp = {p['d']: a for p, a in zip(g['params'], init['args'])}

                    def subst(x):
                        if isinstance(x, dict):
                            if x.get('k') == 'ref' and x.get('d') in mp:
                                return mp[x['d']]
                            return {k2: subst(v2) for k2, v2 in x.items()}
                        if isinstance(x, list):
                            return [subst(y) for y in x]
                        if isinstance(x, tuple):
                            return tuple(subst(y) for y in x)
                        return x
                    init = subst(ginit)
                    rep.analysed(g)
        if init is None or init.get('k') != 'init':
            Cc.unknown(inst, 'factory body is not a single aggregate return')
            continue
        # the operands are stored as given: the factory does not change a parameter on the way (the generator parks label numbers in jump operands)
        pds = {p_['d']: p_['name'] for p_ in f.get('params', [])}
        for x_ in walk_all_exprs(f['body']):
            t_ = None
            if x_.get('k') == 'assign':
                t_ = strip_casts(x_['l'])
            elif x_.get('k') == 'un' and x_.get('op') in ('++', '--'):
                t_ = strip_casts(x_['e'])
            if t_ is not None and t_.get('k') == 'ref' and t_.get('d') in pds:
                why.append('the parameter %s is changed before it is stored (%s): the instruction does not carry the operand it was given - e.g. a label number parked in a jump operand '
                           'becomes another label' % (pds[t_['d']], show(x_)[:50]))
        flds = dict(init['fields'])
        opv = strip_casts(flds.get('op'))
        if not (opv is not None and opv.get('dk') == 'enumerator' and opv['name'] == fs['op']):
            why.append('sets opcode %s, documented %s' % (show(opv), fs['op']))
        par = strip_casts(flds.get('parameters'))
        mem = par['fields'][0] if par is not None and par.get('k') == 'init' and par.get('fields') else None
        if mem is None or mem[0] != fs['member']:
            why.append('initialises union member %s, expected %s' % (mem[0] if mem else None, fs['member']))
        else:
            sub = dict(strip_casts(mem[1])['fields']) if strip_casts(mem[1]).get('k') == 'init' else {}
            for fld, pos in fs['fields'].items():
                v = strip_casts(sub.get(fld))
                okf = v is not None and v.get('dk') == 'param' and [i for i, p in enumerate(f['params']) if p['d'] == v['d']] == [pos]
                if not okf:
                    why.append('%s.%s initialised from %s, expected parameter #%d' % (fs['member'], fld, show(v), pos))
        member_of[fs['op']] = fs['member']
        Cc.check(not why, inst, 'op = %s, %s{%s} from parameters in documented order' % (fs['op'], fs['member'], ', '.join(fs['fields'])), '; '.join(why),
                 'VM/src/instr.cpp:%d' % f['loc'][1])
    # readers: executeSingle (through summaries), backpatch, gen, disassemble
    nreads = 0
    for op, ps in groups.items():
        used = set()
        for s in ps:
            def collect(t):
                if isinstance(t, tuple):
                    o = vm.operand_of(t)
                    if o:
                        used.add(o.split('.')[0])
                    for x in t[1:]:
                        if isinstance(x, tuple):
                            collect(x)
            for ef in s.p.effects:
                for x in ef:
                    if isinstance(x, Val):
                        collect(x.term)
                    elif isinstance(x, tuple):
                        collect(x)
            for t, pol in s.p.guards:
                collect(t)
            for vs in s.p.vec.values():
                for o in vs.ops:
                    for x in o:
                        if isinstance(x, Val):
                            collect(x.term)
                            if x.struct:
                                for sv in x.struct.values():
                                    collect(sv.term)
        nreads += len(used)
        want = member_of.get(op)
        okr = used <= ({want} if want and want != 'empty' else set())
        Cc.check(okr, 'executeSingle/%s reads' % op, 'reads only parameters.%s' % want if used else 'reads no operand', 'handler of %s reads union member(s) %s, the encoder fills %s' % (op, sorted(used), want), WV)
    gfacts = Facts(['Compiler/src/gen.cpp'])
    rep.note_facts(gfacts)
    for fq, unit_facts in (('GenState::backpatch', gfacts), ('Theo::Program::disassemble', vm.facts)):
        f = unit_facts.fn(fq)
        rep.analysed(f)
        for st in walk_stmts(f['body']):
            conds = []
            if st['k'] == 'if':
                c = strip_casts(st['c'])
                ops = [x['name'] for x in walk_expr(c) if x.get('k') == 'ref' and x.get('dk') == 'enumerator' and x['q'].startswith('Theo::OpCode::')]
                if c.get('k') == 'bin' and c['op'] == '==' and len(ops) == 1:
                    conds.append((ops[0], st['t']))
            if st['k'] == 'switch':
                for case in st['cases']:
                    labs = [l.get('name') for l in case['labels'] if isinstance(l, dict) and (l.get('enumerator') or '').startswith('Theo::OpCode::')]
                    if len(labs) == 1 and case['s']:
                        blk = {'k': 'block', 's': case['s'], 'sid': 0, 'loc': case['s'][0]['loc']}
                        conds.append((labs[0], blk))
            for opn, body in conds:
                used = set()
                for e in walk_all_exprs(body) if body['k'] != 'block' else [x for s2 in body['s'] for x in walk_all_exprs(s2)]:
                    if e.get('k') == 'member' and e.get('mk') == 'field':
                        root, path = field_chain(e)
                        if 'parameters' in path and path.index('parameters') + 1 < len(path):
                            used.add(path[path.index('parameters') + 1])
                want = member_of.get(opn)
                if used:
                    Cc.check(used <= {want}, '%s/%s reads' % (fq.split('::')[-1], opn), 'parameters.%s' % want,
                             '%s reads parameters.%s for opcode %s, the encoder fills %s' % (fq, sorted(used), opn, want), '%s:%d' % (os.path.relpath(f['file'], unit_facts.repo), f['loc'][1]))
    # ------------------------------------------------------------------ d
    D = rep.rule('C01.d', 'every node kind the parser can put in statement / value position has an explicit case in dispatchVoid / dispatchValue; STOP emits HALT', floor=3)
    from .nullshape import ParserShapes, GenShapes
    ps_ = ParserShapes().run()
    gs_ = GenShapes(ps_, gfacts).run()
    m = GenModel(gfacts)
    for fq in ('dispatchVoid', 'dispatchValue'):
        f = m.fn(fq)
        labels = set()
        for st in walk_stmts(f['body']):
            if st['k'] == 'switch' and show(strip_casts(st['c'])).endswith('->t'):
                for case in st['cases']:
                    labels |= set(l.get('name') for l in case['labels'] if isinstance(l, dict))
        kinds = set(k for k in gs_.kinds_seen.get(fq, set()) if k)
        if not kinds:
            D.unknown('%s: node kinds' % fq, 'the kinds of the nodes that reach %s could not be derived (the way nodes are built is not recognised)' % fq)
            continue
        D.check(kinds and kinds <= labels, '%s: node kinds' % fq, 'kinds reaching the switch %s all have a case' % sorted(kinds),
                'node kind(s) %s reach %s but have no case (they fall into the error default)' % (sorted(kinds - labels), fq), W(m, f))
    dvoid = m.fn('dispatchVoid')
    okstop = False
    for st in walk_stmts(dvoid['body']):
        if st['k'] == 'switch':
            for case in st['cases']:
                if any(isinstance(l, dict) and l.get('name') == 'STOP' for l in case['labels']):
                    okstop = any(m.is_factory(e, 'Halt') for s2 in case['s'] for e in walk_all_exprs(s2))
    D.check(okstop, 'dispatchVoid: STOP', 'emits HALT', 'STOP does not halt the machine', W(m, dvoid))
    # ------------------------------------------------------------------ e
    E = rep.rule('C01.e', 'lowering order obligations per construct (dominance chains; operands identified by the declaration they come from)', floor=25)
    prov = Prov(m)
    loop_rules(E, m, rep)
    # WHILE
    dw = m.fn('dispatchWhile')
    rep.analysed(dw)

    def wshape(fx):
        g_ = m.cfg(fx)
        return (g_, find_factory_ev(m, g_, 'JmpC'), find_factory_ev(m, g_, 'Jmp'), g_.calls_to('dispatchValue'), g_.calls_to('dispatchVoid'), g_.calls_to('GenState::setLabel'))
    g, jc, jm, dv, body, sl = wshape(dw)
    if not (len(jc) == 1 and len(jm) == 1 and len(dv) == 1 and len(body) == 1 and len(sl) == 2):
        from .inline import inlined
        dw2, names_ = inlined(m.facts, dw, rounds=2, single_use=False, want=lambda h, call: not h['q'].startswith(('dispatch', 'gen_ast')))
        if names_:
            sh2 = wshape(dw2)
            if len(sh2[1]) == 1 and len(sh2[2]) == 1 and len(sh2[3]) == 1 and len(sh2[4]) == 1 and len(sh2[5]) == 2:
                dw = dw2
                g, jc, jm, dv, body, sl = sh2
    if len(jc) == 1 and len(jm) == 1 and len(dv) == 1 and len(body) == 1 and len(sl) == 2:
        start_l, end_l = strip_casts(jm[0].e['args'][0]), strip_casts(jc[0].e['args'][0])
        s_start = [x for x in sl if m.same_var(x.e['args'][0], start_l, dw)]
        s_end = [x for x in sl if m.same_var(x.e['args'][0], end_l, dw)]
        if len(s_start) == 1 and len(s_end) == 1:
            chain_check(E, m, dw, g, [('head label', s_start[0]), ('condition -> r', dv[0]), ('JmpC(end, r)', enclosing_emit(m, g, jc[0])), ('body', body[0]),
                                      ('Jmp(head)', enclosing_emit(m, g, jm[0])), ('end label', s_end[0])], 'dispatchWhile')
        else:
            E.violation('dispatchWhile: labels', 'the back jump / exit labels are not the ones that are set', W(m, dw))
        E.check(m.same_var(jc[0].e['args'][1], dv[0].e['args'][2]) and prov.of(dw, jc[0].e['args'][1]) == {'REG'}, 'dispatchWhile: condition register',
                'JmpC tests the register the condition was evaluated into', 'JmpC tests %s, the condition is in %s' % (show(jc[0].e['args'][1]), show(dv[0].e['args'][2])), W(m, dw))
        E.check(field_chain(dv[0].e['args'][1])[1] == ['left'] and field_chain(body[0].e['args'][1])[1] == ['right'], 'dispatchWhile: operands', 'condition = node->left, body = node->right',
                'condition/body children wrong', W(m, dw))
    else:
        E.unknown('dispatchWhile', 'lowering shape not recognised')
    # IF
    di = m.fn('dispatchIf')
    rep.analysed(di)
    g = m.cfg(di)
    dvs = g.calls_to('dispatchValue')
    tst = find_factory_ev(m, g, 'Test')
    jc = find_factory_ev(m, g, 'JmpC')
    if len(dvs) == 2 and len(tst) == 1 and len(jc) == 1:
        t_emit, j_emit = enclosing_emit(m, g, tst[0]), enclosing_emit(m, g, jc[0])
        chain_check(E, m, di, g, [('operand 1', dvs[0]), ('operand 2', dvs[1]), ('Test', t_emit), ('JmpC', j_emit)], 'dispatchIf')
        r1, r2 = strip_casts(dvs[0].e['args'][2]), strip_casts(dvs[1].e['args'][2])
        ta = [strip_casts(a) for a in tst[0].e['args']]
        okregs = r1.get('d') != r2.get('d') and {ta[1].get('d'), ta[2].get('d')} == {r1.get('d'), r2.get('d')} and ta[0].get('d') not in (r1.get('d'), r2.get('d')) \
            and m.same_var(jc[0].e['args'][1], ta[0]) and all(prov.of(di, x) == {'REG'} for x in (r1, r2, ta[0]))
        E.check(okregs, 'dispatchIf: registers', 'two distinct temporaries compared into a third, which JmpC tests',
                'Test(%s) / JmpC(%s) do not use the evaluated operands' % (', '.join(show(a) for a in tst[0].e['args']), show(jc[0].e['args'][1])), W(m, di))
        srcs = sorted(tuple(field_chain(x.e['args'][1])[1]) for x in dvs)
        E.check(srcs == [('left', 'left'), ('left', 'right')], 'dispatchIf: operands', 'EQ node children', 'compared values are %s' % srcs, W(m, di))
        lab = m.origin(di, jc[0].e['args'][0])
        nm = None
        if is_call(strip_casts(lab), '::operator[]'):
            nm = m.origin(di, strip_casts(lab)['args'][0])
        elif lab is not None and lab.get('k') == 'call' and lab.get('callee_in_repo'):
            nm = lab      # a helper that maps the name to its label: the name must be its argument
        if nm is None:
            E.unknown('dispatchIf: target', 'cannot see which mark name the jump label %s is looked up under' % show(lab), W(m, di))
        else:
            nm_txt = show(nm) + ' ' + ' '.join(show(m.origin(di, a)) for a in (nm.get('args') or []) if nm.get('k') == 'call')
            E.check('c->right->left->tok' in nm_txt, 'dispatchIf: target', 'jumps to the mark named by the GOTO child', 'jump target is looked up under %s' % show(nm), W(m, di))
    else:
        E.unknown('dispatchIf', 'lowering shape not recognised')
    # PROGRAM
    dp = m.fn('dispatchProgram')
    rep.analysed(dp)
    g = m.cfg(dp)
    jm = find_factory_ev(m, g, 'Jmp')
    rt = find_factory_ev(m, g, 'Ret')
    pu, po = g.calls_to('GenState::pushSymbols'), g.calls_to('GenState::popSymbols')
    da, body = g.calls_to('dispatchArgs'), g.calls_to('dispatchVoid')
    sl = g.calls_to('GenState::setLabel')
    if all(len(x) == 1 for x in (jm, rt, pu, po, da, body, sl)):
        entry = m.origin(dp, po[0].e['args'][0])
        entry_ev = g.ev(entry) if is_call(entry, 'GenState::getNextPos') else None
        chain_check(E, m, dp, g, [('Jmp(after)', enclosing_emit(m, g, jm[0])), ('pushSymbols', pu[0]), ('parameters', da[0]), ('entry recorded', entry_ev), ('body', body[0]),
                                  ('Ret(out)', enclosing_emit(m, g, rt[0])), ('popSymbols(entry)', po[0]), ('after label', sl[0])], 'dispatchProgram')
        E.check(m.same_var(jm[0].e['args'][0], sl[0].e['args'][0]), 'dispatchProgram: skip label', 'the initial jump targets the label set after the routine', 'definition is not skipped correctly', W(m, dp))
        ro = m.origin(dp, rt[0].e['args'][0])
        okout = is_call(ro, 'FunctionGenState::fetchVariableRegister')
        if okout:
            nm = strip_casts(strip_conv(ro['args'][0]))
            defs = m.defs(dp).get(nm.get('d'), []) if nm.get('k') == 'ref' else []
            default_ok = any(m.strval(dp, d[1]) == 'x0' and d[0] == 'init' for d in defs)
            # the OUT name overrides the default exactly when an OUT node exists
            over_ok = False
            for kind, rhs, node in defs:
                if kind == 'assign' and 'out_node->tok' in show(rhs):
                    ev = g.ev(node)
                    gds = [(show(strip_casts(c)).replace(' ', ''), l) for c, l, cn in g.guards_of(ev)]
                    over_ok = gds in ([('(out_node!=NULL)', True)], [('(NULL!=out_node)', True)], [('out_node', True)], [('(out_node==NULL)', False)])
            okout = default_ok and over_ok and len(defs) == 2
            if not okout and len(defs) == 1 and defs[0][0] == 'init' and defs[0][1] is not None:
                # the same choice written as one conditional expression: <OUT node exists> ? its name : "x0"
                i0 = strip_casts(strip_copies(defs[0][1]))
                while i0 is not None and i0.get('k') == 'construct' and len(i0.get('args', [])) == 1:
                    i0 = strip_casts(strip_copies(i0['args'][0]))
                if i0 is not None and i0.get('k') == 'cond':
                    ctxt = show(strip_casts(i0['c'])).replace(' ', '')
                    t_, e_ = i0['t'], (i0.get('f') if i0.get('f') is not None else i0.get('e'))
                    exists_when_true = ctxt in ('(out_node!=NULL)', '(NULL!=out_node)', 'out_node', '(out_node!=nullptr)')
                    exists_when_false = ctxt in ('(out_node==NULL)', '(NULL==out_node)', '!out_node', '(out_node==nullptr)')
                    if exists_when_false:
                        t_, e_ = e_, t_
                    if exists_when_true or exists_when_false:
                        okout = 'out_node->tok' in show(t_) and m.strval(dp, e_) == 'x0'
        E.check(okout, 'dispatchProgram: result register', 'the OUT variable, default "x0"', 'the routine returns %s' % show(ro), W(m, dp))
    else:
        E.unknown('dispatchProgram', 'lowering shape not recognised')
    # CALL and built-ins
    dvf = m.fn_with_helpers('dispatchValue', lambda fx: any(m.is_factory(x, 'PrepareExec') for x in walk_all_exprs(fx['body']) if x.get('k') == 'call'),
                            exclude=('dispatchCallArgs', 'strToInt', 'strToIntSilent'))
    rep.analysed(dvf)
    g = m.cfg(dvf)

    def is_tgt(x):
        """x is dispatchValue's target-register parameter (possibly through a by-value parameter of an inlined helper)"""
        want = {'k': 'ref', 'd': dvf['params'][2]['d']}
        return m.same_var(x, want) or m.same_var(m.origin(dvf, x), want)
    prep, exe, argf = find_factory_ev(m, g, 'PrepareExec'), find_factory_ev(m, g, 'Exec'), find_factory_ev(m, g, 'Arg')
    dca = g.calls_to('dispatchCallArgs')
    gh, hcall, hbind = g, None, {}
    if not prep and not exe and not argf:
        # the call sequence may live in a helper that dispatchValue calls once
        for cev in g.calls():
            if not cev.e.get('callee_in_repo') or cev.e.get('obj') is not None:
                continue
            hs = [x for x in m.all_fns() if x['q'] == cev.e.get('callee')]
            if len(hs) != 1 or hs[0] is dvf:
                continue
            g2 = m.cfg(hs[0])
            if find_factory_ev(m, g2, 'PrepareExec') and len([x for x in g.calls() if x.e.get('callee') == cev.e.get('callee')]) == 1:
                gh, hcall = g2, cev
                hbind = {p['d']: a for p, a in zip(hs[0]['params'], cev.e['args'])}
                prep, exe, argf = find_factory_ev(m, g2, 'PrepareExec'), find_factory_ev(m, g2, 'Exec'), find_factory_ev(m, g2, 'Arg')
                rep.analysed(hs[0])
                break
    if len(prep) == 1 and len(exe) == 1 and len(argf) == 1 and len(dca) == 1:
        E.check(g.dominates(dca[0], hcall if hcall is not None else enclosing_emit(m, g, prep[0])), 'dispatchValue/CALL: arguments before PrepareExec', 'dispatchCallArgs dominates the call sequence',
                'arguments are evaluated after the new frame was created', W(m, dvf))
        E.check(gh.dominates(enclosing_emit(m, gh, prep[0]), enclosing_emit(m, gh, argf[0])) and gh.dominates(enclosing_emit(m, gh, prep[0]), enclosing_emit(m, gh, exe[0])) and
                not gh.can_follow(enclosing_emit(m, gh, exe[0]), enclosing_emit(m, gh, argf[0])), 'dispatchValue/CALL: Arg loop between PrepareExec and Exec', 'order', 'call sequence out of order', W(m, dvf))
        ptgt = strip_casts(prep[0].e['args'][2])
        if ptgt.get('k') == 'ref' and ptgt.get('d') in hbind:
            ptgt = strip_casts(hbind[ptgt['d']])
        E.check(is_tgt(ptgt), 'dispatchValue/CALL: result', 'PREPARE target = the requested target register', 'call result goes to %s' % show(prep[0].e['args'][2]), W(m, dvf))
        a1 = strip_casts(argf[0].e['args'][1])
        E.check(is_call(a1, '::operator[]') and m.same_var(a1['args'][0], argf[0].e['args'][0]), 'dispatchValue/CALL: Arg(i, arglocs[i])', 'argument i goes to parameter register i',
                'Arg(%s, %s)' % (show(argf[0].e['args'][0]), show(a1)), W(m, dvf))
    else:
        E.unknown('dispatchValue/CALL', 'lowering shape not recognised')
    adds = find_factory_ev(m, g, 'Add')
    signs = {}
    for ev in adds:
        cst = strip_casts(ev.e['args'][2])
        neg = cst.get('k') == 'un' and cst['op'] == '-'
        if strip_casts(cst['e'] if neg else cst).get('k') == 'int':
            # NAME case: Add(tgt, src, 0)
            src = m.origin(dvf, ev.e['args'][1])
            E.check(strip_casts(cst).get('v') == 0 and is_call(src, 'FunctionGenState::fetchVariableRegister') and 'c->tok' in show(src) and
                    is_tgt(ev.e['args'][0]), 'dispatchValue/NAME', 'Add(tgt, reg(name), 0)', 'variable copy lowered as %s' % show(ev.e), W(m, dvf, ev.e))
            continue
        def showc(c):
            # text of a condition with named string constants spelled out
            extra = []
            for x in walk_expr(c):
                if x.get('k') == 'ref' and x.get('dk') == 'global':
                    gl = m.facts.globals.get(x.get('q'))
                    if gl is not None and gl.get('const_str') is not None:
                        extra.append(gl['const_str'])
            return show(c) + ' ' + ' '.join(extra)
        for name in ('__INC__', '__DEC__'):
            if guarded(g, ev, lambda c, name=name: (c.get('k') in ('call', 'bin') and c.get('op') == '==' and name in showc(c)), True):
                signs[name] = ('-' if neg else '+', ev)
            elif guarded(g, ev, lambda c, name=name: (c.get('k') in ('call', 'bin') and c.get('op') == '==' and name in showc(c)), False) and name == '__INC__':
                signs.setdefault('__DEC__', ('-' if neg else '+', ev))
    if not signs:
        # Add(tgt, arg0, name == "__INC__" ? c : -c)
        for ev in adds:
            cst = m.origin(dvf, ev.e['args'][2])
            cst = strip_casts(cst) if cst is not None else None
            if cst is not None and cst.get('k') == 'cond':
                cexp = g.expanded(cst['c'])
                cnd = showc(cexp) if 'showc' in dir() else show(cexp)
                def sign_of(x):
                    x = strip_casts(x)
                    return '-' if (x.get('k') == 'un' and x['op'] == '-') else '+'
                if '__INC__' in cnd and '==' in cnd:
                    signs['__INC__'] = (sign_of(cst['t']), ev)
                    signs['__DEC__'] = (sign_of(cst['e']), ev)
                elif '__DEC__' in cnd and '==' in cnd:
                    signs['__DEC__'] = (sign_of(cst['t']), ev)
                    signs['__INC__'] = (sign_of(cst['e']), ev)
    if not signs:
        E.unknown('dispatchValue/built-ins', 'the lowering of the built-in +/- was not recognised')
    okb = signs.get('__INC__', ('?',))[0] == '+' and signs.get('__DEC__', ('?',))[0] == '-'
    if okb:
        for name, (sg, ev) in signs.items():
            a1 = strip_casts(ev.e['args'][1])
            okb = okb and is_call(a1, '::operator[]') and strip_casts(a1['args'][0]).get('v') == 0 and is_tgt(ev.e['args'][0])
    if signs:
        E.check(okb, 'dispatchValue/built-ins', '__INC__ -> Add(tgt, arg0, +c), __DEC__ -> Add(tgt, arg0, -c)', 'built-in signs: %s' % {k: v[0] for k, v in signs.items()}, W(m, dvf))
    lc = find_factory_ev(m, g, 'LoadConstant')
    E.check(len(lc) == 1 and is_tgt(lc[0].e['args'][0]) and 'strToInt' in show(m.origin(dvf, lc[0].e['args'][1])),
            'dispatchValue/NUMBER', 'LoadConstant(tgt, value of the literal)', 'literal lowered as %s' % (show(lc[0].e) if lc else None), W(m, dvf))
    das = m.facts.fn('dispatchAssign', optional=True)
    if das is None or das.get('body') is None:
        # the lowering of an assignment may sit directly in the ASSIGN case of dispatchVoid
        das = m.fn('dispatchVoid')
        g = m.cfg(das)
        dvc = [ev for ev in g.calls_to('dispatchValue') if any(isinstance(label, tuple) and label[0] == 'case' and 'ASSIGN' in label[1] for cond, label, cn in g.guards_of(ev))]
    else:
        g = m.cfg(das)
        dvc = g.calls_to('dispatchValue')
    oka = len(dvc) == 1 and field_chain(dvc[0].e['args'][1])[1] == ['right']
    if oka:
        ro = m.origin(das, dvc[0].e['args'][2])
        oka = is_call(ro, 'FunctionGenState::fetchVariableRegister') and 'c->left->tok' in show(m.origin(das, strip_conv(ro['args'][0])))
    E.check(oka, 'dispatchAssign', 'value of node->right into the register of node->left', 'assignment lowered wrongly', W(m, das))
    dg = m.fn('dispatchGoto')
    g = m.cfg(dg)
    jm = find_factory_ev(m, g, 'Jmp')
    if len(jm) != 1:
        E.unknown('dispatchGoto', 'lowering shape not recognised')
    else:
        lab = m.origin(dg, jm[0].e['args'][0])
        nm = None
        if is_call(strip_casts(lab), '::operator[]'):
            nm = m.origin(dg, strip_casts(lab)['args'][0])
        elif lab is not None and lab.get('k') == 'call' and lab.get('callee_in_repo'):
            nm = lab
        if nm is None:
            E.unknown('dispatchGoto', 'cannot see which mark name the jump label %s is looked up under' % show(lab), W(m, dg))
        else:
            nm_txt = show(nm) + ' ' + ' '.join(show(m.origin(dg, a)) for a in (nm.get('args') or []) if nm.get('k') == 'call')
            E.check('c->left->tok' in nm_txt, 'dispatchGoto', 'Jmp(mark named by node->left)', 'goto jumps to the mark looked up under %s' % show(nm), W(m, dg))
    # ------------------------------------------------------------------ f
    F = rep.rule('C01.f', 'a temporary register is not used after it was released', floor=5)
    for f in m.all_fns():
        gg = None
        for d, ds in m.defs(f).items():
            for kind, rhs, decl in ds:
                if kind == 'init' and is_call(strip_casts(rhs), 'FunctionGenState::fetchTemporary'):
                    gg = gg or m.cfg(f)
                    rels = [ev for ev in gg.calls_to('FunctionGenState::releaseTemporary') if strip_casts(ev.e['args'][0]).get('d') == d]
                    uses = [ev for ev in gg.events if ev.e.get('k') == 'ref' and ev.e.get('d') == d]
                    late = [(r, u) for r in rels for u in uses if gg.can_follow(r, u) and u.e is not strip_casts(r.e['args'][0]) and not any(x is u.e for x in walk_expr(r.e))]
                    F.check(not late, '%s: temporary %s' % (f['q'], decl['name']), '%d use(s), none after its release' % len(uses),
                            'used after release (%s): another value may already live in this register' % (show(late[0][1].e) if late else ''), W(m, f, decl))
    # what is handed back to the allocator is a register that came from it (not a counter, an index or a constant): releasing any
    # other number puts a live register on the free list, and the next temporary overwrites a variable
    for f in m.all_fns():
        if f.get('rec') == 'FunctionGenState':
            continue
        for e in walk_all_exprs(f['body']):
            if e.get('k') == 'call' and m.callee(e) == 'FunctionGenState::releaseTemporary' and e.get('args'):
                pv = prov.of(f, e['args'][0])
                inst = '%s: %s' % (f['q'], show(e)[-60:])
                bad = [p for p in pv if p != 'REG' and not (isinstance(p, str) and p.startswith('UNKNOWN'))]
                unk = [p for p in pv if isinstance(p, str) and p.startswith('UNKNOWN')]
                if bad:
                    F.violation(inst, 'the released value is %s, not a register obtained from the allocator: an unrelated register becomes free while it is live'
                                % ('a loop index' if any(isinstance(b, tuple) and b[0] == 'ARGIDX' for b in bad) else str(sorted(map(str, bad)))[:80]), W(m, f, e),
                                witness={'input': 'r := RUN f WITH a, b END inside an expression that keeps temporaries live'})
                elif unk or not pv:
                    F.unknown(inst, 'origin of the released register not resolved: %s' % (unk[:1] or 'none'), W(m, f, e))
                else:
                    F.ok(inst, 'releases a register obtained from fetchTemporary', W(m, f, e))
    # registers are found by name: a temporary's name must be one no user variable can have (like the LOOP counter's), otherwise the
    # lookup of a user variable with that name returns the temporary
    import re as _re
    ft = m.fn('FunctionGenState::fetchTemporary')
    names = []
    for e in walk_all_exprs(ft['body']):
        if is_call(e, '::push_back') or is_call(e, '::emplace_back'):
            for x in walk_expr(e):
                if x.get('k') == 'str':
                    names.append(x['v'])
                elif x.get('k') == 'ref' and x.get('from_global') and isinstance(x.get('v'), str):
                    names.append(x['v'])
    if not names:
        F.unknown('fetchTemporary: name of a temporary', 'the name given to a new temporary register was not found')
    for nm_ in names:
        F.check(bool(_re.search(r'[^A-Za-z0-9_]', nm_)) or nm_ == '' or nm_[0].isdigit(), 'fetchTemporary: name "%s"' % nm_, 'contains a character no identifier can contain',
                'temporaries are registered under the name "%s", which a user variable can have: fetchVariableRegister("%s") then returns a temporary - the variable shares a register with '
                'intermediate results and disappears from the variable view' % (nm_, nm_), W(m, ft), witness={'input': '%s := 5; x1 := %s + 1' % (nm_, nm_)})
    # ... and a variable's register is found under its whole name: the lookup neither shortens nor rewrites the name it is given (the
    # names of macro temporaries differ at their end - the pass number - and may be long)
    fv = m.fn('FunctionGenState::fetchVariableRegister')
    rep.analysed(fv)
    if fv.get('params'):
        pn = fv['params'][0]
        bad = None
        for e in walk_all_exprs(fv['body']):
            if e.get('k') == 'call' and e.get('obj') is not None and strip_casts(e['obj']).get('d') == pn['d']:
                short = (e.get('callee') or '').split('::')[-1]
                if short in ('resize', 'erase', 'pop_back', 'assign', 'operator=', 'replace', 'clear', 'append', 'push_back', 'insert', 'operator+=', 'substr',
                             'starts_with', 'ends_with', 'find', 'rfind') or (short == 'compare' and len(e.get('args', [])) > 1):
                    bad = bad or (e, short)
            if e.get('k') == 'assign':
                l = strip_casts(e['l'])
                if l.get('d') == pn['d'] or (is_call(l, '::operator[]') and strip_casts(l['obj']).get('d') == pn['d']):
                    bad = bad or (e, 'assignment')
            if e.get('k') == 'call' and e.get('obj') is None and (e.get('callee') or '').split('::')[-1] in ('strncmp', 'memcmp', 'strncasecmp', 'strcasecmp') and \
                    any(y.get('k') == 'ref' and y.get('d') == pn['d'] for a in e.get('args', []) for y in walk_expr(a)):
                bad = bad or (e, (e.get('callee') or '').split('::')[-1])
        F.check(bad is None, 'fetchVariableRegister: whole name', 'the name parameter is compared and stored as given',
                'the name is %s before the lookup (%s): two different names that agree on what is kept share one register - e.g. the temporaries of two expansion '
                'steps of a macro defined in a file with a long name, which differ in the pass number at their end' % (
                    'shortened or rewritten' if bad and bad[1] not in ('strncmp', 'memcmp', 'strncasecmp', 'strcasecmp', 'compare', 'starts_with', 'ends_with', 'find', 'rfind') else 'compared in part only',
                    show(bad[0])[:60] if bad else ''), W(m, fv, bad[0] if bad else None))
    # ... and is kept whole: the field that holds a register's name is a std::string (a fixed-size character array truncates long names - the
    # names of macro temporaries carry file, line and pass number -, a string_view or pointer does not own the text)
    try:
        vreg = m.facts.record('VReg')
        nf = [x for x in vreg['fields'] if x['name'] == 'name']
        if not nf:
            F.unknown('VReg::name', 'the register record has no field `name`')
        else:
            t_ = (nf[0].get('cty') or '').replace('const ', '')
            F.check(t_.startswith(('std::basic_string<char', 'std::__cxx11::basic_string<char')) and 'string_view' not in t_, 'VReg::name', 'std::string: names of any length are kept and compared whole',
                    'the name of a register is stored as %s: a name that does not fit is cut off (or not owned) and is never found again - every reference to one temporary allocates a new register, '
                    'or two names share one' % t_, 'Compiler/src/gen.cpp', witness={'input': 'a macro with #n temporaries defined in a file whose name has 30 or more characters'})
    except AnalysisBroken as ex_:
        F.unknown('VReg::name', str(ex_))
    # vector of temporaries in the call sequence
    g = m.cfg(dvf)
    rels = [ev for ev in g.calls_to('FunctionGenState::releaseTemporary') if is_call(strip_casts(ev.e['args'][0]), '::operator[]')]
    for r in rels:
        vec = strip_casts(strip_casts(r.e['args'][0])['obj'])
        later = [ev for ev in g.calls() if is_call(ev.e, '::operator[]') and m.same_var(ev.e.get('obj') or {}, vec) and g.dominates(r, ev) and ev.e is not strip_casts(r.e['args'][0])]
        F.check(not later, 'dispatchValue: %s' % show(r.e), 'released after its last use in the iteration', 'argument temporary used after release', W(m, dvf, r.e))
    # ------------------------------------------------------------------ g
    G = rep.rule('C01.g', 'a new frame is zero-initialised (variables start at 0)', floor=1)
    for s in groups.get('PREPARE_EXEC', []):
        dops = [o for o in (s.p.vec.get(dlp).ops if dlp in s.p.vec else []) if o[0] != 'store']
        def fillval(o):
            if o[0] in ('append_n', 'resize'):
                return o[2]
            if o[0] == 'push':
                return o[1]
            return None
        vals = [fillval(o) for o in dops]
        cnt0 = [t for t in s.p.refine if vm.operand_of(t) == 'prepare.count' and s.p.refine[t][1] <= 0]
        okz = (bool(dops) or bool(cnt0)) and all(v is not None and v.term == C(0) for v in vals) and all(o[0] in ('append_n', 'resize', 'push') for o in dops)
        G.check(okz, 'executeSingle/PREPARE_EXEC', 'appends zero words only',
                'new frame words are %s' % ([t_show(v.term) if v is not None else '?' for v in vals]), WV)
