"""E2 `genrules`: helpers for generator-invariant rules over Compiler/src/gen.cpp:
anchor resolution (by declaration, never by position), CFG/dominance queries, single-definition
origin tracking, register provenance, may-emit closure."""
import os
from .facts import (Facts, AnalysisBroken, walk_expr, walk_all_exprs, walk_stmts, show, strip_casts,
                    strip_copies, strip_conv, member_path, stmt_children)
from .cfg import CFG

GEN_UNIT = 'Compiler/src/gen.cpp'


class GenModel:
    def __init__(self, facts=None):
        self.facts = facts or Facts([GEN_UNIT])
        self.fns = {f['sig']: f for f in self.facts.functions_in('gen.cpp')}
        self._cfg = {}
        self.by_q = {}
        for f in self.fns.values():
            self.by_q.setdefault(f['q'], []).append(f)
        self._may_emit = None
        self._defs = {}

    def fn(self, q, optional=False):
        c = self.by_q.get(q, [])
        if len(c) == 1:
            return c[0]
        if not c and optional:
            return None
        if not c:
            raise AnalysisBroken('gen.cpp: function %s not found (anchor vanished)' % q)
        raise AnalysisBroken('gen.cpp: function %s ambiguous' % q)

    def cfg(self, f):
        if f['sig'] not in self._cfg:
            self.facts.check_recovery(f)
            self._cfg[f['sig']] = CFG(f)
        return self._cfg[f['sig']]

    def all_fns(self):
        return list(self.fns.values())

    # ------------------------------------------------------------------ call classification
    @staticmethod
    def callee(e):
        return e.get('callee') or ''

    def is_factory(self, e, name=None):
        c = self.callee(e)
        if not c.startswith('Theo::Instruction::'):
            return False
        return name is None or c == 'Theo::Instruction::' + name

    def may_emit(self):
        """functions (by q) that can append to out.code, directly or through callees"""
        if self._may_emit is not None:
            return self._may_emit
        direct = set()
        for f in self.all_fns():
            for e in walk_all_exprs(f['body']):
                if e.get('k') == 'call' and self.callee(e).endswith('::push_back') and e.get('obj') is not None:
                    root, path = member_path(strip_casts(e['obj']))
                    if path[-2:] == ['out', 'code'] or path[-1:] == ['code'] and 'Instruction' in (e['obj'].get('cty') or ''):
                        direct.add(f['q'])
        me = set(direct)
        changed = True
        while changed:
            changed = False
            for f in self.all_fns():
                if f['q'] in me:
                    continue
                for e in walk_all_exprs(f['body']):
                    if e.get('k') == 'call' and self.callee(e) in me:
                        me.add(f['q'])
                        changed = True
                        break
        if not direct:
            raise AnalysisBroken('gen.cpp: no function appends to out.code (anchor vanished)')
        self._may_emit = me
        self.emit_roots = direct
        return me

    def emission_events(self, f):
        g = self.cfg(f)
        me = self.may_emit()
        return [ev for ev in g.calls() if self.callee(ev.e) in me]

    # ------------------------------------------------------------------ definitions of locals
    def defs(self, f):
        """did -> list of defining expressions (initialiser / assigned values); params: []"""
        if f['sig'] in self._defs:
            return self._defs[f['sig']]
        d = {}
        for st in walk_stmts(f['body']):
            if st['k'] == 'decl':
                for v in st['vars']:
                    d.setdefault(v['d'], []).append(('init', v.get('init'), v))
            if st['k'] == 'if' and st.get('var'):
                d.setdefault(st['var']['d'], []).append(('init', st['var'].get('init'), st['var']))
            if st['k'] == 'rangefor':
                d.setdefault(st['var']['d'], []).append(('each', st['range'], st['var']))
        for e in walk_all_exprs(f['body']):
            if e.get('k') == 'assign':
                l = strip_casts(e['l'])
                if l.get('k') == 'ref' and 'd' in l:
                    d.setdefault(l['d'], []).append(('assign', e['r'], e))
            if e.get('k') == 'un' and e['op'] in ('++', '--'):
                l = strip_casts(e['e'])
                if l.get('k') == 'ref' and 'd' in l:
                    d.setdefault(l['d'], []).append(('incdec', e, e))
            if e.get('k') == 'call' and (e.get('callee') or '').split('::')[-1] in ('operator+=', 'operator-=', 'operator*=', 'operator/=', 'operator%=', 'operator|=', 'operator&=', 'operator^=', 'operator<<=', 'operator>>=') \
                    and e.get('obj') is not None:
                l = strip_casts(e['obj'])
                if l.get('k') == 'ref' and l.get('dk') == 'var' and 'd' in l:
                    d.setdefault(l['d'], []).append(('compound', e, e))
            if e.get('k') == 'call' and (e.get('callee') or '').endswith('::operator=') and e.get('obj') is not None and e['args']:
                l = strip_casts(e['obj'])
                if l.get('k') == 'ref' and l.get('dk') == 'var' and 'd' in l:
                    d.setdefault(l['d'], []).append(('assign', e['args'][0], e))
        self._defs[f['sig']] = d
        return d

    def fn_with_helpers(self, q, need, exclude=()):
        """the function q - or, when need(q's function) does not hold, a copy of it with the in-repo helpers it calls put back
        (engine/inline.py) if need holds for the copy.  For rules whose anchor was moved into a helper by an "extract function"."""
        f = self.fn(q)
        if need(f):
            return f
        from .inline import inlined
        f2, names = inlined(self.facts, f, rounds=2, single_use=False,
                            want=lambda h, call: not h['q'].startswith(('dispatchV', 'gen_ast')) and h['q'] not in exclude and h['q'] != q)
        if names and need(f2):
            return f2
        return f

    def origin(self, f, e, depth=0):
        """Follow single-definition locals to their initialiser; a field of a local that is initialised with an aggregate
        (Site site = {.where = .., .pos = ..}; ... site.pos) is that field's initialiser."""
        e = strip_casts(e)
        while e is not None and depth < 8:
            if e.get('k') == 'ref' and e.get('dk') == 'var':
                ds = self.defs(f).get(e['d'], [])
                if len(ds) == 1 and ds[0][0] == 'init' and ds[0][1] is not None:
                    e = strip_casts(ds[0][1])
                    depth += 1
                    continue
                break
            if e.get('k') == 'member' and e.get('mk') == 'field' and not e.get('arrow'):
                root, path = member_path(e)
                root = strip_casts(root) if root is not None else None
                if root is not None and root.get('k') == 'ref' and root.get('dk') == 'var' and path:
                    ds = self.defs(f).get(root['d'], [])
                    written = any(x.get('k') == 'assign' and strip_casts(member_path(strip_casts(x['l']))[0] or {}).get('d') == root['d']
                                  for x in walk_all_exprs(f['body']) if x.get('k') == 'assign' and strip_casts(x['l']).get('k') == 'member')
                    if len(ds) == 1 and ds[0][0] == 'init' and ds[0][1] is not None and not written:
                        cur = strip_casts(strip_copies(ds[0][1]))
                        okp = True
                        for name in path:
                            if cur is not None and cur.get('k') == 'init' and name in dict(cur.get('fields') or []):
                                cur = strip_casts(strip_copies(dict(cur['fields'])[name]))
                            else:
                                okp = False
                                break
                        if okp and cur is not None:
                            e = cur
                            depth += 1
                            continue
                break
            break
        return e

    def inline_value(self, f, e, subst=None, depth=0):
        """The expression `e` of function `f` as one tree over the caller's names: single-definition locals are replaced by their
        initialiser, a local string built by `s = a; s += b; ...` in straight-line code by a + b + ..., and a call of an
        in-repo helper that only computes and returns a value by that value with the arguments substituted."""
        subst = subst or {}
        if e is None or depth > 6:
            return e
        e = strip_casts(strip_copies(strip_casts(e)))
        if e is None:
            return e
        k = e.get('k')
        if k == 'ref' and e.get('dk') in ('var', 'param') and e.get('d') in subst:
            return subst[e['d']]
        if k == 'ref' and e.get('dk') == 'var':
            ds = self.defs(f).get(e.get('d'), [])
            inits = [x for x in ds if x[0] == 'init' and x[1] is not None]
            comps = [x for x in ds if x[0] == 'compound' and (x[1].get('callee') or '').endswith('operator+=')]
            if len(inits) == 1 and len(inits) + len(comps) == len(ds):
                straight = not any(st['k'] in ('if', 'for', 'while', 'do', 'rangefor', 'switch', 'goto', 'try') for st in walk_stmts(f['body'])) if comps else True
                if straight:
                    acc = self.inline_value(f, inits[0][1], subst, depth + 1)
                    for c in sorted(comps, key=lambda x: tuple(x[1].get('loc') or (0, 0))):
                        acc = {'k': 'call', 'ck': 'operator', 'op': '+', 'callee': 'std::operator+', 'obj': None, 'loc': c[1].get('loc'),
                               'args': [acc, self.inline_value(f, c[1]['args'][0], subst, depth + 1)], 'cty': 'std::string'}
                    return acc
            return e
        if k == 'call' and e.get('callee_in_repo') and e.get('obj') is None and e.get('ck') != 'operator':
            tg = [g for g in self.facts.functions if g['q'] == e.get('callee') and g.get('body') is not None and g['tmpl'] in ('none', 'inst') and
                  len(g.get('params', [])) == len(e.get('args', []))]
            if len(tg) == 1:
                g = tg[0]
                rets = [st for st in walk_stmts(g['body']) if st['k'] == 'return' and st.get('e') is not None]
                branching = any(st['k'] in ('if', 'for', 'while', 'do', 'rangefor', 'switch', 'goto', 'try') for st in walk_stmts(g['body']))
                effects = any(x.get('k') == 'assign' and strip_casts(x['l']).get('dk') != 'var' for x in walk_all_exprs(g['body']))
                if len(rets) == 1 and not branching and not effects:
                    sub2 = {p['d']: self.inline_value(f, a, subst, depth + 1) for p, a in zip(g['params'], e['args'])}
                    return self.inline_value(g, rets[0]['e'], sub2, depth + 1)
        out = dict(e)
        # (descending into an expression does not count against the depth: that bounds the expansion of locals and helpers)
        for key in ('obj', 'l', 'r', 'e', 'base', 'c', 't'):
            if isinstance(e.get(key), dict):
                out[key] = self.inline_value(f, e[key], subst, depth)
        if isinstance(e.get('args'), list):
            out['args'] = [self.inline_value(f, a, subst, depth) if isinstance(a, dict) else a for a in e['args']]
        return out

    def same_var(self, a, b, f=None):
        a, b = strip_casts(a), strip_casts(b)
        if a is None or b is None:
            return False
        if a.get('k') == 'ref' and b.get('k') == 'ref':
            return a.get('d') is not None and a.get('d') == b.get('d')
        if f is not None and a.get('k') == 'member' and b.get('k') == 'member' and a.get('mk') == 'field' and b.get('mk') == 'field':
            # the same field of the same record object; two locals are the same object's value when one is a whole-record copy of
            # the other (labels = l)
            ra, pa = member_path(a)
            rb, pb = member_path(b)
            ra, rb = strip_casts(ra), strip_casts(rb)
            if pa != pb or ra is None or rb is None or ra.get('k') != 'ref' or rb.get('k') != 'ref':
                return False
            if ra.get('d') == rb.get('d'):
                return True
            cls = self.record_copies(f)
            return cls.get(ra.get('d')) is not None and cls.get(ra.get('d')) == cls.get(rb.get('d'))
        return False

    def record_copies(self, f):
        """did -> representative, for locals of f that are whole-record copies of one another (T a = b; a = b;) and are written
        field-wise through one of them only before the copy"""
        key = ('reccopy', f['sig'])
        if key in self._defs:
            return self._defs[key]
        parent = {}

        def find(x):
            while parent.get(x, x) != x:
                x = parent[x]
            return x
        pairs = []
        for st in walk_stmts(f['body']):
            if st['k'] == 'decl':
                for v in st['vars']:
                    i0 = strip_casts(strip_copies(v.get('init'))) if v.get('init') is not None else None
                    if i0 is not None and i0.get('k') == 'ref' and i0.get('dk') == 'var' and not (v.get('cty') or '').startswith('std::'):
                        pairs.append((v['d'], i0['d']))
        for e in walk_all_exprs(f['body']):
            if e.get('k') == 'assign' and e.get('op', '=') == '=':
                l, r = strip_casts(e['l']), strip_casts(strip_copies(e['r']))
                if l is not None and r is not None and l.get('k') == 'ref' and r.get('k') == 'ref' and l.get('dk') == 'var' and r.get('dk') == 'var' and \
                        (l.get('cty') or '') not in SCALAR_TYPES and not (l.get('cty') or '').startswith('std::'):
                    pairs.append((l['d'], r['d']))
            if e.get('k') == 'call' and (e.get('callee') or '').endswith('::operator=') and e.get('obj') is not None and e.get('args'):
                l, r = strip_casts(e['obj']), strip_casts(strip_copies(e['args'][0]))
                if l is not None and r is not None and l.get('k') == 'ref' and r.get('k') == 'ref' and l.get('dk') == 'var' and r.get('dk') == 'var' and \
                        not (l.get('cty') or '').startswith('std::'):
                    pairs.append((l['d'], r['d']))
        for a_, b_ in pairs:
            parent[find(a_)] = find(b_)
        res = {x: find(x) for x in list(parent) + [p for pr in pairs for p in pr]}
        self._defs[key] = res
        return res

    def streval(self, f, e, depth=0):
        """constant string value through literals, constant globals, single-definition locals, std::string construction and '+'"""
        e = strip_conv(strip_copies(strip_casts(e))) if e is not None else None
        if e is None or depth > 10:
            return None
        k = e.get('k')
        if k == 'paren':
            return self.streval(f, e['e'], depth + 1)
        if k == 'str':
            return e['v']
        if k == 'ref' and e.get('dk') == 'global':
            gl = getattr(self.facts, 'globals', {}).get(e.get('q'))
            return gl.get('const_str') if gl else None
        if k == 'ref' and e.get('dk') == 'var':
            o = self.origin(f, e)
            return self.streval(f, o, depth + 1) if o is not None and o is not e else None
        if k == 'construct' and e.get('args'):
            return self.streval(f, e['args'][0], depth + 1)
        if (k == 'call' and e.get('op') == '+') or (k == 'bin' and e.get('op') == '+'):
            parts = ([e['l'], e['r']] if k == 'bin' else ([e['obj']] if e.get('obj') is not None else []) + list(e['args']))
            vals = [self.streval(f, p, depth + 1) for p in parts]
            return ''.join(vals) if vals and all(v is not None for v in vals) else None
        return None

    # string value of an expression (through std::string construction)
    def strval(self, f, e):
        e = self.origin(f, e)
        while e is not None:
            if e.get('k') == 'str':
                return e['v']
            if e.get('k') == 'ref' and e.get('dk') == 'global':
                gl = getattr(self.facts, 'globals', {}).get(e.get('q')) if hasattr(self, 'facts') else None
                if gl is not None and gl.get('const_str') is not None:
                    return gl['const_str']
                return None
            if e.get('k') == 'construct' and e['args']:
                e = self.origin(f, e['args'][0])
                continue
            if e.get('k') == 'cast':
                e = e['e']
                continue
            return None
        return None


def unconditional_callees(model, f, depth=2, _seen=None):
    """f itself and the in-repo functions it calls on every path (transitively, up to depth): code that was moved into a helper
    which the function always calls is still part of what the function does."""
    _seen = _seen if _seen is not None else set()
    out = [f]
    _seen.add(f['sig'])
    if depth <= 0 or f.get('body') is None:
        return out
    g = model.cfg(f)
    for ev in g.calls():
        e = ev.e
        if not e.get('callee_in_repo') or ev.conditional or not g.on_all_paths(ev):
            continue
        tg = [x for x in model.all_fns() if x['q'] == e.get('callee') and x.get('body') is not None]
        if len(tg) == 1 and tg[0]['sig'] not in _seen:
            out.extend(unconditional_callees(model, tg[0], depth - 1, _seen))
    return out


def map_lookup(model, f, e, depth=0):
    """(map expression, key expression) when e denotes the mapped value of an associative-container lookup:
    M[key], M.at(key), M.find(key)->second, (*M.find(key)).second, it->second with it = M.find(key)."""
    e = strip_copies(strip_casts(e)) if e is not None else None
    if e is None or depth > 6:
        return None
    if e.get('k') == 'paren':
        return map_lookup(model, f, e['e'], depth + 1)
    if e.get('k') == 'ref' and e.get('dk') == 'var':
        o = model.origin(f, e)
        return map_lookup(model, f, o, depth + 1) if o is not e and o is not None and o.get('k') != 'ref' else None
    if is_call(e, '::operator[]') or is_call(e, '::at'):
        if e.get('obj') is not None and e.get('args'):
            return (e['obj'], e['args'][0])
        return None
    if e.get('k') == 'member' and e.get('name') == 'second':
        b = strip_casts(e['base'])
        while b is not None and (b.get('k') == 'paren' or (b.get('k') == 'un' and b.get('op') == '*') or is_call(b, '::operator*') or is_call(b, '::operator->')):
            b = strip_casts(b.get('e') or b.get('obj'))
        if b is not None and b.get('k') == 'ref':
            b = model.origin(f, b)
        b = strip_conv(b) if b is not None else None
        if is_call(b, '::find') and b.get('obj') is not None and b.get('args'):
            return (b['obj'], b['args'][0])
    return None


def callers_of(model, q):
    """[(function, call expr)] over gen.cpp"""
    out = []
    for f in model.all_fns():
        for e in walk_all_exprs(f['body']):
            if e.get('k') == 'call' and model.callee(e) == q:
                out.append((f, e))
    return out


def field_chain(e):
    """x.a.b -> (root expr, ['a','b']) looking through casts/copies"""
    e = strip_casts(e)
    return member_path(e)


def is_call(e, suffix):
    return e is not None and e.get('k') == 'call' and (e.get('callee') or '').endswith(suffix)


def guard_implies(cond, label, pred, want):
    """Does `cond == label` imply that the atom recognised by pred has truth value `want`?
    Sound for the propositional structure (!, &&, ||); atoms are matched by pred(expr) -> bool."""
    c = strip_casts(cond)
    if c is None or not isinstance(label, bool):
        return False
    if pred(c):
        return label == want
    k = c.get('k')
    if k == 'un' and c['op'] == '!':
        return guard_implies(c['e'], not label, pred, want)
    if k == 'bin' and c['op'] == '&&':
        if label:
            return guard_implies(c['l'], True, pred, want) or guard_implies(c['r'], True, pred, want)
        return guard_implies(c['l'], False, pred, want) and guard_implies(c['r'], False, pred, want)
    if k == 'bin' and c['op'] == '||':
        if not label:
            return guard_implies(c['l'], False, pred, want) or guard_implies(c['r'], False, pred, want)
        return guard_implies(c['l'], True, pred, want) and guard_implies(c['r'], True, pred, want)
    return False


def size_table(c, is_container):
    """truth of the condition c for size() = 0, 1, 2, 3 of the container recognised by is_container(expr);
    None when c is not a test of that size (empty(), size() compared with a literal, and !, &&, || of those)"""
    import operator as _o
    c = strip_casts(c)
    if c is None:
        return None
    if c.get('k') == 'paren':
        return size_table(c['e'], is_container)
    if c.get('k') == 'un' and c['op'] == '!':
        v = size_table(c['e'], is_container)
        return None if v is None else [not x for x in v]
    if is_call(c, '::empty') and c.get('obj') is not None and is_container(c['obj']):
        return [True, False, False, False]
    if is_call(c, '::size') and c.get('obj') is not None and is_container(c['obj']):
        return [False, True, True, True]      # used as a truth value
    if c.get('k') == 'bin' and c['op'] in ('<', '>', '<=', '>=', '==', '!='):
        l, r = strip_casts(c['l']), strip_casts(c['r'])
        ops = {'<': _o.lt, '>': _o.gt, '<=': _o.le, '>=': _o.ge, '==': _o.eq, '!=': _o.ne}
        if is_call(l, '::size') and l.get('obj') is not None and is_container(l['obj']) and r is not None and r.get('k') == 'int':
            return [ops[c['op']](n, r['v']) for n in range(4)]
        if is_call(r, '::size') and r.get('obj') is not None and is_container(r['obj']) and l is not None and l.get('k') == 'int':
            return [ops[c['op']](l['v'], n) for n in range(4)]
    if c.get('k') == 'bin' and c['op'] in ('&&', '||'):
        a, b2 = size_table(c['l'], is_container), size_table(c['r'], is_container)
        if a is not None and b2 is not None:
            return [(x and y) if c['op'] == '&&' else (x or y) for x, y in zip(a, b2)]
    return None


def guarded(g, ev, pred, want):
    """some dominating branch implies that the atom has value `want` at ev"""
    return any(guard_implies(cond, label, pred, want) for cond, label, cn in g.guards_of(ev))


def direct_exprs(stmt):
    """expressions of statements executed unconditionally when `stmt` is entered (no nested control flow)"""
    out = []
    if stmt is None:
        return out
    if stmt['k'] == 'block':
        for c in stmt['s']:
            if c['k'] in ('if', 'switch', 'for', 'while', 'do', 'rangefor'):
                break
            out.extend(direct_exprs(c))
            if c['k'] in ('return', 'break', 'continue'):
                break
    elif stmt['k'] == 'expr':
        out.extend(walk_expr(stmt['e']))
    elif stmt['k'] == 'decl':
        for v in stmt['vars']:
            if v.get('init') is not None:
                out.extend(walk_expr(v['init']))
    elif stmt['k'] == 'return' and stmt.get('e') is not None:
        out.extend(walk_expr(stmt['e']))
    return out


SCALAR_TYPES = ('bool', 'char', 'signed char', 'unsigned char', 'short', 'unsigned short', 'int', 'unsigned int', 'long', 'unsigned long',
                'long long', 'unsigned long long', 'float', 'double')


def uninitialised_reads(model, f):
    """Definite-assignment analysis over the CFG of f for its scalar / pointer / enum locals that are declared without an
    initialiser: yields (variable declaration, reading event) for every read that some path from the declaration reaches
    without passing an assignment.  Taking the address of the variable or binding it to a non-const reference parameter counts
    as an assignment (out parameter); a compound assignment or ++ is a read."""
    cands = {}
    for st in walk_stmts(f['body']):
        if st['k'] == 'decl':
            for v in st['vars']:
                t = (v.get('cty') or '').replace('const ', '')
                if v.get('init') is None and not v.get('static_local') and not v.get('is_ref') and \
                        (t in SCALAR_TYPES or t.endswith('*') or v.get('is_enum') or t.startswith('enum ')):
                    cands[v['d']] = (v, st)
    if not cands:
        return []
    g = model.cfg(f)
    # classify the references
    write_ref_ids, skip_ref_ids = {}, set()
    for x in walk_all_exprs(f['body']):
        if x.get('k') == 'assign' and x.get('op', '=') == '=':
            l = strip_casts(x['l'])
            if l is not None and l.get('k') == 'ref' and l.get('d') in cands:
                write_ref_ids[id(l)] = x
        if x.get('k') == 'un' and x.get('op') == '&':
            l = strip_casts(x['e'])
            if l is not None and l.get('k') == 'ref' and l.get('d') in cands:
                write_ref_ids[id(l)] = x
        if x.get('k') == 'call':
            ptys = x.get('pty') or []
            for i, a in enumerate(x.get('args', [])):
                a0 = strip_casts(a)
                if a0 is not None and a0.get('k') == 'ref' and a0.get('d') in cands and i < len(ptys) and '&' in ptys[i] and 'const' not in ptys[i]:
                    write_ref_ids[id(a0)] = x
    out = []
    for d, (v, dst) in cands.items():
        decl_nodes = [n for n in g.nodes if n.stmt is dst]
        # events per node: ('w' | 'r', event)
        acts = {}
        for ev in g.events:
            e = ev.e
            if e.get('k') == 'ref' and e.get('d') == d:
                if id(e) in write_ref_ids:
                    continue        # the write takes effect at the enclosing assignment / call
                acts.setdefault(ev.node.id, []).append(('r', ev))
        # writes: the owning assignment / address-of / call event
        for ev in g.events:
            e = ev.e
            is_w = False
            if e.get('k') == 'assign' and e.get('op', '=') == '=':
                l = strip_casts(e['l'])
                is_w = l is not None and l.get('k') == 'ref' and l.get('d') == d
            elif e.get('k') == 'un' and e.get('op') == '&':
                l = strip_casts(e['e'])
                is_w = l is not None and l.get('k') == 'ref' and l.get('d') == d
            elif e.get('k') == 'call':
                ptys = e.get('pty') or []
                for i, a in enumerate(e.get('args', [])):
                    a0 = strip_casts(a)
                    if a0 is not None and a0.get('k') == 'ref' and a0.get('d') == d and i < len(ptys) and '&' in ptys[i] and 'const' not in ptys[i]:
                        is_w = True
            if is_w and not ev.conditional:
                acts.setdefault(ev.node.id, []).append(('w', ev))
        for nid in acts:
            acts[nid].sort(key=lambda a: a[1].idx)
        OUT = {n.id: True for n in g.nodes}
        IN = {n.id: True for n in g.nodes}
        changed = True
        decl_ids = set(n.id for n in decl_nodes)
        while changed:
            changed = False
            for n in g.nodes:
                i = all(OUT[p.id] for p in n.pred) if n.pred else False
                if n.id in decl_ids:
                    i = False
                o = i or any(k == 'w' for k, _ in acts.get(n.id, []))
                if i != IN[n.id] or o != OUT[n.id]:
                    IN[n.id], OUT[n.id] = i, o
                    changed = True
        # reachable from the declaration
        reach = set()
        work = list(decl_nodes)
        while work:
            n = work.pop()
            for s2 in n.succ:
                if s2.id not in reach:
                    reach.add(s2.id)
                    work.append(s2)
        for nid, lst in acts.items():
            if nid not in reach and nid not in decl_ids:
                continue
            state = IN[nid]
            for k, ev in lst:
                if k == 'w':
                    state = True
                elif not state:
                    out.append((v, ev))
    return out


# ============================================================================= integer quantities narrower than int
SUBINT = ('short', 'unsigned short', 'signed char', 'unsigned char', 'short int', 'unsigned short int')
_SUBINT_RE = None

# which properties depend on which quantity: (regular expression over "<kind> <qualified name>", properties); first match wins.
# Frozen from reading the code: every int-typed quantity of the library that carries a line, a position, a register, a count, a
# priority or a pass number, and what depends on its value.
NARROW_ROLES = [
    (r'(::|\b)line$', ['C02', 'C07', 'C08', 'C12', 'C14']),
    (r'priority$', ['C01', 'C09', 'C20']),
    (r'Theo::Constant$', ['C01', 'C07', 'C20']),
    (r'Theo::(RegisterIndex|ProgramIndex|JumpOffset)$', ['C01', 'C03', 'C10', 'C16']),
    (r'Theo::(RegisterCount|StackMapIndex)$', ['C01', 'C03', 'C19']),
    (r'Theo::VM::(Word|WordIndex)$|Activation::(data_start|seg_size|return_to|debug_info)$|VM::instruction_pointer$', ['C01', 'C03', 'C19', 'C20']),
    (r'argnum$|stack_size$', ['C03', 'C04']),
    (r'Theo::Instruction::', ['C01', 'C03', 'C16', 'C19', 'C20']),        # operand fields of the instruction record
    (r'LRElement::|LRState::|Grammar::|Symbol::', ['C09', 'C12']),
    (r'\bpass(es)?\)?$|MacroPasses$', ['C10', 'C11']),
    (r'Program::(potential_breaks|line_info|code|stack_maps)|StackMap::', ['C03', 'C05', 'C06', 'C08', 'C17']),
    (r'(template_token_indices|content_constraint_token_indices|location|length)$', ['C09']),
    (r'loops$|labels$|backpatching_todo$|marks$', ['C01', 'C03', 'C16']),
]


def narrow_declarations(facts):
    """every field, typedef, parameter, return type, local and container element type of the library (generated scanner excluded)
    whose canonical type is an integer type narrower than int: [{'kind', 'q', 'cty', 'where'}]"""
    import re
    out = []
    tmpl_re = re.compile(r'[<,] ?(unsigned short|short|unsigned char|signed char)( int)? ?[,>]')

    def sub(t):
        t = (t or '').replace('const ', '').replace(' &', '').replace('volatile ', '').strip()
        if t in SUBINT:
            return t
        m = tmpl_re.search(t or '')
        if m and 'basic_string' not in t.split(m.group(0))[0][-20:]:
            return 'container of ' + m.group(1)
        return None
    seen = set()

    def add(kind, q, cty, loc):
        key = (kind, q)
        if key in seen:
            return
        seen.add(key)
        file = loc[0] if loc and isinstance(loc[0], str) else None
        out.append({'kind': kind, 'q': q, 'cty': cty, 'where': '%s:%s' % (os.path.relpath(file, facts.repo) if file else '?', loc[1] if loc and len(loc) > 1 else '?')})
    for key, r in facts.records.items():
        rl = r.get('loc') or []
        if not rl or 'lex.yy' in str(rl[0]) or not str(rl[0]).startswith(facts.repo):
            continue
        for f in r['fields']:
            s = sub(f.get('cty'))
            if not s and isinstance(f.get('bits'), int) and f['bits'] < 32 and (f.get('cty') or '').replace('const ', '') in ('int', 'unsigned int', 'long', 'unsigned long', 'long long', 'unsigned long long'):
                s = '%s : %d (bit-field)' % (f.get('cty'), f['bits'])
            if s:
                add('field', f.get('q') or (r['q'] + '::' + f['name']), s, rl)
    for q, t in facts.typedefs.items():
        if q.startswith('flex_') or q.startswith('yy') or q.startswith('YY'):
            continue
        s = sub(t.get('cty'))
        if s:
            add('typedef', q, s, t.get('loc') or [None, '?'])
    for f in facts.functions:
        if f.get('body') is None or f['tmpl'] == 'pattern' or f['file'].endswith(('lex.yy.c', 'lex.yy.h')) or not f['file'].startswith(facts.repo):
            continue
        floc = [f['file']] + list(f.get('loc', [None, 0])[1:2])
        for p in f.get('params', []):
            s = sub(p.get('cty'))
            if s:
                add('parameter', '%s(%s)' % (f['q'], p['name']), s, [f['file'], (p.get('loc') or [0])[0]])
        s = sub(f.get('ret'))
        if s:
            add('return type', f['q'], s, floc)
        for st in walk_stmts(f['body']):
            vs = st['vars'] if st['k'] == 'decl' else ([st['var']] if st['k'] in ('rangefor',) or (st['k'] == 'if' and st.get('var')) else [])
            for v in vs:
                s = sub(v.get('cty'))
                if s:
                    # a local that only ever receives literals, booleans or characters keeps every value
                    ds = [d for d in [v.get('init')] if d is not None]
                    for x in walk_all_exprs(f['body']):
                        if x.get('k') == 'assign' and strip_casts(x['l']).get('d') == v.get('d'):
                            ds.append(x['r'])
                    harmless = st['k'] == 'decl' and ds and all((strip_casts(d) or {}).get('k') in ('int', 'char', 'bool') or
                                                                   ((strip_casts(d) or {}).get('cty') or '') in ('bool', 'char') + SUBINT for d in ds)
                    if not harmless:
                        add('local', '%s: %s' % (f['q'], v['name']), s, [f['file'], (v.get('loc') or [0])[0]])
    return out


def narrow_rule(rep, rule_id, pid, facts):
    """the integer quantities the property depends on are not declared narrower than int"""
    import re
    R = rep.rule(rule_id, 'the integer quantities this property depends on (lines, positions, registers, counts, priorities, pass numbers - table NARROW_ROLES) are not '
                          'declared with a type narrower than int: values that are range-checked against INT_MAX, or not at all, keep their value', floor=1)
    decls = narrow_declarations(facts)
    mine = 0
    for d in decls:
        props = None
        for pat, ps in NARROW_ROLES:
            if re.search(pat, d['q']):
                props = ps
                break
        if props is None:
            props = ['C20']          # a quantity nobody listed: values stay what they are (C20) is the property it falls under
        if pid not in props:
            continue
        mine += 1
        lim = {'short': 32767, 'unsigned short': 65535, 'signed char': 127, 'unsigned char': 255}.get(d['cty'].replace('container of ', '').replace(' int', ''), 255)
        R.violation('%s %s' % (d['kind'], d['q']), '%s is declared %s: it receives int values (nothing limits them to %d), so larger values wrap around silently' % (d['q'], d['cty'], lim),
                    d['where'], witness={'needs': 'a value above %d in this quantity' % lim})
    R.ok('inventory', 'fields, typedefs, parameters, return types, locals and container element types of %d units scanned: none of the quantities of this property is narrower than int' % len(facts.units)
         if not mine else 'inventory of %d units' % len(facts.units), 'Compiler/, VM/')


def lossy_key_orders(facts):
    """Containers (fields, typedefs, locals) of the loaded units whose ordering is a hand-written comparator that folds case or compares
    in part only: [(where, declared name, comparator, calls)].  Such a comparator identifies distinct keys (names that differ in case)."""
    from .cmpeval import lossy_calls_in
    comps = {}
    for f in facts.functions:
        if f.get('body') is None or f['tmpl'] == 'pattern' or f.get('name') != 'operator()' or len(f.get('params', [])) != 2:
            continue
        if f.get('kind') == 'lambda':
            continue
        lossy = lossy_calls_in(facts, f)
        if lossy and f.get('rec'):
            comps[f['rec']] = lossy
            comps[f['rec'].split('::')[-1]] = lossy
    out = []
    if not comps:
        return out

    def hit(cty):
        for c_, l_ in comps.items():
            if c_ and (', ' + c_ in (cty or '') or ',' + c_ in (cty or '') or '::' + c_ + '>' in (cty or '') or ' ' + c_ + '>' in (cty or '') or ' ' + c_ + ',' in (cty or '')):
                return c_, l_
        return None
    for q, td in facts.typedefs.items():
        h = hit(td.get('cty'))
        if h:
            out.append(('typedef', q, h[0], h[1]))
    for r in facts.records.values():
        for fld in r.get('fields', []):
            h = hit(fld.get('cty'))
            if h:
                out.append((r['q'], fld['name'], h[0], h[1]))
    for f in facts.functions:
        if f.get('body') is None or f['tmpl'] == 'pattern':
            continue
        for st in walk_stmts(f['body']):
            if st['k'] == 'decl':
                for v in st['vars']:
                    h = hit(v.get('cty'))
                    if h:
                        out.append((f['q'], v['name'], h[0], h[1]))
    seen, uniq = set(), []
    for o in out:
        if (o[0], o[1]) not in seen:
            seen.add((o[0], o[1]))
            uniq.append(o)
    return uniq


def as_record_init(facts, e):
    """A record construction as an aggregate initialiser: `R{.a = x, .b = y}` as it is, `R(x, y)` when the constructor of the repository that
    is called stores each parameter unchanged into a field (member initialisers `a(a), b(b)` or `this->a = a` in the body): a copy of the
    node with k == 'init' and fields [[field, argument], ..]; None otherwise."""
    e0 = strip_copies(strip_casts(e)) if e is not None else None
    if e0 is None:
        return None
    if e0.get('k') == 'init':
        return e0
    if e0.get('k') != 'construct' or not e0.get('ctor_in_repo', True) or not e0.get('args'):
        return None
    rec = (e0.get('rec') or '')
    cands = [f for f in facts.functions if f.get('kind') == 'ctor' and f.get('body') is not None and f['tmpl'] in ('none', 'inst') and
             f['q'].rsplit('::', 1)[0].split('::')[-1] == rec.split('::')[-1] and len(f.get('params', [])) == len(e0['args'])]
    if e0.get('ctor'):
        c2 = [f for f in cands if f.get('sig') == e0['ctor']]
        cands = c2 or cands
    if len(cands) != 1:
        return None
    ct = cands[0]
    pidx = {p['d']: i for i, p in enumerate(ct['params'])}
    fields = []
    for ci in ct.get('ctor_inits') or []:
        v = strip_copies(strip_casts(ci.get('init'))) if ci.get('init') is not None else None
        while v is not None and v.get('k') == 'call' and (v.get('callee') or '') in ('std::move', 'std::forward') and v.get('args'):
            v = strip_copies(strip_casts(v['args'][0]))
        if ci.get('field') and v is not None and v.get('k') == 'ref' and v.get('d') in pidx:
            fields.append([ci['field'], e0['args'][pidx[v['d']]]])
    for x in walk_all_exprs(ct['body']):
        if x.get('k') == 'assign' or (x.get('k') == 'call' and (x.get('callee') or '').endswith('::operator=') and x.get('obj') is not None):
            t = strip_casts(x.get('l') or x.get('obj'))
            v = strip_copies(strip_casts(x.get('r') if x.get('k') == 'assign' else (x.get('args') or [None])[0]))
            if t is not None and t.get('k') == 'member' and v is not None and v.get('k') == 'ref' and v.get('d') in pidx:
                fields.append([t['name'], e0['args'][pidx[v['d']]]])
    if len(fields) != len(e0['args']):
        return None
    out = dict(e0)
    out['k'] = 'init'
    out['fields'] = fields
    return out
