"""Canonical LR(1) item-set construction for a small grammar, and the conflict criterion of libtheo's table generator
(Compiler/include/ParserGenerator/lrparser.hpp, generateParseTables) in prefix mode.

Used by C12.k: the grammar that MacroDetector's constructor builds is read from the source; for a family of macro patterns the
verdict "the tables have a conflict" under that grammar is compared with the verdict under the reference detector grammar
(spec/detector_grammar.json).  The table generator itself is covered by C12.d / C12.e; here it is modelled by its documented
criterion: a cell action[state][terminal] receives two placements - one SHIFT per terminal transition, one REDUCE/ACCEPT per
completed item in the column of its look-ahead, or in every column when the look-ahead is the end marker and the parser accepts
prefixes."""


class LR1:
    def __init__(self, prods, start, eof='T_EOF', accept_prefix=True):
        """prods: {nt: [[sym, ...], ...]}; every symbol that is not a key of prods is a terminal"""
        self.prods = {k: [tuple(a) for a in v] for k, v in prods.items()}
        self.start = start
        self.eof = eof
        self.accept_prefix = accept_prefix
        self.aug = "<S'>"
        self.prods[self.aug] = [(start,)]
        self.nts = set(self.prods)
        self._first()
        self._closure_cache = {}

    def _first(self):
        self.nullable = set()
        changed = True
        while changed:
            changed = False
            for a, alts in self.prods.items():
                if a not in self.nullable and any(all(s in self.nullable for s in alt) for alt in alts):
                    self.nullable.add(a)
                    changed = True
        self.first = {a: set() for a in self.nts}
        changed = True
        while changed:
            changed = False
            for a, alts in self.prods.items():
                for alt in alts:
                    for s in alt:
                        add = self.first[s] if s in self.nts else {s}
                        if not add <= self.first[a]:
                            self.first[a] |= add
                            changed = True
                        if s not in self.nullable:
                            break

    def first_of(self, syms, la):
        out = set()
        for s in syms:
            if s in self.nts:
                out |= self.first[s]
                if s not in self.nullable:
                    return out
            else:
                out.add(s)
                return out
        out.add(la)
        return out

    def closure(self, kernel):
        key = kernel
        if key in self._closure_cache:
            return self._closure_cache[key]
        items = set(kernel)
        work = list(kernel)
        while work:
            (a, i, dot, la) = work.pop()
            alt = self.prods[a][i]
            if dot < len(alt) and alt[dot] in self.nts:
                b = alt[dot]
                las = self.first_of(alt[dot + 1:], la)
                for j in range(len(self.prods[b])):
                    for l2 in las:
                        it = (b, j, 0, l2)
                        if it not in items:
                            items.add(it)
                            work.append(it)
        res = frozenset(items)
        self._closure_cache[key] = res
        return res

    def conflicts(self, limit_states=4000):
        """list of (state number, terminal, [placements]) for every cell that receives more than one placement"""
        init = self.closure(frozenset({(self.aug, 0, 0, self.eof)}))
        states = [init]
        index = {init: 0}
        out = []
        i = 0
        while i < len(states):
            st = states[i]
            trans = {}
            for (a, k, dot, la) in st:
                alt = self.prods[a][k]
                if dot < len(alt):
                    trans.setdefault(alt[dot], set()).add((a, k, dot + 1, la))
            cells = {}
            for x, kern in trans.items():
                tgt = self.closure(frozenset(kern))
                if tgt not in index:
                    index[tgt] = len(states)
                    states.append(tgt)
                    if len(states) > limit_states:
                        raise RuntimeError('more than %d LR(1) states' % limit_states)
                if x not in self.nts:
                    cells.setdefault(x, []).append(('shift', index[tgt]))
            every = []
            for (a, k, dot, la) in st:
                alt = self.prods[a][k]
                if dot == len(alt):
                    what = ('accept',) if a == self.aug else ('reduce', a, k)
                    if la == self.eof and self.accept_prefix:
                        every.append(what)
                    else:
                        cells.setdefault(la, []).append(what)
            if every:
                # placed in every column: clashes with anything else in the row, and with a second one of its kind
                others = [(t, p) for t, ps in cells.items() for p in ps]
                if len(every) > 1 or others:
                    out.append((i, '*', every + [p for t, p in others][:3]))
            for t, ps in cells.items():
                if len(ps) > 1:
                    out.append((i, t, ps))
            i += 1
        self.n_states = len(states)
        return out


def has_conflict(prods, pattern, macro='<MACRO>', eof='T_EOF'):
    g = dict(prods)
    g[macro] = [list(pattern)]
    lr = LR1(g, macro, eof=eof, accept_prefix=True)
    c = lr.conflicts()
    return bool(c), (c[0] if c else None), lr.n_states
