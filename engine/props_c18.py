"""C18 (deterministic, no shared state) - engine E8 `purity`: inventory of static-storage objects
with mutation verdicts, external-callee classification, container determinism, ownership by value,
per-call state objects."""
import os
import re

from .facts import (Facts, AnalysisBroken, all_units, walk_expr, walk_all_exprs, walk_stmts, show, strip_casts, strip_copies)
from .genrules import is_call, field_chain

LIB = ['Compiler/src/ast.cpp', 'Compiler/src/compiler.cpp', 'Compiler/src/gen.cpp', 'Compiler/src/macro.cpp', 'Compiler/src/parse.cpp',
       'Compiler/src/scan.cpp', 'Compiler/src/lex.yy.c', 'Compiler/src/ParserGenerator/grammar.cpp', 'Compiler/src/ParserGenerator/lrdea.cpp',
       'VM/src/instr.cpp', 'VM/src/program.cpp', 'VM/src/vm.cpp']

STD_DENY = ('std::random_device', 'std::rand', 'std::srand', 'std::chrono::', 'std::this_thread::get_id', 'std::locale::global', 'std::time', 'std::clock',
            'std::getenv', 'std::setlocale', 'std::strtok', 'std::localtime', 'std::gmtime', 'std::asctime', 'std::tmpnam', 'std::mt19937', 'std::default_random_engine',
            'std::shuffle', 'std::random_shuffle', 'std::system', 'std::signal', 'std::atexit')
C_ALLOW = ('strtol', 'strtoll', 'strtoul', 'strlen', 'memcpy', 'memset', 'memmove', 'memcmp', 'malloc', 'realloc', 'free', 'calloc', 'fread', 'getc', 'ferror',
           'clearerr', 'fprintf', 'exit', 'fwrite', 'fileno', 'isatty', 'atoi', 'abs', '__errno_location', 'strcmp', 'strncmp', 'strchr', 'putc', 'fputc', 'fputs',
           'isalnum', 'isalpha', 'isdigit', 'isspace', 'isupper', 'islower', 'toupper', 'tolower', 'isxdigit', 'ispunct', 'abort', 'operator new', 'operator delete', 'operator new[]', 'operator delete[]', '__builtin_expect', '__builtin_unreachable', 'snprintf', 'sprintf',
           '__assert_fail')      # what assert() expands to: prints and aborts, no state survives it
C_DENY = ('rand', 'srand', 'time', 'clock', 'getenv', 'setlocale', 'strtok', 'localtime', 'gmtime', 'asctime', 'tmpnam', 'random', 'srandom', 'drand48', 'gettimeofday',
          'clock_gettime', 'getpid', 'system', 'signal', 'setjmp', 'longjmp', 'putenv', 'setenv', 'ctime', 'mktemp', 'tmpfile', 'readdir')


def c18(rep, tier):
    repo = os.environ.get('VERIF_REPO', '/repo')
    units = [u for u in LIB if os.path.exists(os.path.join(repo, u))]
    missing = [u for u in LIB if u not in units]
    if tier == 'thorough' and os.path.exists(os.path.join(repo, 'CLI/cli.cpp')):
        units.append('CLI/cli.cpp')
    facts = Facts(units)
    rep.note_facts(facts)
    # every source file the build covers is analysed
    built = [os.path.relpath(u, repo) for u in all_units(repo)]
    extra = [u for u in built if u not in LIB and not u.startswith('CLI/')]
    P1 = rep.rule('C18.P1', 'objects with static storage duration are const or never written after their initialisation', floor=3)
    if missing or extra:
        P1.unknown('unit list', 'library units changed: missing %s, not analysed %s' % (missing, extra))
    refs = {}
    for f in facts.functions:
        if f['tmpl'] == 'pattern':
            continue
        for g in f.get('global_refs', []):
            refs.setdefault(g['q'], []).append((f, g))
    for q, g in sorted(facts.globals.items()):
        if g['static_local']:
            continue
        where = '%s:%d' % (os.path.relpath(g['loc'][0], repo), g['loc'][1])
        if g['tls']:
            P1.violation('global %s' % q, 'thread_local object: per-thread hidden state', where)
            continue
        muts = [(f, r) for f, r in refs.get(q, []) if r['mutated']]
        if g['const'] or g['constexpr']:
            P1.ok('global %s' % q, 'const (%s), %d read(s)' % (g['cty'][:40], len(refs.get(q, []))), where)
        elif not muts:
            P1.ok('global %s' % q, 'not const, but none of its %d reference(s) can mutate it (ExprMutationAnalyzer)' % len(refs.get(q, [])), where)
        else:
            f, r = muts[0]
            P1.violation('global %s' % q, 'shared mutable state: written in %s (line %d); two compilations or VMs influence each other' % (f['q'], r['loc'][0]), where,
                         witness={'object': q, 'writer': f['q'], 'line': r['loc'][0]})
    P2 = rep.rule('C18.P2', 'no function keeps state between calls (mutable static locals, thread_local)', floor=1)
    n_fn = 0
    for f in facts.functions:
        if f['tmpl'] == 'pattern':
            continue
        n_fn += 1
        for st in walk_stmts(f['body']):
            if st['k'] == 'decl':
                for v in st['vars']:
                    if v.get('static_local') or v.get('tls'):
                        if v.get('const') and not v.get('tls'):
                            P2.ok('%s: static %s' % (f['q'], v['name']), 'const static local', '%s:%d' % (os.path.relpath(f['file'], repo), v['loc'][0]))
                        else:
                            P2.violation('%s: static %s' % (f['q'], v['name']), 'the function keeps mutable state between calls (and between threads)',
                                         '%s:%d' % (os.path.relpath(f['file'], repo), v['loc'][0]))
    P2.ok('static locals inventory', '%d function bodies scanned' % n_fn, nontrivial=False)
    P3 = rep.rule('C18.P3', 'no call of a nondeterministic or process-global-state function', floor=20)
    ext = {}
    for f in facts.functions:
        if f['tmpl'] == 'pattern':
            continue
        for e in walk_all_exprs(f['body']):
            if e.get('k') == 'call' and e.get('callee') and not e.get('callee_in_repo') and not e.get('synthetic'):
                ext.setdefault(e['callee'], []).append((f, e))       # (synthetic: written by the normalisation of iterator loops, the original calls are std:: ones)
            if e.get('k') == 'construct' and not e.get('ctor_in_repo'):
                ext.setdefault(e['rec'].split('<')[0] + '::(ctor)', []).append((f, e))
    # a number written into a string stream is formatted under the global locale (digit grouping, decimal point): std::to_string is not
    for f in facts.functions:
        if f['tmpl'] == 'pattern' or f.get('body') is None:
            continue
        for e in walk_all_exprs(f['body']):
            if not (e.get('k') == 'call' and (e.get('callee') or '').endswith('operator<<') and e.get('obj') is not None and e.get('pty')):
                continue
            if (e['pty'][0] or '').replace('const ', '') not in ('int', 'long', 'long long', 'unsigned int', 'unsigned long', 'unsigned long long', 'short', 'unsigned short',
                                                                'double', 'float', 'long double', 'size_t', 'std::size_t'):
                continue
            root = strip_casts(e['obj'])
            hops = 0
            while root is not None and root.get('k') == 'call' and hops < 20:
                root = strip_casts(root.get('obj') or (root.get('args') or [None])[0])
                hops += 1
            if root is not None and root.get('k') == 'ref' and 'stringstream' in (root.get('cty') or '') and root.get('dk') == 'var':
                P3.violation('%s: %s << number' % (f['q'], root.get('name')), 'a number is formatted through a locally constructed string stream: the text depends on the global C++ locale of the '
                             'process (digit grouping, decimal point) - the same input gives different names or messages in another process state', '%s:%d' % (os.path.relpath(f['file'], repo), e['loc'][0]),
                             witness={'state': 'std::locale::global(a locale with digit grouping), a value of 1000 or more'})
    for name, sites in sorted(ext.items()):
        f, e = sites[0]
        where = '%s:%d' % (os.path.relpath(f['file'], repo), e['loc'][0])
        inst = 'callee %s' % name[:90]
        base = name.split('<')[0]
        if name.startswith(('std::', '__gnu_cxx::', 'std::__cxx11::')) or '::' in base and base.split('::')[0] in ('std', '__gnu_cxx'):
            bad = [d for d in STD_DENY if name.startswith(d)]
            if bad:
                P3.violation(inst, 'nondeterministic or process-global standard facility (%d call site(s), first in %s)' % (len(sites), f['q']), where)
            else:
                P3.ok(inst, 'standard library, value semantics (%d site(s))' % len(sites), where, nontrivial=False)
        else:
            bare = name.split('::')[-1]
            if bare in C_DENY or name in C_DENY:
                P3.violation(inst, 'nondeterministic / process-global C function (%d call site(s), first in %s)' % (len(sites), f['q']), where)
            elif bare in C_ALLOW or name in C_ALLOW or name.startswith('__builtin_'):
                P3.ok(inst, 'reentrant / pure C function (%d site(s))' % len(sites), where)
            elif f['file'].endswith('lex.yy.c') and bare.startswith('yy'):
                P3.ok(inst, 'flex runtime', where, nontrivial=False)
            elif '/include/c++/' in (e.get('callee_file') or '') and not [d for d in STD_DENY if d.split('::')[-1] == bare]:
                # a member of a standard class named through a typedef (iterator::operator+): defined in the C++ library headers
                P3.ok(inst, 'standard library (declared in %s), value semantics (%d site(s))' % (os.path.basename(e['callee_file']), len(sites)), where, nontrivial=False)
            else:
                P3.unknown(inst, 'external function not on the allow or deny list (first call in %s)' % f['q'], where)
    # errno is per-thread state that survives a call: a test of it is history dependent unless this function cleared it first
    from .cfg import CFG
    for f in facts.functions:
        if f.get('body') is None or f['tmpl'] == 'pattern' or f['file'].endswith('lex.yy.c'):
            continue
        uses = [e for e in walk_all_exprs(f['body']) if e.get('k') == 'call' and (e.get('callee') or '') == '__errno_location']
        if not uses:
            continue
        g = CFG(f)
        writes, reads = [], []
        assigned = set()
        for e in walk_all_exprs(f['body']):
            if e.get('k') == 'assign' and e.get('op') == '=':
                for x in walk_expr(e['l']):
                    if x.get('k') == 'call' and (x.get('callee') or '') == '__errno_location':
                        assigned.add(x.get('sid'))
                        writes.append(g.ev(e))
        for u in uses:
            if u.get('sid') not in assigned:
                reads.append(g.ev(u))
        for r in reads:
            cleared = [w for w in writes if g.dominates(w, r)]
            P3.check(bool(cleared), '%s: errno read' % f['q'], 'cleared in this function before it is tested',
                     'errno is tested without having been cleared in this function: the outcome depends on an earlier failing conversion on the same thread '
                     '(an earlier compile() in the process)', '%s:%d' % (os.path.relpath(f['file'], repo), (r.e.get('loc') or [0])[0]), witness={'history': 'compile a source with a literal beyond LONG_MAX, then any source with a number'})
    P4 = rep.rule('C18.P4', 'no container is keyed, ordered or hashed by a pointer value', floor=5)
    n_cont = 0
    seen = set()

    def check_type(cty, what, where):
        nonlocal n_cont
        for m in re.finditer(r'std::(map|set|multimap|multiset|unordered_map|unordered_set)<', cty):
            n_cont += 1
            start = m.end()
            depth, i = 1, start
            key = ''
            while i < len(cty) and depth > 0:
                ch = cty[i]
                if ch == '<':
                    depth += 1
                elif ch == '>':
                    depth -= 1
                    if depth == 0:
                        break
                elif ch == ',' and depth == 1:
                    break
                key += ch
                i += 1
            k = (what, key)
            if k in seen:
                continue
            seen.add(k)
            if key.strip().endswith('*'):
                P4.violation('%s: %s<%s,...>' % (what, m.group(1), key.strip()), 'iteration order depends on addresses, which differ between runs', where)
            else:
                P4.ok('%s: %s<%s,...>' % (what, m.group(1), key.strip()[:40]), 'value key', where, nontrivial=False)
        if 'std::less<' in cty and '*>' in cty:
            P4.violation('%s: std::less<T*>' % what, 'ordering by address', where)
    for r in facts.records.values():
        for fld in r['fields']:
            check_type(fld['cty'], '%s::%s' % (r['q'], fld['name']), '%s:%d' % (os.path.relpath(r['loc'][0], repo), r['loc'][1]))
    for f in facts.functions:
        if f['tmpl'] == 'pattern':
            continue
        for st in walk_stmts(f['body']):
            if st['k'] == 'decl':
                for v in st['vars']:
                    check_type(v['cty'], '%s: %s' % (f['q'], v['name']), '%s:%d' % (os.path.relpath(f['file'], repo), v['loc'][0]))
        for e in walk_all_exprs(f['body']):
            if e.get('k') == 'bin' and e['op'] in ('<', '>', '<=', '>=') and (e['l'].get('cty') or '').endswith('*') and (e['r'].get('cty') or '').endswith('*') \
                    and 'iterator' not in (e['l'].get('cty') or '') and f['file'].startswith(repo) and not f['file'].endswith('lex.yy.c'):
                P4.violation('%s: %s' % (f['q'], show(e)), 'pointers compared by address', '%s:%d' % (os.path.relpath(f['file'], repo), e['loc'][0]))
    P5 = rep.rule('C18.P5', 'the scanner is reentrant and every yylex call uses a scanner object created in the same scan() activation', floor=2)
    spec_txt = open(os.path.join(repo, 'Compiler/src/lexer.l'), encoding='latin1').read()
    P5.check(re.search(r'%option[^\n]*\breentrant\b', spec_txt) is not None, 'lexer.l: reentrant', '%option reentrant', 'the generated scanner keeps its state in globals',
             'Compiler/src/lexer.l')
    scan = facts.fn('Theo::scan')
    okp5 = True
    n_y = 0
    for e in walk_all_exprs(scan['body']):
        if is_call(e, 'yylex'):
            n_y += 1
            a = strip_casts(e['args'][1])
            root, path = field_chain(a)
            # s.s where s refers to an element of the local lex_stack
            okp5 = okp5 and path == ['s'] and root is not None
    stack_local = any(st['k'] == 'decl' and any(v['name'] == 'lex_stack' and not v.get('static_local') for v in st['vars']) for st in walk_stmts(scan['body']))
    P5.check(okp5 and n_y >= 1 and stack_local, 'scan: yylex(&t, s.s)', '%d call(s) use the scanner of a stack that is a local of scan()' % n_y, 'yylex is called with a scanner that outlives the call',
             'Compiler/src/scan.cpp:%d' % scan['loc'][1])
    P6 = rep.rule('C18.P6', 'a VM owns its program by value; program data contains no pointers or references', floor=5)
    vm = facts.record('Theo::VM')
    code = [f for f in vm['fields'] if f['cty'] == 'Theo::Program']
    P6.check(len(code) == 1 and not code[0]['is_ptr'] and not code[0]['is_ref'], 'VM::code', 'Theo::Program by value', 'the VM refers to a program it does not own', 'VM/include/vm.hpp')
    for q in ('Theo::Program', 'Theo::Instruction', 'Theo::BreakPoint', 'Theo::Program::StackMap', 'Theo::CodegenResult'):
        try:
            r = facts.record(q)
        except AnalysisBroken:
            P6.unknown(q, 'record not found')
            continue
        bad = [f['name'] for f in r['fields'] if f['is_ptr'] or f['is_ref'] or 'shared_ptr' in f['cty'] or 'unique_ptr' in f['cty'] or '*' in f['cty']]
        P6.check(not bad, q, 'no pointer / reference / smart-pointer member', 'member(s) %s alias external storage' % bad, '%s:%d' % (os.path.relpath(r['loc'][0], repo), r['loc'][1]))
    act = facts.record('Theo::VM::Activation')
    ptrs = [f['name'] for f in act['fields'] if f['is_ptr'] or f['is_ref']]
    okact = ptrs == ['vm']
    if okact:
        # every construction of an Activation inside VM passes `this`
        for f in facts.functions:
            for e in walk_all_exprs(f['body']):
                if e.get('k') == 'construct' and e.get('rec') == 'Theo::VM::Activation' and not e.get('copy_or_move') and e['args']:
                    okact = okact and strip_casts(e['args'][0]).get('k') == 'this'
    P6.check(okact, 'VM::Activation::vm', 'the only pointer member; always the owning VM (this)', 'activation records point into another object: %s' % ptrs, 'VM/include/vm.hpp')
    P7 = rep.rule('C18.P7', 'compiler state objects are locals of one call (no state survives a call)', floor=3)
    for rec, entry in (('GenState', 'Theo::gen'), ('ParseState', 'Theo::parse'), ('ExtractionState', 'Theo::extract_macros')):
        holders = []
        for f in facts.functions:
            if f['tmpl'] == 'pattern':
                continue
            for st in walk_stmts(f['body']):
                if st['k'] == 'decl':
                    for v in st['vars']:
                        if v['cty'] == rec:
                            holders.append((f['q'], v.get('static_local')))
        glob = [q for q, g in facts.globals.items() if g['cty'].replace('const ', '') == rec]
        ok7 = bool(holders) and all(h == entry and not st for h, st in holders) and not glob
        P7.check(ok7, rec, 'created as an automatic local of %s only' % entry, 'state object held in %s %s' % (holders, glob), entry)
    # arguments the caller keeps (containers passed by non-const reference) are not consumed: a second call with the same
    # objects sees what the first call saw
    P8 = rep.rule('C18.P8', 'functions of the compiler do not move from, clear or assign to containers they receive by reference '
                            '(the caller may pass the same objects again)', floor=2)
    for f in facts.functions:
        if f.get('body') is None or f['tmpl'] == 'pattern' or not f['file'].endswith(('macro.cpp', 'parse.cpp', 'scan.cpp', 'gen.cpp', 'compiler.cpp')):
            continue
        public_api = f['q'] in ('Theo::scan', 'Theo::extract_macros', 'Theo::apply_macros', 'Theo::parse', 'Theo::gen', 'Theo::compile', 'Theo::recover_from_tokens')
        refparams = [p for p in f['params'] if '&' in (p.get('cty') or '') and not (p.get('cty') or '').startswith('const ') and
                     ('std::vector<' in p['cty'] or 'std::map<' in p['cty']) and ('Theo::MacroDefinition' in p['cty'] or public_api)]
        for p in refparams:
            aliases = {p['d']}
            for st in walk_stmts(f['body']):
                if st['k'] == 'rangefor' and strip_casts(st['range']).get('d') in aliases and st['var'].get('is_ref') and not (st['var'].get('cty') or '').startswith('const '):
                    aliases.add(st['var']['d'])
            consumed = None
            for e in walk_all_exprs(f['body']):
                if e.get('k') == 'call' and (e.get('callee') or '').split('<')[0] in ('std::move', 'std::exchange', 'std::swap') and \
                        any(x.get('k') == 'ref' and x.get('d') in aliases for a in e['args'] for x in walk_expr(a)):
                    consumed = e
                if e.get('k') == 'call' and e.get('obj') is not None and strip_casts(e['obj']).get('d') in aliases and \
                        (e.get('callee') or '').split('::')[-1] in ('clear', 'erase', 'pop_back', 'swap', 'operator=', 'resize', 'assign', 'insert', 'push_back', 'emplace_back', 'emplace', 'operator[]'):
                    if (e.get('callee') or '').split('::')[-1] != 'operator[]' or 'std::map<' in (p.get('cty') or ''):
                        consumed = e
            inst = '%s: parameter %s' % (f['q'].split('::')[-1], p['name'])
            P8.check(consumed is None, inst, 'only read', 'the caller\'s %s is modified (%s): a second call with the same objects behaves differently (e.g. apply_macros '
                     'twice with the definitions extracted once)' % (p['name'], show(consumed)[:60] if consumed else ''),
                     '%s:%d' % (os.path.relpath(f['file'], repo), (consumed or {}).get('loc', f['loc'][1:])[0] if consumed else f['loc'][1]))
    # no result depends on stack residue: scalar locals are assigned before they are read (all units, the VM included)
    from .genrules import uninitialised_reads
    from .props_c02 import Multi as _Multi
    P10 = rep.rule('C18.P10', 'a scalar local that is declared without an initialiser is assigned on every path before it is read '
                              '(its value would otherwise be whatever an earlier call left on the stack)', floor=1)
    M10 = _Multi(facts)
    nf10 = nv10 = 0
    for f in facts.functions:
        if f.get('body') is None or f['tmpl'] == 'pattern' or f['file'].endswith('lex.yy.c'):
            continue
        try:
            res10 = uninitialised_reads(M10, f)
        except AnalysisBroken:
            continue
        nf10 += 1
        for v, ev in res10:
            nv10 += 1
            P10.violation('%s: %s' % (f['q'], v['name']), '%s is declared without a value (line %d) and read at line %d on a path that assigns nothing to it: the outcome depends on '
                          'what ran earlier on this thread' % (v['name'], v['loc'][0], ev.e['loc'][0]), '%s:%d' % (os.path.relpath(f['file'], repo), ev.e['loc'][0]),
                          witness={'variable': v['name'], 'read_at_line': ev.e['loc'][0]})
    P10.ok('definite assignment', '%d function bodies analysed' % nf10, 'Compiler/src, VM/src')
    # the syntax tree a caller hands to gen() is the caller's: the generator reads the nodes, it does not move from or write to them
    for f in facts.functions:
        if f.get('body') is None or f['tmpl'] == 'pattern' or not f['file'].endswith('gen.cpp'):
            continue
        for e in walk_all_exprs(f['body']):
            hit = None
            if e.get('k') == 'call' and (e.get('callee') or '').split('<')[0] in ('std::move', 'std::exchange', 'std::swap'):
                for a in e.get('args', []):
                    a0 = strip_casts(a)
                    if a0 is not None and a0.get('k') == 'member' and 'Node' in (strip_casts(a0['base']).get('cty') or ''):
                        hit = a0
            if e.get('k') == 'assign':
                l = strip_casts(e['l'])
                if l is not None and l.get('k') == 'member' and (strip_casts(l['base']).get('cty') or '').replace('const ', '') in ('Theo::Node *', 'Node *', 'Theo::Node'):
                    hit = l
            if hit is not None:
                P8.violation('%s: %s' % (f['q'].split('::')[-1], show(e)[:50]), 'the generator modifies a node of the syntax tree it was given (%s): a second gen() on the same tree - the tree '
                             'belongs to the caller - sees another program' % show(hit), '%s:%d' % (os.path.relpath(f['file'], repo), e['loc'][0]),
                             witness={'calls': 'parse once, gen twice on the same AST'})
    rep.extra['static_objects'] = len([g for g in facts.globals.values() if not g['static_local']])
    rep.extra['external_callees'] = len(ext)
    rep.extra['functions_scanned'] = n_fn
