"""Rules over the code generator (engine E2): C03, C08, C16, C07 (emission discipline),
C20.A2/A3 (literal conversion), C01.e/f, C04.e.  Anchors are declarations (functions, fields,
factories) resolved by clang; every rule reports file:line of the construct it judged."""
import os

from .facts import (AnalysisBroken, walk_expr, walk_all_exprs, walk_stmts, show, strip_casts, strip_copies,
                    member_path, stmt_children, Facts)
from .genrules import GenModel, callers_of, field_chain, is_call
from .cfg import CFG

REGTYPE = 'RegisterIndex'


def W(model, f, e=None):
    rel = os.path.relpath(f['file'], model.facts.repo)
    loc = (e.get('loc') if isinstance(e, dict) else e) if e is not None else f['loc'][1:]
    return '%s:%d' % (rel, loc[0]) if loc else rel


def fname(f):
    return f['q']


# ----------------------------------------------------------------------------- provenance
class Prov:
    def __init__(self, model):
        self.m = model

    def is_cur_symbols(self, f, e):
        """e denotes the current routine's FunctionGenState: gs.getSymbols() or a reference bound to it"""
        e = strip_casts(e)
        if is_call(e, 'GenState::getSymbols'):
            return True
        if e is not None and e.get('k') == 'ref' and e.get('dk') == 'var':
            o = self.m.origin(f, e)
            return is_call(o, 'GenState::getSymbols')
        if e is not None and e.get('k') == 'this' and f.get('rec') == 'FunctionGenState':
            return True
        return False

    def of(self, f, e, seen=None):
        seen = seen or set()
        e = strip_casts(e)
        if e is None:
            return {'UNKNOWN:none'}
        k = e.get('k')
        if k == 'int':
            return {('LIT', e['v'])}
        if k == 'un' and e['op'] == '-' and e['e'].get('k') == 'int':
            return {('LIT', -e['e']['v'])}
        if k == 'call':
            c = self.m.callee(e)
            if c in ('FunctionGenState::fetchTemporary', 'FunctionGenState::fetchVariableRegister'):
                if self.is_cur_symbols(f, e.get('obj')):
                    return {'REG'}
                return {'UNKNOWN:register of another routine: ' + show(e)}
            if c == 'GenState::createLabel':
                return {'LABEL'}
            if c.endswith('::operator[]') and e.get('obj') is not None:
                o = strip_casts(e['obj'])
                octy = (o.get('cty') or '')
                if octy.startswith('std::vector<int'):
                    return self.container(f, o, seen)
                root, path = member_path(o)
                if path[-1:] == ['marks']:
                    return {'LABEL'}
            return {'UNKNOWN:' + show(e)}
        if k == 'member' and e.get('mk') == 'field':
            return {('FIELD', show(e))}
        if k == 'ref':
            key = (f['sig'], e.get('d'), e.get('name'))
            if key in seen:
                return set()
            seen = seen | {key}
            if e.get('dk') == 'param':
                idx = None
                for i, p in enumerate(f['params']):
                    if p['d'] == e['d']:
                        idx = i
                res = set()
                cs = callers_of(self.m, f['q'])
                if not cs:
                    return {'UNKNOWN:parameter %s of uncalled %s' % (e['name'], f['q'])}
                for (g, call) in cs:
                    if idx is not None and idx < len(call['args']):
                        res |= self.of(g, call['args'][idx], seen)
                return res
            if e.get('dk') == 'var':
                ds = self.m.defs(f).get(e['d'], [])
                if not ds:
                    return {'UNKNOWN:undefined local ' + e['name']}
                # loop index bounded by v.size()?
                if any(d[0] == 'incdec' for d in ds):
                    b = self.loop_bound(f, e)
                    if b is not None:
                        return {('ARGIDX', b)}
                    return {'UNKNOWN:counter ' + e['name']}
                res = set()
                for kind, rhs, _ in ds:
                    if kind == 'each':
                        res |= self.container(f, strip_casts(rhs), seen)
                    else:
                        res |= self.of(f, rhs, seen)
                return res
        return {'UNKNOWN:' + show(e)}

    def loop_bound(self, f, ref):
        """for (i = 0; i < v.size(); i++): returns did of v"""
        for st in walk_stmts(f['body']):
            if st['k'] == 'for' and st.get('c') and st['c'].get('k') == 'bin' and st['c']['op'] == '<':
                l = strip_casts(st['c']['l'])
                r = strip_casts(st['c']['r'])
                if l.get('k') == 'ref' and l.get('d') == ref['d'] and is_call(r, '::size') and r.get('obj') is not None:
                    o = strip_casts(r['obj'])
                    if o.get('k') == 'ref':
                        init = st.get('init')
                        ok = init and init['k'] == 'decl' and init['vars'][0]['d'] == ref['d'] and \
                            strip_casts(init['vars'][0]['init']).get('k') == 'int' and strip_casts(init['vars'][0]['init'])['v'] == 0
                        if ok:
                            return o.get('d')
        return None

    def container(self, f, o, seen):
        """provenance of the elements of vector variable o (ref) in f: union over push_back sites,
        following by-reference passing into callees"""
        if o.get('k') != 'ref':
            return {'UNKNOWN:container ' + show(o)}
        key = ('cont', f['sig'], o.get('d'))
        if key in seen:
            return set()
        seen = seen | {key}
        res = set()
        found = False
        for e in walk_all_exprs(f['body']):
            if e.get('k') != 'call':
                continue
            if self.m.callee(e).endswith('::push_back') and e.get('obj') is not None and self.m.same_var(e['obj'], o):
                res |= self.of(f, e['args'][0], seen)
                found = True
            elif e.get('callee_in_repo'):
                for i, a in enumerate(e['args']):
                    if self.m.same_var(a, o):
                        gs = self.m.by_q.get(self.m.callee(e), [])
                        for g in gs:
                            if i < len(g['params']):
                                pr = {'k': 'ref', 'dk': 'param', 'd': g['params'][i]['d'], 'name': g['params'][i]['name']}
                                r = self.container(g, pr, seen)
                                res |= r
                                found = found or bool(r)
        if o.get('dk') == 'param':
            # elements may also come from the callers' vectors
            idx = [i for i, p in enumerate(f['params']) if p['d'] == o['d']]
            for (g, call) in callers_of(self.m, f['q']):
                if idx and idx[0] < len(call['args']):
                    a = strip_casts(call['args'][idx[0]])
                    if a.get('k') == 'ref':
                        res |= self.container(g, a, seen)
        return res


# ============================================================================= C03
def c03(rep, tier):
    model = GenModel()
    rep.note_facts(model.facts)
    m = model
    gen = m.fn('Theo::gen')
    g = m.cfg(gen)
    rep.analysed(gen)
    me = m.may_emit()

    # ---------------------------------------------------------------- a: frame
    A = rep.rule('C03.a', 'the program starts with the root PREPARE (patched from the finished root routine) and ends '
                          'in HALT; backpatching runs after the last emission', floor=5)
    emits = m.emission_events(gen)
    prep = [ev for ev in emits if any(m.is_factory(x, 'PrepareExec') for x in walk_expr(ev.e))]
    halt = [ev for ev in emits if any(m.is_factory(x, 'Halt') for x in walk_expr(ev.e))]
    if len(prep) != 1 or len(halt) != 1:
        A.unknown('Theo::gen', 'expected one PrepareExec and one Halt emission, found %d / %d' % (len(prep), len(halt)))
    else:
        prep, halt = prep[0], halt[0]
        others = [ev for ev in emits if ev is not prep]
        A.check(all(g.dominates(prep, ev) for ev in others) and g.on_all_paths(prep), 'gen: root PREPARE is the first emission',
                'emit(PrepareExec) dominates the %d other emitting calls' % len(others),
                'another emission can precede the root PREPARE', W(m, gen, prep.e))
        late = [ev for ev in emits if ev is not halt and g.can_follow(halt, ev)]
        A.check(not late and g.on_all_paths(halt), 'gen: HALT is the last emission', 'no emitting call can follow emit(Halt); it is on every path',
                'an emission can follow the final HALT: %s' % (show(late[0].e) if late else 'HALT not on all paths'), W(m, gen, halt.e))
        bp = g.calls_to('GenState::backpatch')
        if len(bp) != 1:
            A.unknown('gen: backpatch', '%d backpatch calls' % len(bp))
        else:
            after = [ev for ev in emits if g.can_follow(bp[0], ev)]
            A.check(g.on_all_paths(bp[0]) and g.dominates(halt, bp[0]) and not after, 'gen: backpatch after the last emission',
                    'backpatch() is on every path, after emit(Halt), followed by no emission',
                    'backpatch() does not run after all emissions', W(m, gen, bp[0].e))
        # root patch
        pushes = g.calls_to('GenState::pushSymbols')
        pops = g.calls_to('GenState::popSymbols')
        root_name = m.strval(gen, pushes[0].e['args'][0]) if len(pushes) == 1 else None
        patched = {}
        for ev in g.events:
            e = ev.e
            if e.get('k') == 'assign' and e['op'] == '=':
                root, path = field_chain(e['l'])
                if path[-3:-1] == ['parameters', 'prepare'] and is_call(root, '::operator[]'):
                    idx = strip_casts(root['args'][0])
                    oroot, opath = field_chain(root['obj'])
                    if opath[-2:] == ['out', 'code'] and idx.get('k') == 'int' and idx['v'] == 0:
                        patched[path[-1]] = (ev, e['r'])
        want = {'count': 'stack_size', 'index': 'mi'}
        for fld, src in want.items():
            inst = 'gen: code[0].prepare.%s' % fld
            if fld not in patched:
                A.violation(inst, 'the root PREPARE operand %s is never patched (stays -1)' % fld, W(m, gen))
                continue
            ev, rhs = patched[fld]
            root, path = field_chain(rhs)
            o = m.origin(gen, root) if root is not None else None
            key = None
            if is_call(o, '::operator[]'):
                oroot, opath = field_chain(o['obj'])
                if opath[-1:] == ['funcAddrs']:
                    key = m.strval(gen, o['args'][0])
            ok = path == [src] and key is not None and key == root_name and len(pops) == 1 and g.dominates(pops[0], ev) \
                and g.on_all_paths(ev)
            A.check(ok, inst, ':= funcAddrs["%s"].%s after popSymbols' % (root_name, src),
                    'patched from %s (expected funcAddrs["%s"].%s after the root routine is finished)' % (show(rhs), root_name, src),
                    W(m, gen, ev.e))

    # ---------------------------------------------------------------- b: register provenance
    B = rep.rule('C03.b', 'every register operand handed to an Instruction factory was produced by the current '
                          'routine\'s allocator (Arg.target: an index below the argument count)', floor=19)
    prov = Prov(m)
    n_sites = 0
    for f in m.all_fns():
        for e in walk_all_exprs(f['body']):
            if e.get('k') == 'call' and m.is_factory(e):
                n_sites += 1
                fac = m.callee(e).split('::')[-1]
                regs = [(i, t) for i, t in enumerate(e.get('pty', [])) if REGTYPE in t]
                if not regs:
                    B.ok('%s: %s' % (fname(f), show(e)), 'no register operand', W(m, f, e), nontrivial=False)
                    continue
                for i, t in regs:
                    a = e['args'][i]
                    pv = prov.of(f, a)
                    inst = '%s: %s arg %d' % (fname(f), fac, i)
                    unk = [x for x in pv if isinstance(x, str) and x.startswith('UNKNOWN')]
                    if unk:
                        B.unknown(inst, 'cannot determine provenance of %s: %s' % (show(a), unk[0]), W(m, f, e))
                    elif pv == {'REG'}:
                        B.ok(inst, '%s comes from fetchTemporary/fetchVariableRegister of the current routine' % show(a), W(m, f, e))
                    elif fac == 'Arg' and i == 0 and len(pv) == 1 and list(pv)[0][0] == 'ARGIDX':
                        B.ok(inst, 'callee-frame index %s < number of arguments (= callee argnum, C03.f) <= callee frame (C03.e)' % show(a), W(m, f, e))
                    elif fac == 'PrepareExec' and f['q'] == 'Theo::gen' and all(isinstance(x, tuple) and x[0] == 'LIT' for x in pv):
                        B.ok(inst, 'root frame: return target never used (the root ends in HALT, RET is emitted only inside PROGRAM bodies)', W(m, f, e))
                    else:
                        B.violation(inst, 'register operand %s has provenance %s, not the current routine\'s allocator' % (show(a), sorted(map(str, pv))), W(m, f, e))
    rep.extra['factory_call_sites'] = n_sites

    # ---------------------------------------------------------------- c: register scope
    Cc = rep.rule('C03.c', 'symbol tables are pushed/popped only around a routine; registers are fetched and used '
                           'between the push and the pop', floor=2)
    for q in ('GenState::pushSymbols', 'GenState::popSymbols'):
        for (f, call) in callers_of(m, q):
            if f['q'] not in ('dispatchProgram', 'Theo::gen'):
                Cc.violation('%s calls %s' % (f['q'], q.split('::')[-1]), 'symbol table manipulated outside routine generation', W(m, f, call))
    for f in (m.fn('dispatchProgram'), gen):
        gg = m.cfg(f)
        rep.analysed(f)
        pu, po = gg.calls_to('GenState::pushSymbols'), gg.calls_to('GenState::popSymbols')
        if len(pu) != 1 or len(po) != 1:
            Cc.unknown(f['q'], '%d pushSymbols / %d popSymbols' % (len(pu), len(po)))
            continue
        pu, po = pu[0], po[0]
        bad = []
        if not (gg.dominates(pu, po) and gg.postdominates(po, pu) and gg.on_all_paths(pu)):
            bad.append('push/pop not paired on every path')
        for ev in gg.calls():
            c = m.callee(ev.e)
            if c.startswith('FunctionGenState::') or c == 'GenState::getSymbols' or (c in me and c not in ('GenState::emit', 'GenState::emitBackpatched', 'GenState::breakpoint') and c.startswith('dispatch')):
                if c.startswith('dispatch') and f['q'] == 'dispatchProgram' and False:
                    continue
                if c.startswith('FunctionGenState::') or c == 'GenState::getSymbols':
                    if not gg.dominates(pu, ev):
                        bad.append('%s before pushSymbols' % show(ev.e))
                    if gg.can_follow(po, ev):
                        bad.append('%s after popSymbols' % show(ev.e))
        # uses of register variables after the pop
        regvars = set()
        for d, ds in m.defs(f).items():
            for kind, rhs, _ in ds:
                if rhs is not None and kind == 'init' and prov.of(f, rhs) == {'REG'}:
                    regvars.add(d)
        for ev in gg.events:
            if ev.e.get('k') == 'ref' and ev.e.get('d') in regvars and gg.can_follow(po, ev):
                bad.append('register %s used after popSymbols' % ev.e['name'])
        Cc.check(not bad, '%s: push/pop scope' % f['q'], 'pushSymbols dominates and popSymbols post-dominates every allocator use',
                 '; '.join(bad), W(m, f, pu.e))

    # ---------------------------------------------------------------- d: monotone frames
    D = rep.rule('C03.d', 'a routine\'s register file only grows (push_back / element-field writes) and the frame size '
                          'is its final size', floor=3)
    MUT_OK = ('push_back', 'emplace_back')
    ACCESS = ('operator[]', 'size', 'at', 'begin', 'end', 'back', 'empty', 'cbegin', 'cend')
    for f in m.all_fns():
        for e in walk_all_exprs(f['body']):
            if e.get('k') == 'call' and e.get('obj') is not None:
                root, path = field_chain(e['obj'])
                if path[-1:] == ['register_state']:
                    short = m.callee(e).split('::')[-1]
                    inst = '%s: register_state.%s' % (f['q'], short)
                    if short in MUT_OK or short in ACCESS:
                        D.ok(inst, 'growth or access', W(m, f, e), nontrivial=short in MUT_OK)
                    else:
                        D.violation(inst, 'register file modified by %s: registers already handed out may be invalidated' % short, W(m, f, e))
            if e.get('k') == 'assign':
                root, path = field_chain(e['l'])
                if path[-1:] == ['register_state']:
                    D.violation('%s: register_state = ...' % f['q'], 'register file reassigned', W(m, f, e))
    pop = m.fn('GenState::popSymbols')
    rep.analysed(pop)
    gp = m.cfg(pop)
    prog_inits = [e for e in walk_all_exprs(pop['body']) if e.get('k') == 'init' and (e.get('rec') or '').endswith('Prog')]
    if len(prog_inits) != 1:
        D.unknown('popSymbols: Prog record', '%d Prog initialisers' % len(prog_inits))
        pf = {}
    else:
        pf = dict((n, v) for n, v in prog_inits[0]['fields'])
        ss = strip_casts(pf.get('stack_size'))
        ok = is_call(ss, '::size') and field_chain(ss['obj'])[1][-1:] == ['register_state']
        fg_root = field_chain(ss['obj'])[0] if ok else None
        fg_o = m.origin(pop, fg_root) if fg_root is not None else None
        ok = ok and (is_call(fg_o, 'GenState::getSymbols') or is_call(fg_root, 'GenState::getSymbols'))
        D.check(ok, 'popSymbols: Prog.stack_size', '= register_state.size() of the routine being finished',
                'frame size is %s' % show(pf.get('stack_size')), W(m, pop, prog_inits[0]))

    # ---------------------------------------------------------------- e: one register per parameter
    E = rep.rule('C03.e', 'every counted parameter owns a register: each increment of argnum is paired with an '
                          'unconditional growth of the register file, and parameters are allocated first', floor=2)
    da = m.fn('dispatchArgs')
    rep.analysed(da)
    gd = m.cfg(da)
    incs = []
    for ev in gd.events:
        e = ev.e
        if (e.get('k') == 'un' and e['op'] in ('++',)) or (e.get('k') == 'assign' and e['op'] == '+='):
            tgt = e.get('e') or e.get('l')
            if field_chain(tgt)[1][-1:] == ['argnum']:
                incs.append(ev)
    if not incs:
        E.unknown('dispatchArgs', 'no increment of argnum found')
    definite = set()
    for f in m.all_fns():
        if f.get('rec') == 'FunctionGenState':
            gf = m.cfg(f)
            for ev in gf.calls():
                if m.callee(ev.e).split('::')[-1] in MUT_OK and field_chain(ev.e['obj'])[1][-1:] == ['register_state'] and gf.on_all_paths(ev):
                    definite.add(f['q'])
    for a in incs:
        growth = []
        maybe = []
        for ev in gd.calls():
            c = m.callee(ev.e)
            direct = c.split('::')[-1] in MUT_OK and ev.e.get('obj') is not None and field_chain(ev.e['obj'])[1][-1:] == ['register_state']
            if direct or c in definite:
                if gd.postdominates(ev, a) or (gd.dominates(ev, a) and gd.postdominates(a, ev)):
                    growth.append(ev)
            elif c in ('FunctionGenState::fetchVariableRegister', 'FunctionGenState::fetchTemporary'):
                maybe.append(ev)
        errs = [ev for ev in gd.calls() if m.callee(ev.e) in ('GenState::err', 'GenState::verr')]
        inst = 'dispatchArgs: argnum++'
        if len(growth) == 1:
            E.ok(inst, 'paired with %s on every path' % show(growth[0].e)[:80], W(m, da, a.e))
        elif len(growth) > 1:
            E.violation(inst, 'a parameter allocates %d registers but argument i is copied to register i' % len(growth), W(m, da, a.e))
        elif errs:
            E.unknown(inst, 'growth is conditional and an error path exists: pairing not understood')
        else:
            E.violation(inst, 'argnum is incremented but the register file grows only conditionally (%s does not allocate for a '
                              'repeated name): frame smaller than the argument count, ARG writes past the callee frame'
                        % (show(maybe[0].e)[:60] if maybe else 'no allocation'), W(m, da, a.e),
                        witness={'input': 'PROGRAM f IN a, a OUT a DO a := a END x1 := RUN f WITH 1, 2 END',
                                 'effect': 'PREPARE count=1, ARG 1 -> heap-buffer-overflow in VM ARG handler'})
    dp = m.fn('dispatchProgram')
    gdp = m.cfg(dp)
    pu = gdp.calls_to('GenState::pushSymbols')
    dacall = gdp.calls_to('dispatchArgs')
    if len(pu) == 1 and len(dacall) == 1:
        between = [ev for ev in gdp.calls() if gdp.can_follow(pu[0], ev) and gdp.can_follow(ev, dacall[0]) and
                   (m.callee(ev.e).startswith('FunctionGenState::') or (m.callee(ev.e).startswith('dispatch') and ev is not dacall[0]))]
        E.check(gdp.dominates(pu[0], dacall[0]) and not between, 'dispatchProgram: parameters first',
                'dispatchArgs runs on the fresh symbol table before any other allocation', 'allocation before dispatchArgs: %s' % (
                    [show(b.e) for b in between]), W(m, dp, dacall[0].e))
    else:
        E.unknown('dispatchProgram', 'pushSymbols/dispatchArgs call not unique')

    # ---------------------------------------------------------------- f: call sequence
    F = rep.rule('C03.f', 'PREPARE / ARG loop / EXEC use one looked-up record of the callee, guarded by the failed-lookup '
                          'and argument-count returns; popSymbols records (entry, stack map just pushed, argnum, frame size)', floor=6)
    dv = m.fn('dispatchValue')
    rep.analysed(dv)
    gv = m.cfg(dv)
    prep = [ev for ev in gv.calls() if m.is_factory(ev.e, 'PrepareExec')]
    exe = [ev for ev in gv.calls() if m.is_factory(ev.e, 'Exec')]
    argf = [ev for ev in gv.calls() if m.is_factory(ev.e, 'Arg')]
    if len(prep) != 1 or len(exe) != 1 or len(argf) != 1:
        F.unknown('dispatchValue', 'call sequence factories not unique: %d/%d/%d' % (len(prep), len(argf), len(exe)))
    else:
        prep, exe, argf = prep[0], exe[0], argf[0]
        recs = {}
        for name, ev, idx in (('count', prep, 0), ('index', prep, 1), ('entry', exe, 0)):
            root, path = field_chain(ev.e['args'][idx])
            recs[name] = (root, path)
        wantf = {'count': 'stack_size', 'index': 'mi', 'entry': 'ind'}
        roots = set()
        for name, (root, path) in recs.items():
            ok = path == [wantf[name]] and root is not None and root.get('k') == 'ref'
            if ok:
                roots.add(root['d'])
            F.check(ok, 'dispatchValue: %s operand' % name, '= <record>.%s' % wantf[name],
                    'operand is %s, expected the callee record\'s %s' % (show((prep if name != 'entry' else exe).e['args'][0 if name != 'index' else 1]), wantf[name]),
                    W(m, dv, (prep if name != 'entry' else exe).e))
        if len(roots) == 1:
            d = roots.pop()
            ds = m.defs(dv).get(d, [])
            o = strip_casts(ds[0][1]) if len(ds) == 1 else None
            o = strip_copies(o) if o else None
            okrec = is_call(o, '::operator[]') and field_chain(o['obj'])[1][-1:] == ['funcAddrs']
            keyvar = strip_casts(o['args'][0]) if okrec else None
            # guards: failed lookup returns, argnum mismatch returns
            guards = gv.guards_of(prep)
            lookup_ok = argn_ok = False
            for cond, label, cn in guards:
                c = strip_casts(cond)
                if label is False and c.get('k') == 'call' and c.get('op') == '==' :
                    fnd = [x for x in walk_expr(c) if is_call(x, '::find')]
                    if fnd and field_chain(fnd[0]['obj'])[1][-1:] == ['funcAddrs'] and keyvar is not None and m.same_var(fnd[0]['args'][0], keyvar):
                        lookup_ok = True
                if label is False and c.get('k') == 'bin' and c['op'] == '!=':
                    sides = [strip_casts(c['l']), strip_casts(c['r'])]
                    fl = [s for s in sides if field_chain(s)[1] == ['argnum'] and field_chain(s)[0].get('d') == d]
                    sz = [s for s in sides if is_call(s, '::size')]
                    if fl and sz:
                        argn_ok = sz[0]['obj']
            F.check(okrec and lookup_ok, 'dispatchValue: record lookup', 'record = funcAddrs[name], dominated by the failed-lookup return on the same name',
                    'callee record is %s; failed-lookup guard %s' % (show(o) if o else None, lookup_ok), W(m, dv, prep.e))
            # Arg loop bound is the same vector compared with argnum
            pv = Prov(m).of(dv, argf.e['args'][0])
            same = False
            if argn_ok is not False and len(pv) == 1 and list(pv)[0][0] == 'ARGIDX':
                same = strip_casts(argn_ok).get('d') == list(pv)[0][1]
            F.check(argn_ok is not False and same, 'dispatchValue: argument count', 'one Arg per element of the vector whose size equals record.argnum (mismatch returns first)',
                    'Arg loop is not bounded by the vector compared with argnum', W(m, dv, argf.e))
            F.check(gv.dominates(prep, argf) and gv.dominates(argf, exe) or (gv.dominates(prep, exe)), 'dispatchValue: order', 'PrepareExec before Arg before Exec',
                    'call sequence out of order', W(m, dv, exe.e))
        else:
            F.violation('dispatchValue: one record', 'PREPARE and EXEC operands come from different records', W(m, dv, prep.e))
    if pf:
        sm_push = [ev for ev in gp.calls() if m.callee(ev.e).endswith('::push_back') and field_chain(ev.e['obj'])[1][-1:] == ['stack_maps']]
        checks = {
            'ind': lambda e: strip_casts(e).get('k') == 'ref' and strip_casts(e).get('dk') == 'param',
            'argnum': lambda e: field_chain(e)[1] == ['argnum'],
        }
        for fld, pred in checks.items():
            F.check(fld in pf and pred(pf[fld]), 'popSymbols: Prog.%s' % fld, show(pf.get(fld)), 'Prog.%s = %s' % (fld, show(pf.get(fld))), W(m, pop, prog_inits[0]))
        mi = strip_casts(pf.get('mi'))
        ok = False
        if mi is not None and mi.get('k') == 'bin' and mi['op'] == '-':
            l, r = strip_casts(mi['l']), strip_casts(mi['r'])
            if is_call(l, '::size') and field_chain(l['obj'])[1][-1:] == ['stack_maps'] and r.get('k') == 'int' and r['v'] == 1 and len(sm_push) == 1:
                ok = gp.dominates(sm_push[0], gp.ev(prog_inits[0]))
        F.check(ok, 'popSymbols: Prog.mi', 'index of the stack map pushed just before', 'stack-map index is %s' % show(pf.get('mi')), W(m, pop, prog_inits[0]))
        # funcAddrs[fgs.name] = p
        reg = [e for e in walk_all_exprs(pop['body']) if e.get('k') == 'call' and m.callee(e).endswith('::operator=') and is_call(strip_casts(e.get('obj')), '::operator[]')
               and field_chain(strip_casts(e['obj'])['obj'])[1][-1:] == ['funcAddrs']]
        F.check(len(reg) == 1, 'popSymbols: registration', 'funcAddrs[name] = record', 'no registration of the finished routine', W(m, pop))

    # ---------------------------------------------------------------- g: jumps
    G = rep.rule('C03.g', 'jumps are emitted only through emitBackpatched with a label operand; every created label is set '
                          'exactly once on every path; unset marks are reported; backpatch rewrites both jump kinds', floor=12)
    for f in m.all_fns():
        gg = None
        for e in walk_all_exprs(f['body']):
            if e.get('k') == 'call' and (m.is_factory(e, 'Jmp') or m.is_factory(e, 'JmpC')):
                # must be the argument of emitBackpatched
                parent_ok = False
                for p in walk_all_exprs(f['body']):
                    if is_call(p, 'GenState::emitBackpatched') and any(strip_copies(strip_casts(a)) is e or e in list(walk_expr(a)) for a in p['args']):
                        parent_ok = True
                pv = prov.of(f, e['args'][0])
                inst = '%s: %s' % (f['q'], show(e))
                if not parent_ok:
                    G.violation(inst, 'jump emitted without registering it for backpatching: its operand stays a label number', W(m, f, e))
                elif pv != {'LABEL'}:
                    G.violation(inst, 'jump operand %s is not a label (provenance %s)' % (show(e['args'][0]), sorted(map(str, pv))), W(m, f, e))
                else:
                    G.ok(inst, 'label operand, registered for backpatching', W(m, f, e))
    # labels created into locals are set exactly once
    for f in m.all_fns():
        gg = None
        for d, ds in m.defs(f).items():
            for kind, rhs, decl in ds:
                if kind == 'init' and is_call(strip_casts(rhs), 'GenState::createLabel'):
                    gg = gg or m.cfg(f)
                    sets = [ev for ev in gg.calls_to('GenState::setLabel') if strip_casts(ev.e['args'][0]).get('d') == d]
                    inst = '%s: label %s' % (f['q'], decl['name'])
                    if len(sets) == 1 and gg.on_all_paths(sets[0]):
                        pos = strip_casts(sets[0].e['args'][1])
                        okpos = is_call(pos, 'GenState::getNextPos') or is_call(pos, 'GenState::getMarkPos')
                        G.check(okpos, inst, 'set exactly once on every path, at the current emission position',
                                'label set to %s, not an emission position' % show(pos), W(m, f, sets[0].e))
                    else:
                        G.violation(inst, 'label is set %d time(s) / not on every path: jumps to it are never resolved or resolved twice' % len(sets), W(m, f, rhs))
    # marks: setLabel(marks[name], getMarkPos())
    dm = m.fn('dispatchMark')
    gm = m.cfg(dm)
    sets = gm.calls_to('GenState::setLabel')
    ok = len(sets) == 1 and gm.on_all_paths(sets[0]) and prov.of(dm, sets[0].e['args'][0]) == {'LABEL'} and \
        (is_call(strip_casts(sets[0].e['args'][1]), 'GenState::getMarkPos') or is_call(strip_casts(sets[0].e['args'][1]), 'GenState::getNextPos'))
    G.check(ok, 'dispatchMark: setLabel', 'the mark\'s label is set at the current position on every path', 'mark label not set', W(m, dm))
    # marks[...] reads are preceded by the find/create idiom; marks only ever receive createLabel()
    for f in m.all_fns():
        gg = None
        for e in walk_all_exprs(f['body']):
            if e.get('k') == 'call' and m.callee(e).endswith('::operator=') is False and e.get('k') == 'assign':
                pass
        for e in walk_all_exprs(f['body']):
            if e.get('k') == 'assign':
                l = strip_casts(e['l'])
                if is_call(l, '::operator[]') and field_chain(l['obj'])[1][-1:] == ['marks']:
                    G.check(is_call(strip_casts(e['r']), 'GenState::createLabel'), '%s: marks[...] = ...' % f['q'], 'fresh label',
                            'mark table receives %s, not a fresh label' % show(e['r']), W(m, f, e))
    # unset marks are reported
    errs = [ev for ev in gp.calls_to('GenState::err')]
    loopok = False
    for st in walk_stmts(pop['body']):
        if st['k'] == 'rangefor' and field_chain(st['range'])[1][-1:] == ['marks']:
            conds = [s2 for s2 in walk_stmts(st['body']) if s2['k'] == 'if']
            for c in conds:
                txt = c['c']
                if txt.get('k') == 'bin' and txt['op'] == '==' and any(x.get('k') == 'int' and x['v'] == 1 for x in walk_expr(txt['r'])):
                    lab = [x for x in walk_expr(txt['l']) if is_call(x, '::operator[]') and field_chain(x['obj'])[1][-1:] == ['labels']]
                    call_err = [x for x in walk_all_exprs(c['t']) if is_call(x, 'GenState::err') and 'UNKNOWN_MARK' in show(x)]
                    if lab and call_err:
                        loopok = True
    G.check(loopok, 'popSymbols: unset marks', 'every mark whose label is still -1 is reported as UNKNOWN_MARK',
            'marks that are referenced but never set are not reported', W(m, pop))
    bpf = m.fn('GenState::backpatch')
    rep.analysed(bpf)
    kinds = {}
    for st in walk_stmts(bpf['body']):
        if st['k'] == 'if':
            c = st['c']
            ops = [x for x in walk_expr(c) if x.get('k') == 'ref' and x.get('dk') == 'enumerator' and x['q'].startswith('Theo::OpCode::')]
            if c.get('k') == 'bin' and c['op'] == '==' and len(ops) == 1:
                opn = ops[0]['name']
                asg = [x for x in walk_all_exprs(st['t']) if x.get('k') == 'assign' and field_chain(x['l'])[1][-1:] == ['offset']]
                okk = False
                for a in asg:
                    member = field_chain(a['l'])[1][-2]
                    r = strip_casts(a['r'])
                    if r.get('k') == 'bin' and r['op'] == '-':
                        tgt = m.origin(bpf, r['l'])
                        if is_call(tgt, '::operator[]') and field_chain(tgt['obj'])[1][-1:] == ['labels']:
                            lab = m.origin(bpf, tgt['args'][0])
                            labm = field_chain(lab)[1]
                            okk = labm[-1:] == ['offset'] and labm[-2] == member and member == {'JMP': 'jmp', 'JMPC': 'jmpc'}.get(opn)
                kinds[opn] = okk
    for opn in ('JMP', 'JMPC'):
        G.check(kinds.get(opn) is True, 'backpatch: %s' % opn, 'offset := labels[old operand] - position, through the member of that opcode',
                'backpatching of %s not recognised / uses the wrong union member' % opn, W(m, bpf))

    # ---------------------------------------------------------------- h, i: VM side
    from .vmfx import VMModel
    from .symex import lin_parts, t_show
    vm = VMModel()
    rep.note_facts(vm.facts)
    H = rep.rule('C03.h', 'every data access of a handler is frame-base + operand, with the frame roles of the ISA '
                          '(previous frame only in ARG and RET)', floor=8)
    groups = vm.handler_paths()

    def accesses(s):
        acc = []
        for ef in s.p.effects:
            if ef[0] == 'store' and ef[1] == vm.lp('data'):
                acc.append(('store', ef[2]))
                acc.extend(('load', t[2]) for t in _lds(vm, ef[3].term))
        for t, pol in s.p.guards:
            acc.extend(('load', x[2]) for x in _lds(vm, t))
        return acc
    isa = vm.isa['handlers']
    for op, ps in groups.items():
        spec = isa.get(op, {})
        want_store = set()
        want_load = set()
        for st in spec.get('stores', []):
            want_store.add((st['frame'], st.get('reg') or ('act:' + st['reg_act_field'])))
            v = st['value']
            if v['kind'] in ('load', 'add_trunc'):
                want_load.add((v['frame'], v['reg']))
            elif v['kind'] == 'test':
                want_load.add((0, v['a']))
                want_load.add((0, v['b']))
        ipspec = spec.get('ip')
        if isinstance(ipspec, dict) and 'if_zero' in ipspec:
            want_load.add((ipspec['if_zero']['frame'], ipspec['if_zero']['reg']))
        for s in ps:
            for kind, idx in accesses(s):
                frame, others, c = vm.data_index(idx)
                inst = 'executeSingle/%s: %s data[%s]' % (op, kind, t_show(idx))
                role = None
                if frame in (0, 1) and c == 0 and len(others) == 1 and others[0][1] == 1:
                    o = vm.operand_of(others[0][0])
                    af = vm.act_field(others[0][0])
                    if o is not None:
                        role = (frame, o)
                    elif af is not None and af[0] == 0:
                        role = (frame, 'act:' + af[1])
                if role is None:
                    H.violation(inst, 'index is not <frame base> + <register operand>', _wvm(vm, s))
                    continue
                want = want_store if kind == 'store' else want_load
                H.check(role in want, inst, 'frame %d + %s, as the ISA prescribes' % role,
                        '%s at frame %d + %s, the ISA prescribes %s' % (kind, role[0], role[1], sorted(want)), _wvm(vm, s))
    I = rep.rule('C03.i', 'variable inspection indexes the stack maps with the activation\'s stack-map index, which '
                          'PREPARE copies from its operand', floor=2)
    for s in groups.get('PREPARE_EXEC', []):
        vs = s.p.vec.get(vm.lp('stack'))
        pushes = [o for o in (vs.ops if vs else []) if o[0] == 'push']
        okk = len(pushes) == 1 and pushes[0][1].struct and vm.operand_of(pushes[0][1].struct.get('debug_info').term) == 'prepare.index' \
            and vm.operand_of(pushes[0][1].struct.get('ret_target').term) == 'prepare.target'
        I.check(okk, 'executeSingle/PREPARE_EXEC: activation record', 'debug_info = prepare.index, ret_target = prepare.target',
                'activation does not record the PREPARE operands', _wvm(vm, s))
    gav = vm.facts.fn('Theo::VM::Activation::getActivationVariables')
    sm = [e for e in walk_all_exprs(gav['body']) if is_call(e, '::operator[]') and field_chain(e['obj'])[1][-1:] == ['stack_maps']]
    okk = len(sm) == 1 and field_chain(sm[0]['args'][0])[1] == ['debug_info']
    I.check(okk, 'getActivationVariables: stack map', 'stack_maps[this->debug_info]', 'stack map chosen by %s' % (show(sm[0]['args'][0]) if sm else None),
            'VM/src/vm.cpp:%d' % gav['loc'][1])


def _lds(vm, t):
    out = []
    if isinstance(t, tuple):
        if t and t[0] == 'ld' and t[1] == vm.lp('data'):
            out.append(t)
        for x in t[1:]:
            if isinstance(x, tuple):
                out.extend(_lds(vm, x))
    return out


def _wvm(vm, s):
    return 'VM/src/vm.cpp:%d' % s.fn['loc'][1]
