"""Rules over the code generator (engine E2): C03, C08, C16, C07 (emission discipline),
C20.A2/A3 (literal conversion), C01.e/f, C04.e.  Anchors are declarations (functions, fields,
factories) resolved by clang; every rule reports file:line of the construct it judged."""
import os

from .facts import (AnalysisBroken, walk_expr, walk_all_exprs, walk_stmts, show, strip_casts, strip_copies,
                    member_path, stmt_children, Facts, strip_conv)
from .genrules import GenModel, callers_of, field_chain, is_call, direct_exprs, guarded, guard_implies, map_lookup
from .cfg import CFG

REGTYPE = 'RegisterIndex'


def W(model, f, e=None):
    rel = os.path.relpath(f['file'], model.facts.repo)
    loc = (e.get('loc') if isinstance(e, dict) else e) if e is not None else f['loc'][1:]
    return '%s:%d' % (rel, loc[0]) if loc else rel


def fname(f):
    return f['q']


# ----------------------------------------------------------------------------- provenance
class Prov:
    def __init__(self, model):
        self.m = model

    def is_cur_symbols(self, f, e):
        """e denotes the current routine's FunctionGenState: gs.getSymbols() or a reference bound to it"""
        e = strip_casts(e)
        if is_call(e, 'GenState::getSymbols'):
            return True
        if e is not None and e.get('k') == 'ref' and e.get('dk') == 'var':
            o = self.m.origin(f, e)
            return is_call(o, 'GenState::getSymbols')
        if e is not None and e.get('k') == 'this' and f.get('rec') == 'FunctionGenState':
            return True
        return False

    def of(self, f, e, seen=None):
        seen = seen or set()
        e = strip_casts(e)
        if e is None:
            return {'UNKNOWN:none'}
        k = e.get('k')
        if k == 'int':
            return {('LIT', e['v'])}
        if k == 'un' and e['op'] == '-' and e['e'].get('k') == 'int':
            return {('LIT', -e['e']['v'])}
        if k == 'call':
            c = self.m.callee(e)
            if c in ('FunctionGenState::fetchTemporary', 'FunctionGenState::fetchVariableRegister'):
                if self.is_cur_symbols(f, e.get('obj')):
                    return {'REG'}
                return {'UNKNOWN:register of another routine: ' + show(e)}
            if c == 'GenState::createLabel':
                return {'LABEL'}
            if c.endswith('::operator[]') and e.get('obj') is not None:
                o = strip_casts(e['obj'])
                octy = (o.get('cty') or '').replace('const ', '')
                if octy.startswith('std::vector<int'):
                    return self.container(f, o, seen)
                root, path = member_path(o)
                if path[-1:] == ['marks']:
                    return {'LABEL'}
            if c.endswith('::operator*') or c.endswith('::operator->'):
                pass
            # a helper defined in gen.cpp: the provenance of what it returns
            tg = self.m.by_q.get(c, [])
            key = ('ret', c)
            if len(tg) == 1 and key not in seen:
                g2 = tg[0]
                rets = [st for st in walk_stmts(g2['body']) if st['k'] == 'return' and st.get('e') is not None]
                if rets:
                    res = set()
                    for r in rets:
                        res |= self.of(g2, r['e'], seen | {key})
                    return res
            return {'UNKNOWN:' + show(e)}
        if k == 'member' and e.get('mk') == 'field':
            root, path = member_path(e)
            # it->second of a lookup in the mark table / a (key,value) entry of it
            if path[-1:] == ['second'] and root is not None and self.mentions_field(f, root, 'marks'):
                return {'LABEL'}
            # a field of a small record local to gen.cpp (e.g. a pair of loop labels): the provenance of everything that is ever
            # assigned to that field of that record type (field-sensitive, flow-insensitive)
            base = strip_casts(e['base'])
            bty = (base.get('cty') or '').replace('const ', '').replace(' &', '').strip()
            fkey = ('field', bty, e['name'])
            if bty and fkey not in seen and not bty.startswith(('std::', 'Theo::')) and bty not in ('GenState', 'FunctionGenState', 'VReg', 'Prog', 'FileState'):
                res = set()
                found_any = False
                for g2 in self.m.all_fns():
                    for x in walk_all_exprs(g2['body']):
                        if x.get('k') == 'assign' and x.get('op') == '=':
                            l = strip_casts(x['l'])
                            if l.get('k') == 'member' and l.get('name') == e['name'] and \
                                    (strip_casts(l['base']).get('cty') or '').replace('const ', '').replace(' &', '').strip() == bty:
                                found_any = True
                                res |= self.of(g2, x['r'], seen | {fkey})
                        if x.get('k') == 'init' and (x.get('rec') or '').split('::')[-1] == bty.split('::')[-1]:
                            fl = dict(x['fields'])
                            if e['name'] in fl:
                                found_any = True
                                res |= self.of(g2, fl[e['name']], seen | {fkey})
                if found_any:
                    return res
            return {('FIELD', show(e))}
        if k == 'ref':
            key = (f['sig'], e.get('d'), e.get('name'))
            if key in seen:
                return set()
            seen = seen | {key}
            if e.get('dk') == 'param':
                idx = None
                for i, p in enumerate(f['params']):
                    if p['d'] == e['d']:
                        idx = i
                res = set()
                cs = callers_of(self.m, f['q'])
                if not cs:
                    return {'UNKNOWN:parameter %s of uncalled %s' % (e['name'], f['q'])}
                for (g, call) in cs:
                    if idx is not None and idx < len(call['args']):
                        res |= self.of(g, call['args'][idx], seen)
                return res
            if e.get('dk') == 'var':
                ds = self.m.defs(f).get(e['d'], [])
                if not ds:
                    return {'UNKNOWN:undefined local ' + e['name']}
                # loop index bounded by v.size()?
                if any(d[0] == 'incdec' for d in ds):
                    b = self.loop_bound(f, e)
                    if b is not None:
                        return {('ARGIDX', b)}
                    return {'UNKNOWN:counter ' + e['name']}
                res = set()
                for kind, rhs, _ in ds:
                    if kind == 'each':
                        res |= self.container(f, strip_casts(rhs), seen)
                    else:
                        res |= self.of(f, rhs, seen)
                return res
        return {'UNKNOWN:' + show(e)}

    def mentions_field(self, f, e, field, depth=0):
        """the value of e is derived from the member `field` (looking through locals and their definitions)"""
        if e is None or depth > 4:
            return False
        for x in walk_expr(e):
            if x.get('k') == 'member' and x.get('mk') == 'field' and x['name'] == field:
                return True
            if x.get('k') == 'ref' and x.get('dk') == 'var':
                ds = self.m.defs(f).get(x['d'], [])
                if ds and all(d[1] is not None and d[1] is not e and self.mentions_field(f, d[1], field, depth + 1) for d in ds if d[0] in ('init', 'assign')):
                    if any(d[0] in ('init', 'assign') for d in ds):
                        return True
        return False

    def loop_bound(self, f, ref):
        """for (i = 0; i < v.size(); i++): returns did of v"""
        for st in walk_stmts(f['body']):
            if st['k'] == 'for' and st.get('c') and st['c'].get('k') == 'bin' and st['c']['op'] == '<':
                l = strip_casts(st['c']['l'])
                r = strip_casts(st['c']['r'])
                if l.get('k') == 'ref' and l.get('d') == ref['d'] and is_call(r, '::size') and r.get('obj') is not None:
                    o = strip_casts(r['obj'])
                    if o.get('k') == 'ref':
                        init = st.get('init')
                        ok = init and init['k'] == 'decl' and init['vars'][0]['d'] == ref['d'] and \
                            strip_casts(init['vars'][0]['init']).get('k') == 'int' and strip_casts(init['vars'][0]['init'])['v'] == 0
                        if ok:
                            return o.get('d')
        return None

    def container(self, f, o, seen):
        """provenance of the elements of vector variable o (ref) in f: union over push_back sites,
        following by-reference passing into callees"""
        if o.get('k') != 'ref':
            return {'UNKNOWN:container ' + show(o)}
        key = ('cont', f['sig'], o.get('d'))
        if key in seen:
            return set()
        seen = seen | {key}
        res = set()
        found = False
        for e in walk_all_exprs(f['body']):
            if e.get('k') != 'call':
                continue
            if self.m.callee(e).endswith('::push_back') and e.get('obj') is not None and self.m.same_var(e['obj'], o):
                res |= self.of(f, e['args'][0], seen)
                found = True
            elif e.get('callee_in_repo'):
                for i, a in enumerate(e['args']):
                    if self.m.same_var(a, o):
                        gs = self.m.by_q.get(self.m.callee(e), [])
                        for g in gs:
                            if i < len(g['params']):
                                pr = {'k': 'ref', 'dk': 'param', 'd': g['params'][i]['d'], 'name': g['params'][i]['name']}
                                r = self.container(g, pr, seen)
                                res |= r
                                found = found or bool(r)
        if o.get('dk') == 'param':
            # elements may also come from the callers' vectors
            idx = [i for i, p in enumerate(f['params']) if p['d'] == o['d']]
            for (g, call) in callers_of(self.m, f['q']):
                if idx and idx[0] < len(call['args']):
                    a = strip_casts(call['args'][idx[0]])
                    if a.get('k') == 'ref':
                        res |= self.container(g, a, seen)
        return res


def token_pairs_rule(rep, m):
    """Tokens made after scanning (macro expansion, parser) keep file and line of ONE source token: a (file, line) pair put
    together from two tokens names a line on which no token of that file need stand."""
    H = rep.rule('C08.h', 'a token created or re-positioned after scanning takes its file and its line from one and the same token', floor=0)
    tf = Facts(['Compiler/src/macro.cpp', 'Compiler/src/parse.cpp'])
    rep.note_facts(tf)
    tm = GenModel.__new__(GenModel)
    tm.facts, tm._defs, tm._cfg = tf, {}, {}
    n = 0

    def root_of(f, e):
        e = strip_casts(strip_copies(e)) if e is not None else None
        if e is None or e.get('k') != 'member':
            return None, None
        b = strip_casts(e['base'])
        if b is not None and b.get('k') == 'ref' and b.get('dk') == 'var':
            o = tm.origin(f, b)
            if o is not None and o is not b:
                b = strip_casts(strip_copies(o))
        return show(b), e['name']
    for f in tf.functions:
        if f.get('body') is None or not f['file'].endswith(('macro.cpp', 'parse.cpp')) or f['tmpl'] == 'pattern':
            continue
        for e in walk_all_exprs(f['body']):
            pair = None
            if e.get('k') == 'construct' and e.get('rec') == 'Theo::Token' and len(e.get('args', [])) == 4:
                pair = (e['args'][2], e['args'][3])
            elif e.get('k') == 'init' and e.get('rec') == 'Theo::Token':
                fl = dict(e['fields'])
                if fl.get('file') is not None and fl.get('line') is not None:
                    pair = (fl['file'], fl['line'])
            if pair is None:
                continue
            n += 1
            (rf, nf), (rl, nl) = root_of(f, pair[0]), root_of(f, pair[1])
            inst = '%s: %s' % (f['q'].split('::')[-1], show(e)[:60])
            where = '%s:%d' % (os.path.relpath(f['file'], tf.repo) if hasattr(tf, 'repo') else f['file'], e['loc'][0])
            if rf is None or rl is None:
                lit = strip_casts(pair[0]).get('k') == 'str' and (strip_casts(pair[1]).get('k') in ('int', 'un'))
                if lit:
                    H.ok(inst, 'placeholder position', where)
                else:
                    H.unknown(inst, 'position sources %s / %s not recognised' % (show(pair[0]), show(pair[1])))
            elif rf == rl and nf == 'file' and nl == 'line':
                H.ok(inst, 'file and line of %s' % rf, where)
            else:
                H.violation(inst, 'file comes from %s.%s but line from %s.%s: the pair need not be a line of that file on which a token stands '
                            '(a breakpoint location / error position that does not exist)' % (rf, nf, rl, nl), where)
    rep.extra['token_constructions_after_scanning'] = n


# ============================================================================= C03
def c03(rep, tier):
    model = GenModel()
    rep.note_facts(model.facts)
    m = model
    gen = m.fn('Theo::gen')
    g = m.cfg(gen)
    rep.analysed(gen)
    me = m.may_emit()

    # ---------------------------------------------------------------- a: frame
    A = rep.rule('C03.a', 'the program starts with the root PREPARE (patched from the finished root routine) and ends '
                          'in HALT; backpatching runs after the last emission', floor=5)
    emits = m.emission_events(gen)
    prep = [ev for ev in emits if any(m.is_factory(x, 'PrepareExec') for x in walk_expr(ev.e))]
    halt = [ev for ev in emits if any(m.is_factory(x, 'Halt') for x in walk_expr(ev.e))]
    if len(prep) != 1 or len(halt) != 1:
        A.unknown('Theo::gen', 'expected one PrepareExec and one Halt emission, found %d / %d' % (len(prep), len(halt)))
    else:
        prep, halt = prep[0], halt[0]
        others = [ev for ev in emits if ev is not prep]
        A.check(all(g.dominates(prep, ev) for ev in others) and g.on_all_paths(prep), 'gen: root PREPARE is the first emission',
                'emit(PrepareExec) dominates the %d other emitting calls' % len(others),
                'another emission can precede the root PREPARE', W(m, gen, prep.e))
        late = [ev for ev in emits if ev is not halt and g.can_follow(halt, ev)]
        A.check(not late and g.on_all_paths(halt), 'gen: HALT is the last emission', 'no emitting call can follow emit(Halt); it is on every path',
                'an emission can follow the final HALT: %s' % (show(late[0].e) if late else 'HALT not on all paths'), W(m, gen, halt.e))
        bp = g.calls_to('GenState::backpatch')
        if len(bp) != 1:
            A.unknown('gen: backpatch', '%d backpatch calls' % len(bp))
        else:
            after = [ev for ev in emits if g.can_follow(bp[0], ev)]
            A.check(g.on_all_paths(bp[0]) and g.dominates(halt, bp[0]) and not after, 'gen: backpatch after the last emission',
                    'backpatch() is on every path, after emit(Halt), followed by no emission',
                    'backpatch() does not run after all emissions', W(m, gen, bp[0].e))
        # root patch
        pushes = g.calls_to('GenState::pushSymbols')
        pops = g.calls_to('GenState::popSymbols')
        root_name = m.strval(gen, pushes[0].e['args'][0]) if len(pushes) == 1 else None
        patched = {}
        for ev in g.events:
            e = ev.e
            if e.get('k') == 'assign' and e['op'] == '=':
                root, path = field_chain(e['l'])
                if path[-3:-1] == ['parameters', 'prepare'] and is_call(root, '::operator[]'):
                    idx = strip_casts(root['args'][0])
                    oroot, opath = field_chain(root['obj'])
                    if opath[-2:] == ['out', 'code'] and idx.get('k') == 'int' and idx['v'] == 0:
                        patched[path[-1]] = (ev, e['r'])
        want = {'count': 'stack_size', 'index': 'mi'}
        for fld, src in want.items():
            inst = 'gen: code[0].prepare.%s' % fld
            if fld not in patched:
                A.violation(inst, 'the root PREPARE operand %s is never patched (stays -1)' % fld, W(m, gen))
                continue
            ev, rhs = patched[fld]
            root, path = field_chain(rhs)
            key = None
            lk = map_lookup(m, gen, root) if root is not None else None
            if lk is not None:
                oroot, opath = field_chain(lk[0])
                if opath[-1:] == ['funcAddrs']:
                    key = m.strval(gen, lk[1])
            ok = path == [src] and key is not None and key == root_name and len(pops) == 1 and g.dominates(pops[0], ev) \
                and g.on_all_paths(ev)
            A.check(ok, inst, ':= funcAddrs["%s"].%s after popSymbols' % (root_name, src),
                    'patched from %s (expected funcAddrs["%s"].%s after the root routine is finished)' % (show(rhs), root_name, src),
                    W(m, gen, ev.e))

    # ---------------------------------------------------------------- b: register provenance
    B = rep.rule('C03.b', 'every register operand handed to an Instruction factory was produced by the current '
                          'routine\'s allocator (Arg.target: an index below the argument count)', floor=19)
    prov = Prov(m)
    n_sites = 0
    for f in m.all_fns():
        for e in walk_all_exprs(f['body']):
            if e.get('k') == 'call' and m.is_factory(e):
                n_sites += 1
                fac = m.callee(e).split('::')[-1]
                regs = [(i, t) for i, t in enumerate(e.get('pty', [])) if REGTYPE in t]
                if not regs:
                    B.ok('%s: %s' % (fname(f), show(e)), 'no register operand', W(m, f, e), nontrivial=False)
                    continue
                for i, t in regs:
                    a = e['args'][i]
                    pv = prov.of(f, a)
                    inst = '%s: %s arg %d' % (fname(f), fac, i)
                    unk = [x for x in pv if isinstance(x, str) and x.startswith('UNKNOWN')]
                    if unk:
                        B.unknown(inst, 'cannot determine provenance of %s: %s' % (show(a), unk[0]), W(m, f, e))
                    elif pv == {'REG'}:
                        B.ok(inst, '%s comes from fetchTemporary/fetchVariableRegister of the current routine' % show(a), W(m, f, e))
                    elif fac == 'Arg' and i == 0 and len(pv) == 1 and list(pv)[0][0] == 'ARGIDX':
                        B.ok(inst, 'callee-frame index %s < number of arguments (= callee argnum, C03.f) <= callee frame (C03.e)' % show(a), W(m, f, e))
                    elif fac == 'PrepareExec' and f['q'] == 'Theo::gen' and all(isinstance(x, tuple) and x[0] == 'LIT' for x in pv):
                        B.ok(inst, 'root frame: return target never used (the root ends in HALT, RET is emitted only inside PROGRAM bodies)', W(m, f, e))
                    else:
                        B.violation(inst, 'register operand %s has provenance %s, not the current routine\'s allocator' % (show(a), sorted(map(str, pv))), W(m, f, e))
    rep.extra['factory_call_sites'] = n_sites

    # ---------------------------------------------------------------- c: register scope
    Cc = rep.rule('C03.c', 'symbol tables are pushed/popped only around a routine; registers are fetched and used '
                           'between the push and the pop', floor=2)
    for q in ('GenState::pushSymbols', 'GenState::popSymbols'):
        for (f, call) in callers_of(m, q):
            if f['q'] not in ('dispatchProgram', 'Theo::gen'):
                Cc.violation('%s calls %s' % (f['q'], q.split('::')[-1]), 'symbol table manipulated outside routine generation', W(m, f, call))
    for f in (m.fn('dispatchProgram'), gen):
        gg = m.cfg(f)
        rep.analysed(f)
        pu, po = gg.calls_to('GenState::pushSymbols'), gg.calls_to('GenState::popSymbols')
        if len(pu) != 1 or len(po) != 1:
            Cc.unknown(f['q'], '%d pushSymbols / %d popSymbols' % (len(pu), len(po)))
            continue
        pu, po = pu[0], po[0]
        bad = []
        if not (gg.dominates(pu, po) and gg.postdominates(po, pu) and gg.on_all_paths(pu)):
            bad.append('push/pop not paired on every path')
        for ev in gg.calls():
            c = m.callee(ev.e)
            if c.startswith('FunctionGenState::') or c == 'GenState::getSymbols' or (c in me and c not in ('GenState::emit', 'GenState::emitBackpatched', 'GenState::breakpoint') and c.startswith('dispatch')):
                if c.startswith('dispatch') and f['q'] == 'dispatchProgram' and False:
                    continue
                if c.startswith('FunctionGenState::') or c == 'GenState::getSymbols':
                    if not gg.dominates(pu, ev):
                        bad.append('%s before pushSymbols' % show(ev.e))
                    if gg.can_follow(po, ev):
                        bad.append('%s after popSymbols' % show(ev.e))
        # uses of register variables after the pop
        regvars = set()
        for d, ds in m.defs(f).items():
            for kind, rhs, _ in ds:
                if rhs is not None and kind == 'init' and prov.of(f, rhs) == {'REG'}:
                    regvars.add(d)
        for ev in gg.events:
            if ev.e.get('k') == 'ref' and ev.e.get('d') in regvars and gg.can_follow(po, ev):
                bad.append('register %s used after popSymbols' % ev.e['name'])
        Cc.check(not bad, '%s: push/pop scope' % f['q'], 'pushSymbols dominates and popSymbols post-dominates every allocator use',
                 '; '.join(bad), W(m, f, pu.e))

    # ---------------------------------------------------------------- d: monotone frames
    D = rep.rule('C03.d', 'a routine\'s register file only grows (push_back / element-field writes) and the frame size '
                          'is its final size', floor=3)
    MUT_OK = ('push_back', 'emplace_back')
    ACCESS = ('operator[]', 'size', 'at', 'begin', 'end', 'back', 'empty', 'cbegin', 'cend')
    # allocation goes to the live symbol table: a register fetched from a by-value copy of it is lost with the copy
    for f in m.all_fns():
        for e in walk_all_exprs(f['body']):
            if e.get('k') == 'call' and e.get('obj') is not None and m.callee(e) in ('FunctionGenState::fetchTemporary', 'FunctionGenState::fetchVariableRegister'):
                o = strip_casts(e['obj'])
                if o.get('k') == 'ref' and o.get('dk') == 'var':
                    decl = [v for st in walk_stmts(f['body']) if st['k'] == 'decl' for v in st['vars'] if v['d'] == o['d']]
                    if decl and not decl[0].get('is_ref') and 'FunctionGenState' in (decl[0].get('cty') or '') and '*' not in decl[0]['cty']:
                        D.violation('%s: %s on a copy' % (f['q'], m.callee(e).split('::')[-1]), 'the register is allocated in %s, a by-value copy of the symbol table: the routine\'s own table '
                                    'does not grow, so the frame size recorded later is too small for this register' % o['name'], W(m, f, e))
    for f in m.all_fns():
        for e in walk_all_exprs(f['body']):
            if e.get('k') == 'call' and e.get('obj') is not None:
                root, path = field_chain(e['obj'])
                if path[-1:] == ['register_state']:
                    short = m.callee(e).split('::')[-1]
                    inst = '%s: register_state.%s' % (f['q'], short)
                    if short in MUT_OK or short in ACCESS:
                        D.ok(inst, 'growth or access', W(m, f, e), nontrivial=short in MUT_OK)
                    else:
                        D.violation(inst, 'register file modified by %s: registers already handed out may be invalidated' % short, W(m, f, e))
            if e.get('k') == 'assign':
                root, path = field_chain(e['l'])
                if path[-1:] == ['register_state']:
                    D.violation('%s: register_state = ...' % f['q'], 'register file reassigned', W(m, f, e))
    pop = m.fn('GenState::popSymbols')
    rep.analysed(pop)
    gp = m.cfg(pop)
    prog_inits = [e for e in walk_all_exprs(pop['body']) if e.get('k') == 'init' and (e.get('rec') or '').endswith('Prog')]
    if not prog_inits:
        # Prog(ind, mi, argnum, stack_size): a constructor that stores its arguments unchanged is read as the aggregate it replaces
        from .genrules import as_record_init
        prog_inits = [r_ for r_ in (as_record_init(m.facts, e) for e in walk_all_exprs(pop['body']) if e.get('k') == 'construct' and (e.get('rec') or '').endswith('Prog') and e.get('args'))
                      if r_ is not None]
    if len(prog_inits) != 1:
        D.unknown('popSymbols: Prog record', '%d Prog initialisers' % len(prog_inits))
        pf = {}
    else:
        pf = dict((n, v) for n, v in prog_inits[0]['fields'])
        ss = strip_casts(pf.get('stack_size'))
        ok = is_call(ss, '::size') and field_chain(ss['obj'])[1][-1:] == ['register_state']
        fg_root = field_chain(ss['obj'])[0] if ok else None
        fg_o = m.origin(pop, fg_root) if fg_root is not None else None
        ok = ok and (is_call(fg_o, 'GenState::getSymbols') or is_call(fg_root, 'GenState::getSymbols'))
        D.check(ok, 'popSymbols: Prog.stack_size', '= register_state.size() of the routine being finished',
                'frame size is %s' % show(pf.get('stack_size')), W(m, pop, prog_inits[0]))
        # ... and it is read after the last allocation: when the size comes from a by-value snapshot of the symbol table,
        # the snapshot must be taken after every allocator call of this function
        if ok:
            snap_ev = None
            if fg_root is not None and strip_casts(fg_root).get('k') == 'ref' and strip_casts(fg_root).get('dk') == 'var':
                for st in walk_stmts(pop['body']):
                    if st['k'] == 'decl':
                        for v in st['vars']:
                            if v['d'] == strip_casts(fg_root)['d'] and not v.get('is_ref') and v.get('init') is not None:
                                snap_ev = gp.ev(strip_copies(strip_casts(v['init']))) if strip_copies(strip_casts(v['init'])).get('sid') in gp.by_sid else None
            read_ev = snap_ev or gp.ev(prog_inits[0])
            allocs = [ev for ev in gp.calls() if m.callee(ev.e) in ('FunctionGenState::fetchTemporary', 'FunctionGenState::fetchVariableRegister') or
                      (m.callee(ev.e).split('::')[-1] in ('push_back', 'emplace_back') and ev.e.get('obj') is not None and field_chain(ev.e['obj'])[1][-1:] == ['register_state'])]
            late = [a for a in allocs if gp.can_follow(read_ev, a)]
            D.check(not late, 'popSymbols: frame size read after the last allocation', 'no allocator call can follow the point where the register file is read%s' % (' (by-value snapshot)' if snap_ev else ''),
                    'a register is allocated (%s) after the symbol table was snapshotted: the recorded frame size and the stack map miss it, so PREPARE creates a frame that is too small'
                    % (show(late[0].e)[:60] if late else ''), W(m, pop, late[0].e if late else prog_inits[0]))

    # ---------------------------------------------------------------- e: one register per parameter
    E = rep.rule('C03.e', 'every counted parameter owns a register: each increment of argnum is paired with an '
                          'unconditional growth of the register file, and parameters are allocated first', floor=2)
    da = m.fn('dispatchArgs')
    rep.analysed(da)
    gd = m.cfg(da)
    incs = []
    for ev in gd.events:
        e = ev.e
        if (e.get('k') == 'un' and e['op'] in ('++',)) or (e.get('k') == 'assign' and e['op'] == '+='):
            tgt = e.get('e') or e.get('l')
            if field_chain(tgt)[1][-1:] == ['argnum']:
                incs.append(ev)
    if not incs:
        E.unknown('dispatchArgs', 'no increment of argnum found')
    definite = set()
    for f in m.all_fns():
        if f.get('rec') == 'FunctionGenState':
            gf = m.cfg(f)
            for ev in gf.calls():
                if m.callee(ev.e).split('::')[-1] in MUT_OK and field_chain(ev.e['obj'])[1][-1:] == ['register_state'] and gf.on_all_paths(ev):
                    definite.add(f['q'])
    for a in incs:
        growth = []
        maybe = []
        for ev in gd.calls():
            c = m.callee(ev.e)
            direct = c.split('::')[-1] in MUT_OK and ev.e.get('obj') is not None and field_chain(ev.e['obj'])[1][-1:] == ['register_state']
            if direct or c in definite:
                if gd.postdominates(ev, a) or (gd.dominates(ev, a) and gd.postdominates(a, ev)):
                    growth.append(ev)
            elif c in ('FunctionGenState::fetchVariableRegister', 'FunctionGenState::fetchTemporary'):
                maybe.append(ev)
        errs = [ev for ev in gd.calls() if m.callee(ev.e) in ('GenState::err', 'GenState::verr')]
        inst = 'dispatchArgs: argnum++'
        if len(growth) == 1:
            E.ok(inst, 'paired with %s on every path' % show(growth[0].e)[:80], W(m, da, a.e))
        elif len(growth) > 1:
            E.violation(inst, 'a parameter allocates %d registers but argument i is copied to register i' % len(growth), W(m, da, a.e))
        elif errs:
            E.unknown(inst, 'growth is conditional and an error path exists: pairing not understood')
        else:
            E.violation(inst, 'argnum is incremented but the register file grows only conditionally (%s does not allocate for a '
                              'repeated name): frame smaller than the argument count, ARG writes past the callee frame'
                        % (show(maybe[0].e)[:60] if maybe else 'no allocation'), W(m, da, a.e),
                        witness={'input': 'PROGRAM f IN a, a OUT a DO a := a END x1 := RUN f WITH 1, 2 END',
                                 'effect': 'PREPARE count=1, ARG 1 -> heap-buffer-overflow in VM ARG handler'})
    dp = m.fn('dispatchProgram')
    gdp = m.cfg(dp)
    pu = gdp.calls_to('GenState::pushSymbols')
    dacall = gdp.calls_to('dispatchArgs')
    if len(pu) == 1 and len(dacall) == 1:
        between = [ev for ev in gdp.calls() if gdp.can_follow(pu[0], ev) and gdp.can_follow(ev, dacall[0]) and
                   (m.callee(ev.e).startswith('FunctionGenState::') or (m.callee(ev.e).startswith('dispatch') and ev is not dacall[0]))]
        E.check(gdp.dominates(pu[0], dacall[0]) and not between, 'dispatchProgram: parameters first',
                'dispatchArgs runs on the fresh symbol table before any other allocation', 'allocation before dispatchArgs: %s' % (
                    [show(b.e) for b in between]), W(m, dp, dacall[0].e))
    else:
        E.unknown('dispatchProgram', 'pushSymbols/dispatchArgs call not unique')

    # ---------------------------------------------------------------- f: call sequence
    F = rep.rule('C03.f', 'PREPARE / ARG loop / EXEC use one looked-up record of the callee, guarded by the failed-lookup '
                          'and argument-count returns; popSymbols records (entry, stack map just pushed, argnum, frame size)', floor=6)
    dv = m.fn_with_helpers('dispatchValue', lambda fx: any(m.is_factory(x, 'PrepareExec') for x in walk_all_exprs(fx['body']) if x.get('k') == 'call'),
                           exclude=('dispatchCallArgs', 'strToInt', 'strToIntSilent'))
    rep.analysed(dv)
    gv = m.cfg(dv)
    prep = [ev for ev in gv.calls() if m.is_factory(ev.e, 'PrepareExec')]
    exe = [ev for ev in gv.calls() if m.is_factory(ev.e, 'Exec')]
    argf = [ev for ev in gv.calls() if m.is_factory(ev.e, 'Arg')]
    hf, gh, callev, bind = dv, gv, None, {}
    if not prep and not exe and not argf:
        # the call sequence may have been moved into a helper that dispatchValue calls once
        for cev in gv.calls():
            if not cev.e.get('callee_in_repo') or cev.e.get('obj') is not None:
                continue
            hs = [x for x in m.all_fns() if x['q'] == cev.e.get('callee')]
            if len(hs) != 1 or hs[0] is dv:
                continue
            g2 = m.cfg(hs[0])
            p2 = [ev for ev in g2.calls() if m.is_factory(ev.e, 'PrepareExec')]
            if p2 and len([x for x in gv.calls() if x.e.get('callee') == cev.e.get('callee')]) == 1:
                hf, gh, callev = hs[0], g2, cev
                bind = {p['d']: a for p, a in zip(hf['params'], cev.e['args'])}
                prep = p2
                exe = [ev for ev in g2.calls() if m.is_factory(ev.e, 'Exec')]
                argf = [ev for ev in g2.calls() if m.is_factory(ev.e, 'Arg')]
                rep.analysed(hf)
                break

    def to_dv(root):
        # a reference to a parameter of the helper stands for the argument passed by dispatchValue
        r = strip_casts(root) if root is not None else None
        if r is not None and r.get('k') == 'ref' and r.get('d') in bind:
            return strip_casts(bind[r['d']])
        return r
    if len(prep) != 1 or len(exe) != 1 or len(argf) != 1:
        F.unknown('dispatchValue', 'call sequence factories not unique: %d/%d/%d' % (len(prep), len(argf), len(exe)))
    else:
        prep, exe, argf = prep[0], exe[0], argf[0]
        recs = {}
        for name, ev, idx in (('count', prep, 0), ('index', prep, 1), ('entry', exe, 0)):
            root, path = field_chain(ev.e['args'][idx])
            recs[name] = (to_dv(root), path)
        wantf = {'count': 'stack_size', 'index': 'mi', 'entry': 'ind'}
        roots = set()
        for name, (root, path) in recs.items():
            ok = path == [wantf[name]] and root is not None and root.get('k') == 'ref'
            if ok:
                roots.add(root['d'])
            F.check(ok, 'dispatchValue: %s operand' % name, '= <record>.%s' % wantf[name],
                    'operand is %s, expected the callee record\'s %s' % (show((prep if name != 'entry' else exe).e['args'][0 if name != 'index' else 1]), wantf[name]),
                    W(m, dv, (prep if name != 'entry' else exe).e))
        if len(roots) == 1:
            d = roots.pop()
            ds = m.defs(dv).get(d, [])
            o = strip_casts(ds[0][1]) if len(ds) == 1 else None
            o = strip_copies(o) if o else None
            lk = map_lookup(m, dv, o) if o is not None else None
            okrec = lk is not None and field_chain(lk[0])[1][-1:] == ['funcAddrs']
            keyvar = strip_casts(lk[1]) if okrec else None
            # guards: failed lookup returns, argnum mismatch returns
            guards = gv.guards_of(callev or prep)
            lookup_ok = argn_ok = False
            for cond, label, cn in guards:
                c = strip_casts(cond)
                if label is False and c.get('k') == 'call' and c.get('op') == '==' :
                    fnd = [x for x in walk_expr(c) if is_call(x, '::find')]
                    if fnd and field_chain(fnd[0]['obj'])[1][-1:] == ['funcAddrs'] and keyvar is not None and m.same_var(fnd[0]['args'][0], keyvar):
                        lookup_ok = True
                if label is False and c.get('k') == 'bin' and c['op'] == '!=':
                    sides = [strip_casts(c['l']), strip_casts(c['r'])]
                    fl = [s for s in sides if field_chain(s)[1] == ['argnum'] and field_chain(s)[0].get('d') == d]
                    sz = [s for s in sides if is_call(s, '::size')]
                    if fl and sz:
                        argn_ok = sz[0]['obj']
            F.check(okrec and lookup_ok, 'dispatchValue: record lookup', 'record = funcAddrs[name], dominated by the failed-lookup return on the same name',
                    'callee record is %s; failed-lookup guard %s' % (show(o) if o else None, lookup_ok), W(m, dv, (callev or prep).e))
            # Arg loop bound is the same vector compared with argnum
            pv = Prov(m).of(hf, argf.e['args'][0])
            same = False
            if argn_ok is not False and len(pv) == 1 and list(pv)[0][0] == 'ARGIDX':
                vd = list(pv)[0][1]
                if vd in bind:
                    vd = (strip_casts(bind[vd]) or {}).get('d')
                same = strip_casts(argn_ok).get('d') == vd
            F.check(argn_ok is not False and same, 'dispatchValue: argument count', 'one Arg per element of the vector whose size equals record.argnum (mismatch returns first)',
                    'Arg loop is not bounded by the vector compared with argnum', W(m, dv, argf.e))
            F.check(gh.dominates(prep, argf) and gh.dominates(argf, exe) or (gh.dominates(prep, exe)), 'dispatchValue: order', 'PrepareExec before Arg before Exec',
                    'call sequence out of order', W(m, dv, exe.e))
        else:
            F.violation('dispatchValue: one record', 'PREPARE and EXEC operands come from different records', W(m, dv, prep.e))
    if pf:
        sm_push = [ev for ev in gp.calls() if m.callee(ev.e).endswith('::push_back') and field_chain(ev.e['obj'])[1][-1:] == ['stack_maps']]
        checks = {
            'ind': lambda e: strip_casts(e).get('k') == 'ref' and strip_casts(e).get('dk') == 'param',
            'argnum': lambda e: field_chain(e)[1] == ['argnum'],
        }
        for fld, pred in checks.items():
            F.check(fld in pf and pred(pf[fld]), 'popSymbols: Prog.%s' % fld, show(pf.get(fld)), 'Prog.%s = %s' % (fld, show(pf.get(fld))), W(m, pop, prog_inits[0]))
        mi = strip_casts(pf.get('mi'))
        ok = False
        if mi is not None and mi.get('k') == 'bin' and mi['op'] == '-':
            l, r = strip_casts(mi['l']), strip_casts(mi['r'])
            if is_call(l, '::size') and field_chain(l['obj'])[1][-1:] == ['stack_maps'] and r.get('k') == 'int' and r['v'] == 1 and len(sm_push) == 1:
                ok = gp.dominates(sm_push[0], gp.ev(prog_inits[0]))
        F.check(ok, 'popSymbols: Prog.mi', 'index of the stack map pushed just before', 'stack-map index is %s' % show(pf.get('mi')), W(m, pop, prog_inits[0]))
        # the index stays valid: the table of stack maps only ever grows at its end (PREPAREs that were emitted keep the index they carry)
        def on_maps(x, f_):
            x = strip_casts(x) if x is not None else None
            if x is None:
                return False
            if field_chain(x)[1][-1:] == ['stack_maps']:
                return True
            if x.get('k') == 'ref' and x.get('dk') == 'var':
                # a reference local: auto &maps = gs.out.stack_maps
                for st_ in walk_stmts(f_['body']):
                    if st_['k'] == 'decl':
                        for v_ in st_['vars']:
                            if v_.get('d') == x.get('d') and v_.get('is_ref') and v_.get('init') is not None:
                                return field_chain(strip_casts(v_['init']))[1][-1:] == ['stack_maps']
                return False
            if x.get('k') == 'call' and x.get('obj') is not None and m.callee(x).split('::')[-1] in ('begin', 'end', 'rbegin', 'rend'):
                return on_maps(x['obj'], f_)
            return False
        shrink = None
        for f_ in m.all_fns():
            for e in walk_all_exprs(f_['body']):
                if e.get('k') != 'call':
                    continue
                short = m.callee(e).split('::')[-1]
                if e.get('obj') is not None and on_maps(e['obj'], f_) and short in ('erase', 'pop_back', 'clear', 'resize', 'insert', 'emplace', 'swap', 'assign', 'operator='):
                    shrink = shrink or (f_, e, short)
                if e.get('obj') is None and short in ('unique', 'remove', 'remove_if', 'erase', 'erase_if', 'sort', 'stable_sort', 'reverse', 'rotate') and \
                        any(on_maps(a, f_) for a in e.get('args', [])):
                    shrink = shrink or (f_, e, short)
        F.check(shrink is None, 'stack-map table', 'entries are only appended (push_back in popSymbols): an index that was emitted keeps denoting the same map',
                ('%s on the table of stack maps in %s: the maps behind the changed place move, but the PREPARE instructions that were emitted carry the old indices - a frame '
                 'is described by the map of another routine' % (shrink[2], shrink[0]['q'])) if shrink else '', W(m, shrink[0], shrink[1]) if shrink else W(m, pop),
                witness={'input': 'the same one-routine file included twice in a row, then a call'} if shrink else None)
        # funcAddrs[fgs.name] = p
        reg = [e for e in walk_all_exprs(pop['body']) if e.get('k') == 'call' and m.callee(e).endswith('::operator=') and is_call(strip_casts(e.get('obj')), '::operator[]')
               and field_chain(strip_casts(e['obj'])['obj'])[1][-1:] == ['funcAddrs']]
        def on_table(e):
            return e.get('obj') is not None and field_chain(strip_casts(e['obj']))[1][-1:] == ['funcAddrs']
        assigning = [e for e in walk_all_exprs(pop['body']) if is_call(e, '::insert_or_assign') and on_table(e)]
        keeping = [e for e in walk_all_exprs(pop['body']) if e.get('k') == 'call' and m.callee(e).split('::')[-1] in ('emplace', 'insert', 'try_emplace', 'emplace_hint') and on_table(e)]
        erasing = [e for e in walk_all_exprs(pop['body']) if is_call(e, '::erase') and on_table(e)]
        if len(reg) + len(assigning) == 1:
            F.ok('popSymbols: registration', 'funcAddrs[name] = record (a later definition replaces an earlier one)', W(m, pop))
        elif keeping and not erasing and not reg and not assigning:
            F.violation('popSymbols: registration', 'the finished routine is registered with %s, which keeps an existing entry: a re-definition of a program name is '
                        'silently ignored and later calls bind the stale routine' % m.callee(keeping[0]).split('::')[-1], W(m, pop, keeping[0]))
        elif not (reg or assigning or keeping):
            F.violation('popSymbols: registration', 'no registration of the finished routine', W(m, pop))
        else:
            F.unknown('popSymbols: registration', 'registration idiom not recognised (%d assignment(s), %d insert(s), %d erase(s))' % (len(reg) + len(assigning), len(keeping), len(erasing)))

    # ---------------------------------------------------------------- g: jumps
    G = rep.rule('C03.g', 'jumps are emitted only through emitBackpatched with a label operand; every created label is set '
                          'exactly once on every path; unset marks are reported; backpatch rewrites both jump kinds', floor=12)
    for f in m.all_fns():
        gg = None
        for e in walk_all_exprs(f['body']):
            if e.get('k') == 'call' and (m.is_factory(e, 'Jmp') or m.is_factory(e, 'JmpC')):
                # must be the argument of emitBackpatched
                parent_ok = False
                for p in walk_all_exprs(f['body']):
                    if is_call(p, 'GenState::emitBackpatched') and any(strip_copies(strip_casts(a)) is e or e in list(walk_expr(a)) for a in p['args']):
                        parent_ok = True
                pv = prov.of(f, e['args'][0])
                inst = '%s: %s' % (f['q'], show(e))
                if not parent_ok:
                    G.violation(inst, 'jump emitted without registering it for backpatching: its operand stays a label number', W(m, f, e))
                elif any(isinstance(x, str) and x.startswith('UNKNOWN') for x in pv):
                    G.unknown(inst, 'cannot determine where the jump operand %s comes from (%s)' % (show(e['args'][0]), sorted(map(str, pv))[0]), W(m, f, e))
                elif pv != {'LABEL'}:
                    G.violation(inst, 'jump operand %s is not a label (provenance %s)' % (show(e['args'][0]), sorted(map(str, pv))), W(m, f, e))
                else:
                    G.ok(inst, 'label operand, registered for backpatching', W(m, f, e))
    # the operand field of a jump holds any distance between two instructions: not narrower than the type of an instruction index
    WIDTH = {'long': 8, 'long long': 8, 'unsigned long': 8, 'unsigned long long': 8, 'int': 4, 'unsigned int': 4, 'short': 2, 'unsigned short': 2,
             'char': 1, 'signed char': 1, 'unsigned char': 1, 'bool': 1}
    seen_off = set()
    for f in m.facts.functions:
        if f.get('body') is None or f['tmpl'] == 'pattern':
            continue
        for x in walk_all_exprs(f['body']):
            if x.get('k') == 'assign' and x.get('op', '=') == '=':
                l = strip_casts(x['l'])
                if l is not None and l.get('k') == 'member' and l.get('name') == 'offset' and any(p in ('jmp', 'jmpc') for p in field_chain(l)[1]):
                    lt = (l.get('cty') or '').replace('const ', '')
                    rt = (strip_casts(x['r']).get('cty') or '').replace('const ', '') if strip_casts(x['r']) is not None else ''
                    key = (f['q'], show(l))
                    if key in seen_off or lt not in WIDTH:
                        continue
                    seen_off.add(key)
                    inst = '%s: %s' % (f['q'].split('::')[-1], show(x)[:50])
                    if WIDTH[lt] < WIDTH['int']:
                        G.violation(inst, 'the jump operand field has type %s (%d bytes) but instruction indices and their differences are int: a jump over more than %d '
                                    'instructions wraps around and lands outside its routine' % (lt, WIDTH[lt], 2 ** (8 * WIDTH[lt] - 1) - 1), W(m, f, x) if f in m.all_fns() else os.path.relpath(f['file'], m.facts.repo) + ':%d' % x['loc'][0],
                                    witness={'input': 'a routine longer than %d instructions (e.g. 100 calls of a 200-parameter program)' % (2 ** (8 * WIDTH[lt] - 1) - 1)})
                    else:
                        G.ok(inst, 'operand field of type %s holds every instruction distance' % lt, W(m, f, x) if f in m.all_fns() else os.path.relpath(f['file'], m.facts.repo) + ':%d' % x['loc'][0])
    for tq in ('Theo::JumpOffset', 'Theo::ProgramIndex', 'Theo::RegisterIndex', 'Theo::RegisterCount', 'Theo::StackMapIndex'):
        td = m.facts.typedefs.get(tq)
        if td is not None:
            ct = (td.get('cty') or '').replace('const ', '')
            G.check(ct in WIDTH and WIDTH[ct] >= WIDTH['int'], 'operand type %s' % tq.split('::')[-1], '%s: as wide as the int positions, counts and registers the generator computes' % ct,
                    '%s is %s, narrower than the int values the generator stores into it: instruction positions / register numbers / frame sizes beyond %d wrap around' % (
                        tq.split('::')[-1], ct, 2 ** (8 * WIDTH.get(ct, 4) - 1) - 1), 'VM/include/instr.hpp')
    # labels created into locals are set exactly once
    for f in m.all_fns():
        gg = None
        for d, ds in m.defs(f).items():
            for kind, rhs, decl in ds:
                if kind == 'init' and is_call(strip_casts(rhs), 'GenState::createLabel'):
                    # a label that is stored in a mark table or handed back to the caller is a mark's label: it is set by
                    # dispatchMark (rule below), not in this function
                    escapes = False
                    for x in walk_all_exprs(f['body']):
                        if x.get('k') == 'assign' and strip_casts(x['r']).get('d') == d and is_call(strip_casts(x['l']), '::operator[]') and 'marks' in show(strip_casts(x['l'])['obj']):
                            escapes = True
                        if x.get('k') == 'call' and m.callee(x).split('::')[-1] in ('emplace', 'insert', 'insert_or_assign', 'try_emplace') and x.get('obj') is not None and \
                                'marks' in show(x['obj']) and any(y.get('k') == 'ref' and y.get('d') == d for a in x['args'] for y in walk_expr(a)):
                            escapes = True
                    for st2 in walk_stmts(f['body']):
                        if st2['k'] == 'return' and st2.get('e') is not None and strip_casts(strip_copies(st2['e'])).get('d') == d:
                            escapes = True
                    if escapes:
                        continue
                    gg = gg or m.cfg(f)
                    sets = [ev for ev in gg.calls_to('GenState::setLabel') if strip_casts(ev.e['args'][0]).get('d') == d]
                    inst = '%s: label %s' % (f['q'], decl['name'])
                    if len(sets) == 1 and gg.on_all_paths(sets[0]):
                        pos = strip_casts(sets[0].e['args'][1])
                        okpos = is_call(pos, 'GenState::getNextPos') or is_call(pos, 'GenState::getMarkPos')
                        G.check(okpos, inst, 'set exactly once on every path, at the current emission position',
                                'label set to %s, not an emission position' % show(pos), W(m, f, sets[0].e))
                    else:
                        G.violation(inst, 'label is set %d time(s) / not on every path: jumps to it are never resolved or resolved twice' % len(sets), W(m, f, rhs))
    # marks: setLabel(marks[name], getMarkPos())
    dm = m.fn('dispatchMark')
    gm = m.cfg(dm)
    sets = gm.calls_to('GenState::setLabel')
    ok = len(sets) == 1 and gm.on_all_paths(sets[0]) and prov.of(dm, sets[0].e['args'][0]) == {'LABEL'} and \
        (is_call(strip_casts(sets[0].e['args'][1]), 'GenState::getMarkPos') or is_call(strip_casts(sets[0].e['args'][1]), 'GenState::getNextPos'))
    if not ok and len(sets) == 1 and any(isinstance(x, str) and x.startswith('UNKNOWN') for x in prov.of(dm, sets[0].e['args'][0])):
        G.unknown('dispatchMark: setLabel', 'cannot determine where the label %s comes from' % show(sets[0].e['args'][0]), W(m, dm))
        ok = None
    if ok is not None:
      G.check(ok, 'dispatchMark: setLabel', 'the mark\'s label is set at the current position on every path', 'mark label not set', W(m, dm))
    # marks[...] reads are preceded by the find/create idiom; marks only ever receive createLabel()
    for f in m.all_fns():
        gg = None
        for e in walk_all_exprs(f['body']):
            if e.get('k') == 'call' and m.callee(e).endswith('::operator=') is False and e.get('k') == 'assign':
                pass
        for e in walk_all_exprs(f['body']):
            if e.get('k') == 'assign':
                l = strip_casts(e['l'])
                if is_call(l, '::operator[]') and field_chain(l['obj'])[1][-1:] == ['marks']:
                    G.check(is_call(strip_casts(m.origin(f, e['r'])), 'GenState::createLabel'), '%s: marks[...] = ...' % f['q'], 'fresh label',
                            'mark table receives %s, not a fresh label' % show(e['r']), W(m, f, e))
    # a read marks[name] default-inserts label 0 for a name that has no entry: on every path to the read the entry exists
    # (a membership test was true, or marks[name] was assigned)
    def marks_obj(f_, o):
        o = strip_casts(o)
        if o is None:
            return False
        if field_chain(o)[1][-1:] == ['marks']:
            return True
        o2 = m.origin(f_, o) if o.get('k') == 'ref' else None
        return o2 is not None and o2 is not o and field_chain(strip_casts(o2))[1][-1:] == ['marks']

    def presence(f_, c, key):
        # (polarity under which the condition implies "key is present") or None
        c = strip_casts(c)
        if c is None:
            return None
        if c.get('k') == 'paren':
            return presence(f_, c['e'], key)
        if c.get('k') == 'un' and c.get('op') == '!':
            r = presence(f_, c['e'], key)
            return None if r is None else not r
        if c.get('k') == 'call' and (c.get('callee') or '').endswith('::contains') and c.get('obj') is not None and marks_obj(f_, c['obj']) and \
                show(strip_casts(c['args'][0])) == key:
            return True
        if c.get('k') in ('call', 'bin') and c.get('op') in ('==', '!='):
            a, b = (c['args'][0], c['args'][-1]) if c['k'] == 'call' else (c['l'], c['r'])
            a, b = strip_casts(strip_copies(a)), strip_casts(strip_copies(b))
            for x, y in ((a, b), (b, a)):
                if x.get('k') == 'call' and (x.get('callee') or '').endswith('::find') and x.get('obj') is not None and marks_obj(f_, x['obj']) and \
                        show(strip_casts(x['args'][0])) == key and y.get('k') == 'call' and (y.get('callee') or '').endswith(('::end', '::cend')) and \
                        y.get('obj') is not None and marks_obj(f_, y['obj']):
                    return c['op'] == '!='
            # count(name) == 0 / != 0 / > 0
            for x, y in ((a, b), (b, a)):
                if x.get('k') == 'call' and (x.get('callee') or '').endswith('::count') and x.get('obj') is not None and marks_obj(f_, x['obj']) and \
                        show(strip_casts(x['args'][0])) == key and y.get('k') == 'int' and y.get('v') == 0:
                    return c['op'] == '!='
        if c.get('k') == 'call' and (c.get('callee') or '').endswith('::count') and c.get('obj') is not None and marks_obj(f_, c['obj']) and \
                show(strip_casts(c['args'][0])) == key:
            return True
        return None
    for f in m.all_fns():
        reads = []
        lhs = set()
        for e in walk_all_exprs(f['body']):
            if e.get('k') == 'assign' and e.get('op', '=') == '=':
                l = strip_casts(e['l'])
                if is_call(l, '::operator[]') and marks_obj(f, l['obj']):
                    lhs.add(id(l))
        for e in walk_all_exprs(f['body']):
            if is_call(e, '::operator[]') and e.get('obj') is not None and marks_obj(f, e['obj']) and id(e) not in lhs and 'map' in (strip_casts(e['obj']).get('cty') or ''):
                reads.append(e)
        if not reads:
            continue
        gg = m.cfg(f)
        for rd in reads:
            key = show(strip_casts(rd['args'][0]))
            if rd.get('sid') not in gg.by_sid:
                continue
            tgt = gg.ev(rd)
            est = set()
            for n in gg.nodes:
                if n.kind == 'branch' and isinstance(n.label, bool) and n.of is not None and n.of.exprs:
                    pol = presence(f, gg.expanded(n.of.exprs[0]), key)
                    if pol is not None and pol == n.label:
                        est.add(n.id)
                for ev2 in n.events:
                    x = ev2.e
                    if x.get('k') == 'assign' and not ev2.conditional:
                        l = strip_casts(x['l'])
                        if is_call(l, '::operator[]') and marks_obj(f, l['obj']) and show(strip_casts(l['args'][0])) == key and \
                                (n is not tgt.node or ev2.idx < tgt.idx):
                            est.add(n.id)
            # is the read reachable from the entry without passing an establishing node?
            seen, st = set(), [gg.entry]
            hit = False
            while st:
                x = st.pop()
                if x.id in seen or x.id in est:
                    continue
                seen.add(x.id)
                if x is tgt.node:
                    hit = True
                    break
                st.extend(x.succ)
            G.check(not hit, '%s: read of marks[%s]' % (f['q'], key), 'the entry exists on every path to the read (membership test true or entry assigned)',
                    'marks[%s] is read on a path on which the name may have no entry: operator[] inserts label 0 for it, the jump is bound to whatever label 0 is '
                    '(the first label of the program) instead of a fresh label of this mark' % key, W(m, f, rd),
                    witness={'input': 'PROGRAM p IN a DO x0 := a END; GOTO m; x1 := 1; m: x2 := 2'} if hit else None)

    def lit(e):
        e = strip_casts(e)
        if e is None:
            return None
        if e.get('k') == 'int':
            return e['v']
        if e.get('k') == 'un' and e['op'] == '-' and strip_casts(e['e']).get('k') == 'int':
            return -strip_casts(e['e'])['v']
        return None
    # unset marks are reported
    errs = [ev for ev in gp.calls_to('GenState::err')]
    loopok = False
    from .genrules import unconditional_callees
    for st in [x for fb in unconditional_callees(m, pop) for x in walk_stmts(fb['body'])]:
        if st['k'] == 'rangefor' and field_chain(st['range'])[1][-1:] == ['marks']:
            conds = [s2 for s2 in walk_stmts(st['body']) if s2['k'] == 'if']
            for c in conds:
                txt = c['c']
                if txt.get('k') == 'bin' and txt['op'] == '==' and (lit(txt['r']) is not None or lit(txt['l']) is not None):
                    lab = [x for x in walk_expr(txt['l']) if is_call(x, '::operator[]') and field_chain(x['obj'])[1][-1:] == ['labels']]
                    call_err = [x for x in direct_exprs(c['t']) if is_call(x, 'GenState::err') and 'UNKNOWN_MARK' in show(x)]
                    if lab and call_err:
                        loopok = True
    # "not set yet" is one sentinel value: what createLabel() stores is what the unset-mark test and the backpatcher compare with
    cl = m.fn('GenState::createLabel')
    stored = [lit(e['args'][0]) for e in walk_all_exprs(cl['body']) if is_call(e, '::push_back') and field_chain(e['obj'])[1][-1:] == ['labels']]
    for e in walk_all_exprs(cl['body']):
        if e.get('obj') is not None and field_chain(e['obj'])[1][-1:] == ['labels']:
            if is_call(e, '::emplace_back'):
                # emplace_back() value-initialises the new int: 0; emplace_back(v) stores v
                stored.append(0 if not e.get('args') else lit(e['args'][0]))
            elif is_call(e, '::resize') and e.get('args'):
                stored.append(0 if len(e['args']) == 1 else lit(e['args'][1]))
    if stored == [None] and cl.get('params'):
        # createLabel(ProgramIndex initial = -1): the stored value is a parameter - the value every call site passes (the default)
        pushed = [strip_casts(e['args'][0]) for e in walk_all_exprs(cl['body']) if is_call(e, '::push_back') and field_chain(e['obj'])[1][-1:] == ['labels'] and e.get('args')]
        idx = [i for i, p_ in enumerate(cl['params']) if pushed and pushed[0].get('k') == 'ref' and pushed[0].get('d') == p_['d']]
        if idx:
            vals = set()
            for f2, c2 in callers_of(m, 'GenState::createLabel'):
                a_ = c2['args'][idx[0]] if len(c2.get('args', [])) > idx[0] else None
                while a_ is not None and strip_casts(a_).get('k') == 'other' and strip_casts(a_).get('cls') == 'CXXDefaultArgExpr' and strip_casts(a_).get('children'):
                    a_ = strip_casts(a_)['children'][0]
                vals.add(lit(a_) if a_ is not None else None)
            if len(vals) == 1 and None not in vals:
                stored = [vals.pop()]
    tested = []
    for f2 in m.all_fns():
        for e in walk_all_exprs(f2['body']):
            if e.get('k') == 'bin' and e['op'] in ('==', '!='):
                for a, b in ((e['l'], e['r']), (e['r'], e['l'])):
                    oa = m.origin(f2, a)
                    if lit(b) is not None and oa is not None and is_call(strip_casts(oa), '::operator[]') and field_chain(strip_casts(oa)['obj'])[1][-1:] == ['labels']:
                        tested.append((lit(b), f2, e))
    if len(stored) == 1 and stored[0] is not None and tested:
        wrong = [(v, f2, e) for v, f2, e in tested if v != stored[0]]
        G.check(not wrong, 'createLabel: unset sentinel', 'a fresh label holds %d and every "is it set?" test compares with %d' % (stored[0], stored[0]),
                'createLabel() stores %d for "not set yet" but %s tests for %s: a jump to a mark that is never set is neither reported nor trapped and is patched to position %d' % (
                    stored[0], wrong[0][1]['q'] if wrong else '', wrong[0][0] if wrong else '', stored[0]), W(m, cl))
    else:
        G.unknown('createLabel: unset sentinel', 'sentinel of unset labels not recognised (%s stored, %d tests)' % (stored, len(tested)))
    G.check(loopok, 'popSymbols: unset marks', 'every mark whose label is still -1 is reported as UNKNOWN_MARK',
            'marks that are referenced but never set are not reported', W(m, pop))
    bpf = m.fn('GenState::backpatch')
    rep.analysed(bpf)
    def patch_arms(fn_):
        # (opcode name, statements) for every `if (<x>.op == OpCode::E)` and every case of a switch over opcodes
        for st in walk_stmts(fn_['body']):
            if st['k'] == 'if':
                c = st['c']
                ops = [x for x in walk_expr(c) if x.get('k') == 'ref' and x.get('dk') == 'enumerator' and x['q'].startswith('Theo::OpCode::')]
                if c.get('k') == 'bin' and c['op'] == '==' and len(ops) == 1:
                    yield ops[0]['name'], [st['t']]
            elif st['k'] == 'switch':
                for case in st['cases']:
                    labs = [l.get('name') for l in case['labels'] if isinstance(l, dict) and (l.get('enumerator') or '').startswith('Theo::OpCode::')]
                    if len(labs) == 1:
                        yield labs[0], case['s']

    def patch_kinds(fn_):
        out = {}
        for opn, stmts in patch_arms(fn_):
            asg = [x for s2 in stmts for x in walk_all_exprs(s2) if x.get('k') == 'assign' and field_chain(x['l'])[1][-1:] == ['offset'] and len(field_chain(x['l'])[1]) >= 2]
            if not asg:
                continue
            okk = False
            for a in asg:
                member = field_chain(a['l'])[1][-2]
                r = strip_casts(m.origin(fn_, a['r']) if strip_casts(a['r']).get('k') == 'ref' else a['r'])
                if r.get('k') == 'bin' and r['op'] == '-':
                    tgt = m.origin(fn_, r['l'])
                    if is_call(tgt, '::operator[]') and field_chain(tgt['obj'])[1][-1:] == ['labels']:
                        lab = m.origin(fn_, tgt['args'][0])
                        labm = field_chain(lab)[1]
                        okk = labm[-1:] == ['offset'] and len(labm) >= 2 and labm[-2] == member and member == {'JMP': 'jmp', 'JMPC': 'jmpc'}.get(opn)
                elif r.get('k') == 'call' and (r.get('callee_in_repo') or r.get('callee_lambda_id')):
                    okk = None         # the formula is in a helper: decided on the copy with the helper put back
            out[opn] = okk
        return out
    kinds = patch_kinds(bpf)
    if not kinds or any(v is None for v in kinds.values()):
        # the formula in a local lambda or helper taking the offset field by reference: resolve(ins.parameters.jmp.offset, loc)
        from .inline import inlined
        bpf2, names_ = inlined(m.facts, bpf, rounds=2, single_use=False, want=lambda h, call: h['q'] not in ('GenState::backpatchErr', 'GenState::err'))
        if names_:
            kinds = patch_kinds(bpf2)
            for n_ in names_:
                for h_ in m.facts.functions:
                    if h_['q'] == n_ and h_.get('body') is not None:
                        rep.analysed(h_)
    if not kinds:
        # pointer form: a JumpOffset* selected by the opcode (in backpatch itself or in a helper that returns it), read for the label
        # and written with labels[label] - position
        def case_targets(fn_, subject_is_param=False):
            out = {}
            for st in walk_stmts(fn_['body']):
                if st['k'] != 'switch' or 'op' not in show(st['c']).split('.')[-1:][0] and not show(st['c']).endswith('op'):
                    continue
                for case in st['cases']:
                    labs = [l.get('name') for l in case['labels'] if isinstance(l, dict)]
                    for x in [y for s2 in case['s'] for y in walk_all_exprs(s2)]:
                        if x.get('k') == 'un' and x.get('op') == '&':
                            ch = field_chain(x['e'])[1]
                            if ch[-1:] == ['offset'] and len(ch) >= 2:
                                for l in labs:
                                    out[l] = ch[-2]
            return out
        ptrs = {}
        for st in walk_stmts(bpf['body']):
            if st['k'] == 'decl':
                for v in st['vars']:
                    if (v.get('cty') or '').endswith('*') and v.get('init') is not None:
                        o = strip_casts(v['init'])
                        if o.get('k') == 'call' and o.get('callee_in_repo'):
                            hs = [y for y in m.all_fns() if y['q'] == o.get('callee') and y.get('body') is not None]
                            if len(hs) == 1:
                                ct = case_targets(hs[0])
                                if ct:
                                    ptrs[v['d']] = ct
                                    rep.analysed(hs[0])
        own = case_targets(bpf)
        if own:
            for st in walk_stmts(bpf['body']):
                if st['k'] == 'decl':
                    for v in st['vars']:
                        if (v.get('cty') or '').endswith('*') and any(x.get('k') == 'assign' and strip_casts(x['l']).get('d') == v['d'] for x in walk_all_exprs(bpf['body'])):
                            ptrs[v['d']] = own
        for pd, ct in ptrs.items():
            for x in walk_all_exprs(bpf['body']):
                if x.get('k') == 'assign' and strip_casts(x['l']).get('k') == 'un' and strip_casts(x['l']).get('op') == '*' and strip_casts(strip_casts(x['l'])['e']).get('d') == pd:
                    r = strip_casts(x['r'])
                    okf = False
                    if r.get('k') == 'bin' and r['op'] == '-':
                        tgt = m.origin(bpf, r['l'])
                        if is_call(tgt, '::operator[]') and field_chain(tgt['obj'])[1][-1:] == ['labels']:
                            lab = strip_casts(m.origin(bpf, tgt['args'][0]))
                            okf = lab is not None and lab.get('k') == 'un' and lab.get('op') == '*' and strip_casts(lab['e']).get('d') == pd
                    for opn, member in ct.items():
                        kinds[opn] = okf and member == {'JMP': 'jmp', 'JMPC': 'jmpc'}.get(opn)
    for opn in ('JMP', 'JMPC'):
        if opn not in kinds or kinds[opn] is None:
            G.unknown('backpatch: %s' % opn, 'the rewriting of %s offsets has a shape that is not recognised' % opn, W(m, bpf))
        else:
            G.check(kinds.get(opn) is True, 'backpatch: %s' % opn, 'offset := labels[old operand] - position, through the member of that opcode',
                    'backpatching of %s uses the wrong union member or formula' % opn, W(m, bpf))

    # ---------------------------------------------------------------- h, i: VM side
    from .vmfx import VMModel
    from .symex import lin_parts, t_show
    vm = VMModel()
    rep.note_facts(vm.facts)
    H = rep.rule('C03.h', 'every data access of a handler is frame-base + operand, with the frame roles of the ISA '
                          '(previous frame only in ARG and RET)', floor=8)
    groups = vm.handler_paths()

    def accesses(s):
        acc = []
        for ef in s.p.effects:
            if ef[0] == 'store' and ef[1] == vm.lp('data'):
                acc.append(('store', ef[2]))
                acc.extend(('load', t[2]) for t in _lds(vm, ef[3].term))
        for t, pol in s.p.guards:
            acc.extend(('load', x[2]) for x in _lds(vm, t))
        return acc
    isa = vm.isa['handlers']
    for op, ps in groups.items():
        spec = isa.get(op, {})
        want_store = set()
        want_load = set()
        for st in spec.get('stores', []):
            want_store.add((st['frame'], st.get('reg') or ('act:' + st['reg_act_field'])))
            v = st['value']
            if v['kind'] in ('load', 'add_trunc'):
                want_load.add((v['frame'], v['reg']))
            elif v['kind'] == 'test':
                want_load.add((0, v['a']))
                want_load.add((0, v['b']))
        ipspec = spec.get('ip')
        if isinstance(ipspec, dict) and 'if_zero' in ipspec:
            want_load.add((ipspec['if_zero']['frame'], ipspec['if_zero']['reg']))
        for s in ps:
            for kind, idx in accesses(s):
                frame, others, c = vm.data_index(idx)
                inst = 'executeSingle/%s: %s data[%s]' % (op, kind, t_show(idx))
                role = None
                if frame in (0, 1) and c == 0 and len(others) == 1 and others[0][1] == 1:
                    o = vm.operand_of(others[0][0])
                    af = vm.act_field(others[0][0])
                    if o is not None:
                        role = (frame, o)
                    elif af is not None and af[0] == 0:
                        role = (frame, 'act:' + af[1])
                if role is None:
                    H.violation(inst, 'index is not <frame base> + <register operand>', _wvm(vm, s))
                    continue
                want = want_store if kind == 'store' else want_load
                H.check(role in want, inst, 'frame %d + %s, as the ISA prescribes' % role,
                        '%s at frame %d + %s, the ISA prescribes %s' % (kind, role[0], role[1], sorted(want)), _wvm(vm, s))
    I = rep.rule('C03.i', 'variable inspection indexes the stack maps with the activation\'s stack-map index, which '
                          'PREPARE copies from its operand', floor=2)
    for s in groups.get('PREPARE_EXEC', []):
        vs = s.p.vec.get(vm.lp('stack'))
        pushes = [o for o in (vs.ops if vs else []) if o[0] == 'push']
        okk = len(pushes) == 1 and pushes[0][1].struct and vm.operand_of(pushes[0][1].struct.get('debug_info').term) == 'prepare.index' \
            and vm.operand_of(pushes[0][1].struct.get('ret_target').term) == 'prepare.target'
        I.check(okk, 'executeSingle/PREPARE_EXEC: activation record', 'debug_info = prepare.index, ret_target = prepare.target',
                'activation does not record the PREPARE operands', _wvm(vm, s))
    gav = vm.facts.fn('Theo::VM::Activation::getActivationVariables')
    sm = [e for e in walk_all_exprs(gav['body']) if is_call(e, '::operator[]') and field_chain(e['obj'])[1][-1:] == ['stack_maps']]
    okk = len(sm) == 1 and field_chain(sm[0]['args'][0])[1] == ['debug_info']
    I.check(okk, 'getActivationVariables: stack map', 'stack_maps[this->debug_info]', 'stack map chosen by %s' % (show(sm[0]['args'][0]) if sm else None),
            'VM/src/vm.cpp:%d' % gav['loc'][1])


def _lds(vm, t):
    out = []
    if isinstance(t, tuple):
        if t and t[0] == 'ld' and t[1] == vm.lp('data'):
            out.append(t)
        for x in t[1:]:
            if isinstance(x, tuple):
                out.extend(_lds(vm, x))
    return out


def _wvm(vm, s):
    return 'VM/src/vm.cpp:%d' % s.fn['loc'][1]


# ============================================================================= shared helpers (tables)
def chain_check(rule, model, f, g, steps, inst_prefix):
    """steps: list of (name, event or None).  Requires each step to dominate the next and to be on
    every path (relative to the first)."""
    prev = None
    for name, ev in steps:
        if ev is None:
            rule.violation('%s: %s' % (inst_prefix, name), 'step not found in %s' % f['q'], W(model, f))
            return False
    ok = True
    for (n1, e1), (n2, e2) in zip(steps, steps[1:]):
        good = g.dominates(e1, e2) and g.postdominates(e2, e1)
        rule.check(good, '%s: %s < %s' % (inst_prefix, n1, n2), 'dominates and is always followed by it',
                   '%s does not always precede %s (or can be skipped)' % (n1, n2), W(model, f, e2.e))
        ok = ok and good
    return ok


def table_of(e, m=None, f=None):
    """'line_info' / 'potential_breaks' / 'funcAddrs' ... when e is (an access into) that member; with a model and a function,
    single-definition locals (iterators from find(), references to mapped values) are looked through"""
    e = strip_conv(strip_casts(e)) if e is not None else None
    seen = 0
    while e is not None and seen < 10:
        seen += 1
        if e.get('k') == 'member' and e.get('name') in ('second', 'first') and e.get('base') is not None and \
                ('pair<' in (strip_casts(e['base']).get('cty') or '') or 'iterator' in (strip_casts(e['base']).get('cty') or '').lower() or
                 (strip_casts(e['base']).get('callee') or '').endswith(('operator->', 'operator*'))):
            e = strip_conv(strip_casts(e['base']))
            continue
        if e.get('k') == 'member':
            return e['name'], e
        if e.get('k') == 'paren' or (e.get('k') == 'un' and e.get('op') == '*'):
            e = strip_conv(strip_casts(e['e']))
            continue
        if e.get('k') == 'call' and e.get('obj') is not None and (e.get('callee') or '').split('::')[-1] in ('operator[]', 'at', 'find', 'operator->', 'operator*'):
            e = strip_conv(strip_casts(e['obj']))
            continue
        if e.get('k') == 'ref' and e.get('dk') == 'var' and m is not None and f is not None:
            o = m.origin(f, e)
            if o is not None and o is not e:
                e = strip_conv(strip_copies(strip_casts(o)))
                continue
        break
    return None, None


def hidden_file_rule(rule, m, rep):
    """advanceLine returns early for the standard-macro file, before any breakpoint(); the literal equals
    the key used by parse() and quoted by the prepended include phrase."""
    al = m.fn('GenState::advanceLine')
    rep.analysed(al)
    g = m.cfg(al)
    bps = g.calls_to('GenState::breakpoint')
    rets = [n for n in g.returns()]
    hidden = None
    ret_ev = None
    for cn in g.nodes:
        if cn.kind == 'cond' and cn.exprs:
            c = strip_casts(cn.exprs[0])
            if c.get('k') == 'call' and c.get('op') == '==':
                strs = [m.strval(al, a) for a in c['args']]
                prm = [a for a in c['args'] if strip_casts(a).get('dk') == 'param']
                lit = [s for s in strs if s is not None]
                if prm and lit:
                    # true branch must return before anything else
                    for b in cn.succ:
                        if b.kind == 'branch' and b.label is True:
                            nxt = b.succ[0] if b.succ else None
                            if nxt is not None and nxt.kind == 'stmt' and nxt.label == 'return':
                                hidden = lit[0]
                                ret_ev = cn
    if hidden is None:
        rule.violation('advanceLine: hidden file', 'no early return for the standard-macro file: its lines would get breakpoint sites', W(m, al))
        return None
    ok = all(ret_ev.id in g.dom[b.node.id] for b in bps) and len(bps) >= 1
    rule.check(ok, 'advanceLine: early return dominates breakpoint()', 'file == "%s" returns before both breakpoint() calls' % hidden,
               'a breakpoint() call is not guarded by the hidden-file test', W(m, al))
    # parse.cpp side
    pf = Facts(['Compiler/src/parse.cpp'])
    rep.note_facts(pf)
    parse = pf.fn('Theo::parse')
    rep.analysed(parse)
    keys = []
    phrase = []
    gm = GenModel.__new__(GenModel)
    gm.facts = pf
    gm._defs = {}
    gm._cfg = {}
    for e in walk_all_exprs(parse['body']):
        if e.get('k') == 'call' and m.callee(e).split('::')[-1] in ('insert', 'emplace', 'insert_or_assign', 'try_emplace') and \
                table_of(e.get('obj'))[0] is None and strip_casts(e['obj']).get('dk') == 'param':
            a0 = strip_conv(strip_copies(strip_casts(e['args'][0])))
            if a0 is not None and a0.get('k') == 'call' and (a0.get('callee') or '').startswith('std::make_pair'):
                a0 = a0['args'][0]
            kv = gm.streval(parse, a0)
            if kv is None:
                for x in walk_expr(e):
                    if x.get('k') == 'str':
                        kv = x['v']
                        break
            if kv is not None:
                keys.append(kv)
    for st in walk_stmts(parse['body']):
        if st['k'] == 'decl':
            for v in st['vars']:
                if v.get('init') is not None:
                    sv = gm.streval(parse, v['init'])
                    if sv is not None and sv.lower().startswith('include'):
                        phrase.append(sv)
                    elif sv is None:
                        for x in walk_expr(v['init']):
                            if x.get('k') == 'str' and x['v'].lower().startswith('include'):
                                phrase.append(x['v'])
    rule.check(hidden in keys, 'parse: standard-macro key', 'parse() inserts the standard macros under "%s", the name advanceLine hides' % hidden,
               'parse() inserts the standard macros under %s but advanceLine hides exactly "%s": tokens of the standard macros then carry a file name that is not hidden' % (
                   keys if keys else 'a key computed at run time', hidden), 'Compiler/src/parse.cpp:%d' % parse['loc'][1])
    rule.check(any(('"%s"' % hidden) in p for p in phrase), 'parse: include phrase', 'the prepended include names "%s"' % hidden,
               'the prepended include phrase %s does not name "%s"' % (phrase, hidden), 'Compiler/src/parse.cpp:%d' % parse['loc'][1])
    return hidden


# ============================================================================= C08
def c08(rep, tier):
    m = GenModel()
    rep.note_facts(m.facts)
    me = m.may_emit()
    A = rep.rule('C08.a', 'a site is entered into both tables with the index at which its instruction is emitted, '
                          'under the current location', floor=4)
    bp = m.fn('GenState::breakpoint')
    rep.analysed(bp)
    # the index is the position getNextPos() gave before emit(): emit() appends exactly one instruction, its argument, on every path
    em = m.fn('GenState::emit')
    rep.analysed(em)
    gem = m.cfg(em)
    epush = [ev for ev in gem.calls() if m.callee(ev.e).split('::')[-1] in ('push_back', 'emplace_back') and field_chain(ev.e.get('obj'))[1][-1:] == ['code']]
    okem = len(epush) == 1 and gem.on_all_paths(epush[0]) and em.get('params') and \
        any(y.get('k') == 'ref' and y.get('d') == em['params'][0]['d'] for y in walk_expr(epush[0].e['args'][0]))
    cond_em = ['%s is %s' % (show(c)[:80], str(lab).lower()) for ev in epush for c, lab, cn in gem.guards_of(ev) if isinstance(lab, bool)]
    A.check(bool(okem), 'GenState::emit', 'appends its argument to the program on every path',
            ('emit() %s: the tables record a site at a position where another instruction ends up - arming that line overwrites a real instruction' % (
                ('appends the instruction only when %s' % cond_em[0]) if cond_em else 'does not append exactly its argument on every path')), W(m, em),
            witness={'input': 'any program, compiled under the condition, then a breakpoint on any line'} if not okem else None)

    def touches_tables(fx):
        txt = ' '.join(show(x) for x in walk_all_exprs(fx['body']))
        return 'line_info' in txt and 'potential_breaks' in txt
    if not touches_tables(bp):
        # the table updates may have moved into helpers of GenState (registerSite(..)): look at breakpoint() with them put back
        from .inline import inlined
        bp2, names_ = inlined(m.facts, bp, rounds=2, single_use=False, want=lambda h, call: h['q'] not in ('GenState::emit', 'GenState::getNextPos', 'GenState::removeTopPotBreak'))
        if names_ and touches_tables(bp2):
            bp = bp2
    g = m.cfg(bp)
    emits = [ev for ev in g.calls() if m.callee(ev.e) in m.emit_roots or m.callee(ev.e) == 'GenState::emit']
    pb_emit = [ev for ev in emits if any(m.is_factory(x, 'PotentialBreak') for x in walk_expr(ev.e))]
    if len(pb_emit) != 1:
        A.unknown('breakpoint()', '%d PotentialBreak emissions' % len(pb_emit))
    else:
        em = pb_emit[0]
        cond_em = [show(c)[:70] + (' is %s' % str(lab).lower()) for c, lab, cn in g.guards_of(em) if isinstance(lab, bool)]
        A.check(g.on_all_paths(em) and not cond_em, 'breakpoint(): the marker is emitted', 'a POTENTIAL_BREAK is emitted on every path through breakpoint()',
                'the POTENTIAL_BREAK is emitted only when %s, but the site is recorded in the tables all the same: the recorded position is then the position of whatever instruction comes '
                'next - arming the line overwrites that instruction' % (cond_em[0] if cond_em else 'some condition holds'), W(m, bp, em.e),
                witness={'input': 'a PROGRAM whose END follows the END of a loop, and a breakpoint on the line of the second END'} if (cond_em or not g.on_all_paths(em)) else None)

        def position_ok(ev, e):
            """e denotes the index of the instruction emitted at `em`"""
            o = m.origin(bp, e)
            if is_call(o, 'GenState::getNextPos'):
                oe = g.ev(o) if o.get('sid') in g.by_sid else ev
                return g.dominates(oe, em) and not any(g.can_follow(oe, x) and g.can_follow(x, em) and x is not em for x in emits)
            if o is not None and o.get('k') == 'bin' and o['op'] == '-' and is_call(strip_casts(o['l']), 'GenState::getNextPos') \
                    and strip_casts(o['r']).get('k') == 'int' and strip_casts(o['r'])['v'] == 1:
                return g.dominates(em, g.ev(strip_casts(o['l'])))
            return False
        li = pbk = None
        bpvars = set()
        for ev in g.events:
            e = ev.e
            # line_info[K] = bp   (operator= on BreakPoint or plain assign)
            tgt = val = None
            if e.get('k') == 'assign':
                tgt, val = strip_casts(e['l']), e['r']
            elif e.get('k') == 'call' and m.callee(e).endswith('::operator=') and e.get('obj') is not None:
                tgt, val = strip_casts(e['obj']), e['args'][0]
            if tgt is not None and is_call(tgt, '::operator[]') and table_of(tgt['obj'])[0] == 'line_info':
                li = (ev, tgt['args'][0], val)
            if e.get('k') == 'call' and e.get('obj') is not None and m.callee(e).split('::')[-1] in ('insert_or_assign', 'emplace', 'try_emplace') and \
                    field_chain(strip_casts(e['obj']))[1][-1:] == ['line_info'] and len(e['args']) == 2:
                li = (ev, e['args'][0], e['args'][1])
            if e.get('k') == 'call' and m.callee(e).split('::')[-1] in ('push_back', 'emplace_back') and e.get('obj') is not None:
                o = strip_casts(e['obj'])
                if o.get('k') == 'ref' and o.get('dk') == 'var':
                    oo = m.origin(bp, o)
                    o = strip_casts(strip_copies(oo)) if oo is not None and oo is not o else o
                if is_call(o, '::operator[]') and table_of(o['obj'])[0] == 'potential_breaks':
                    pbk = (ev, e['args'][0], o['args'][0])
        if li is None or pbk is None:
            txt_all = ' '.join(show(x) for x in walk_all_exprs(bp['body']))
            gone = [t for t, v in (('line_info', li), ('potential_breaks', pbk)) if v is None and t not in txt_all]
            only_create = [e for e in walk_all_exprs(bp['body']) if e.get('k') == 'call' and e.get('obj') is not None and
                           m.callee(e).split('::')[-1] in ('insert', 'emplace', 'try_emplace') and table_of(strip_casts(e['obj']))[0] == 'potential_breaks']
            appends = [e for e in walk_all_exprs(bp['body']) if e.get('k') == 'call' and m.callee(e).split('::')[-1] in ('push_back', 'emplace_back', 'insert_or_assign')
                       and e not in only_create]
            replaced = None
            for e in walk_all_exprs(bp['body']):
                tgt = None
                if e.get('k') == 'assign' and e.get('op', '=') == '=':
                    tgt = strip_casts(e['l'])
                elif e.get('k') == 'call' and m.callee(e).endswith('::operator=') and e.get('obj') is not None:
                    tgt = strip_casts(e['obj'])
                if tgt is not None and is_call(tgt, '::operator[]') and table_of(tgt['obj'])[0] == 'potential_breaks':
                    replaced = e
            if gone:
                A.violation('breakpoint(): both tables', '%s is not updated at all when a site is created' % ' and '.join(gone), W(m, bp))
            elif pbk is None and replaced is not None and not appends:
                A.violation('breakpoint(): site list entry', 'the site list of the location is replaced by a new one-element list (%s): the earlier sites of the same source line are '
                            'dropped from potential_breaks (they cannot be armed) while line_info still reports them' % show(replaced)[:60], W(m, bp, replaced),
                            witness={'input': 'two statements on one line: x0 := 1; x1 := 2'})
            elif pbk is None and only_create and not appends:
                A.violation('breakpoint(): site list entry', 'the site is entered with %s(), which does nothing when the location already has an entry: the second and every later '
                            'site of a source line is missing from potential_breaks (it cannot be armed) while line_info still reports it' % m.callee(only_create[0]).split('::')[-1],
                            W(m, bp, only_create[0]), witness={'input': 'two statements on one line: x0 := 1; x1 := 2'})
            else:
                A.unknown('breakpoint(): both tables', 'update of %s not recognised' % ' / '.join(t for t, v in (('line_info', li), ('potential_breaks', pbk)) if v is None))
        else:
            A.check(position_ok(li[0], li[1]) and g.on_all_paths(li[0]), 'breakpoint(): line_info key', 'key = index of the emitted POTENTIAL_BREAK',
                    'line_info key %s is not the index of the emitted instruction' % show(li[1]), W(m, bp, li[0].e))
            A.check(position_ok(pbk[0], pbk[1]) and g.on_all_paths(pbk[0]), 'breakpoint(): site list entry', 'pushed value = index of the emitted POTENTIAL_BREAK',
                    'pushed site %s is not the index of the emitted instruction' % show(pbk[1]), W(m, bp, pbk[0].e))
            same = m.same_var(li[2], pbk[2], bp) or (show(strip_casts(li[2])) == show(strip_casts(pbk[2])) and strip_casts(li[2]).get('k') == 'member')
            A.check(same, 'breakpoint(): one location', 'the location stored in line_info is the key of potential_breaks',
                    'tables are updated with different locations: %s vs %s' % (show(li[2]), show(pbk[2])), W(m, bp))
            o = m.origin(bp, pbk[2])
            def fs_field(v):
                # fs.name / fs.line, directly or through a one-line const accessor of the file-state record (fs.fileName() { return name; })
                v0 = strip_copies(strip_casts(v)) if v is not None else None
                if v0 is not None and v0.get('k') == 'call' and not v0.get('args') and v0.get('obj') is not None and v0.get('callee_in_repo'):
                    acc = [y for y in m.all_fns() if y['q'] == v0.get('callee') and y.get('body') is not None]
                    if len(acc) == 1:
                        rets_ = [s2 for s2 in walk_stmts(acc[0]['body']) if s2['k'] == 'return' and s2.get('e') is not None]
                        oth_ = [s2 for s2 in walk_stmts(acc[0]['body']) if s2['k'] not in ('return', 'block')]
                        if len(rets_) == 1 and not oth_:
                            return field_chain(v0['obj'])[1] + field_chain(rets_[0]['e'])[1][-1:]
                return field_chain(v0)[1] if v0 is not None else []
            flds_ = None
            if o is not None and o.get('k') == 'init':
                flds_ = dict((n, fs_field(v)) for n, v in o['fields'])
            elif o is not None and o.get('k') == 'construct' and (o.get('rec') or '').split('::')[-1] == 'BreakPoint' and len(o.get('args', [])) == 2:
                # BreakPoint(file, line): a constructor that stores both arguments unchanged (member initialisers from the parameters)
                ct = [y for y in m.facts.functions if y.get('kind') == 'ctor' and y['q'].rsplit('::', 1)[0].split('::')[-1] == 'BreakPoint' and len(y.get('params', [])) == 2 and y.get('body') is not None]
                plain = len(ct) >= 1 and all(len([ci for ci in (y.get('ctor_inits') or []) if ci.get('field') in ('file', 'line') and
                                                  any(z.get('k') == 'ref' and z.get('dk') == 'param' for z in walk_expr(ci.get('init') or {}))]) == 2 and
                                             not [s2 for s2 in walk_stmts(y['body']) if s2['k'] != 'block'] for y in ct)
                if plain:
                    flds_ = {'file': fs_field(o['args'][0]), 'line': fs_field(o['args'][1])}
            okfs = flds_ == {'file': ['fs', 'name'], 'line': ['fs', 'line']}
            A.check(okfs, 'breakpoint(): location is the current position', '{file = fs.name, line = fs.line}',
                    'location is %s, not the current file state' % show(o), W(m, bp))
    # ---- b exact removal
    B = rep.rule('C08.b', 'a function that pops a POTENTIAL_BREAK removes exactly that index from line_info and exactly '
                          'that element from its location\'s site list; a whole location is erased only when its list is empty', floor=2)
    poppers = []
    for f in m.all_fns():
        for e in walk_all_exprs(f['body']):
            if is_call(e, '::pop_back') and e.get('obj') is not None and field_chain(e['obj'])[1][-2:] == ['out', 'code'] or \
                    (is_call(e, '::pop_back') and e.get('obj') is not None and field_chain(e['obj'])[1][-1:] == ['code']):
                poppers.append((f, e))
            if is_call(e, '::erase') and e.get('obj') is not None and field_chain(e['obj'])[1][-1:] == ['code']:
                B.unknown('%s: code.erase' % f['q'], 'instruction removal by erase not supported')
    for f, pop in poppers:
        rep.analysed(f)
        if not any(is_call(x, '::erase') and x.get('obj') is not None and field_chain(x['obj'])[1][-1:] == ['line_info'] for x in walk_all_exprs(f['body'])):
            # the table half may live in a helper (unregisterSite(pos)): the popping function with its helpers put back
            from .inline import inlined
            f2, names_ = inlined(m.facts, f, rounds=2, single_use=False, want=lambda h, call: h['q'] not in ('GenState::emit', 'GenState::getNextPos'))
            if names_:
                pops2 = [x for x in walk_all_exprs(f2['body']) if is_call(x, '::pop_back') and x.get('obj') is not None and field_chain(x['obj'])[1][-1:] == ['code']]
                if len(pops2) == 1:
                    f, pop = f2, pops2[0]
        gg = m.cfg(f)
        popev = gg.ev(pop)
        li_er = []
        pb_map_er = []
        pb_elem = []
        for ev in gg.calls():
            e = ev.e
            c = m.callee(e).split('::')[-1]
            if e.get('obj') is None:
                continue
            o = strip_casts(e['obj'])
            tname, _ = table_of(o, m, f)
            direct = field_chain(o)[1][-1:]
            if c == 'erase' and direct == ['line_info']:
                li_er.append(ev)
            elif c in ('erase', 'clear', 'extract') and direct == ['potential_breaks']:
                pb_map_er.append(ev)
            elif c in ('pop_back', 'erase') and direct != ['potential_breaks']:
                # element-level removal on the vector of one location
                oo = m.origin(f, o)
                if tname == 'potential_breaks' or table_of(oo, m, f)[0] == 'potential_breaks':
                    pb_elem.append(ev)
        for ev in gg.calls():
            e = ev.e
            # std::erase(sites, pos) / std::erase_if / std::remove on the site list of one location
            if e.get('obj') is None and (e.get('callee') or '') in ('std::erase', 'std::erase_if') and e['args']:
                a0 = strip_casts(e['args'][0])
                oo = m.origin(f, a0)
                if table_of(a0, m, f)[0] == 'potential_breaks' or table_of(oo, m, f)[0] == 'potential_breaks':
                    pb_elem.append(ev)
        inst = '%s: pop of a breakpoint instruction' % f['q']
        why = []
        if len(li_er) != 1:
            why.append('%d erase(s) on line_info' % len(li_er))
        cannot = None
        if not pb_elem:
            unguarded0 = []
            for ev0 in pb_map_er:
                if not any(label is True and (is_call(strip_casts(cond), '::empty') or 'size()' in show(cond)) for cond, label, cn in gg.guards_of(ev0)):
                    unguarded0.append(ev0)
            if unguarded0:
                why.append('the whole location is erased from potential_breaks (%s): other sites of the same line are lost while '
                           'line_info still reports them' % show(unguarded0[0].e)[:70])
            elif pb_map_er:
                # is there any mutation of a site list at all (pop_back, erase, remove, assignment) that the recogniser may have missed?
                other_mut = [x for x in walk_all_exprs(f['body']) if x.get('k') == 'call' and x.get('obj') is not None and
                             m.callee(x).split('::')[-1] in ('pop_back', 'erase', 'resize', 'assign', 'operator=', 'clear', 'swap') and
                             field_chain(strip_casts(x['obj']))[1][-1:] not in (['potential_breaks'], ['line_info'], ['code'])]
                other_mut += [x for x in walk_all_exprs(f['body']) if x.get('k') == 'call' and (x.get('callee') or '').split('<')[0] in ('std::erase', 'std::erase_if', 'std::remove', 'std::ranges::remove')]
                if not other_mut:
                    why.append('the location is erased from potential_breaks only when its list has no other site, and nothing removes the popped site from a list that has: '
                               'the popped site stays listed (and is reused by the next instruction emitted at that position)')
                else:
                    cannot = 'the location is erased only when its list is empty, but the removal of the popped site from that list was not recognised'
            else:
                why.append('the popped site stays listed in potential_breaks')
        unguarded_map_erase = []
        for ev in pb_map_er:
            g_ok = False
            for cond, label, cn in gg.guards_of(ev):
                c = strip_casts(cond)
                if label is True and (is_call(c, '::empty') or (c.get('k') == 'bin' and c['op'] == '==' and is_call(strip_casts(c['l']), '::size'))):
                    g_ok = True
            if not g_ok:
                unguarded_map_erase.append(ev)
        if pb_elem and unguarded_map_erase:
            why.append('map-level erase of the location is not guarded by an emptiness test of its site list')
        # the location of the popped site is looked up before its line_info entry is erased
        for ev in gg.calls():
            e2 = ev.e
            if e2.get('obj') is not None and field_chain(strip_casts(e2['obj']))[1][-1:] == ['line_info'] and m.callee(e2).split('::')[-1] in ('operator[]', 'at', 'find'):
                late = [er for er in li_er if gg.can_follow(er, ev) and not (er.node is ev.node and ev.idx < er.idx) and not any(x is e2 for x in walk_expr(er.e))]
                if late:
                    why.append('the location is read from line_info (%s) after the entry was erased: operator[] then creates an empty location and the real one keeps the popped site' % show(e2)[:40])
        for pev in pb_elem:
            oe = strip_casts(pev.e.get('obj') or (pev.e['args'][0] if pev.e.get('args') else None))
            if oe is not None and oe.get('k') == 'ref' and oe.get('dk') == 'var':
                decl = [v for st in walk_stmts(f['body']) if st['k'] == 'decl' for v in st['vars'] if v['d'] == oe['d']]
                if decl and not decl[0].get('is_ref') and '*' not in (decl[0].get('cty') or ''):
                    wb = [x for x in walk_all_exprs(f['body']) if ((x.get('k') == 'call' and m.callee(x).endswith('::operator=')) or x.get('k') == 'assign') and
                          any(y.get('k') == 'ref' and y.get('d') == oe['d'] for y in walk_expr((x.get('args') or [x.get('r')])[0] or {}))]
                    if not wb:
                        why.append('the site is removed from %s, a by-value copy of the location\'s list that is never written back: the table keeps the popped site' % oe['name'])
        # what is taken out of the location's list is the popped index (the value that is erased from line_info), not another number
        if len(li_er) == 1 and li_er[0].e.get('args'):
            kx = strip_conv(li_er[0].e['args'][0])
            if is_call(kx, '::find') and kx.get('args'):
                kx = strip_conv(kx['args'][0])
            for pev in pb_elem:
                vals_ = []
                for x in walk_expr(pev.e):
                    if x.get('k') == 'call' and (x.get('callee') or '').split('<')[0] in ('std::remove', 'std::find', 'std::erase', 'std::ranges::remove', 'std::ranges::find') and len(x.get('args', [])) >= 2:
                        vals_.append(x['args'][-1])
                for v_ in vals_:
                    v0 = strip_conv(v_)
                    if kx is not None and v0 is not None and show(v0) != show(kx) and not m.same_var(v0, kx):
                        o1, o2 = m.origin(f, v0), m.origin(f, kx)
                        if o1 is None or o2 is None or show(strip_casts(o1)) != show(strip_casts(o2)):
                            why.append('the value removed from the location\'s site list is %s, but the popped instruction is %s: the popped site stays listed' % (show(v0), show(kx)))
        # the instruction is popped exactly when its table entries are removed (same conditions)
        if len(li_er) == 1:
            gp_ = set((cn.id, str(label)) for cond, label, cn in gg.guards_of(popev))
            ge_ = set((cn.id, str(label)) for cond, label, cn in gg.guards_of(li_er[0]))
            if gp_ != ge_:
                extra = [show(cond)[:50] for cond, label, cn in gg.guards_of(popev) if (cn.id, str(label)) not in ge_]
                missing = [show(cond)[:50] for cond, label, cn in gg.guards_of(li_er[0]) if (cn.id, str(label)) not in gp_]
                why.append('the instruction is popped under other conditions than its table entries are removed (%s): %s' % (
                    ('pop additionally requires %s' % extra) if extra else ('table removal additionally requires %s' % missing),
                    'a POTENTIAL_BREAK stays in the code that neither table lists' if extra else 'entries of a popped instruction stay in the tables'))
        # the index that is taken out of the tables is the index of the popped instruction: size()-1 read before the pop, or size()
        # read after it
        for er in li_er:
            karg = strip_conv(er.e['args'][0]) if er.e.get('args') else None
            if is_call(karg, '::find') and karg.get('args'):
                karg = strip_conv(karg['args'][0])
            kexp = m.origin(f, karg) if karg is not None else None
            kexp = strip_casts(kexp) if kexp is not None else None
            minus1 = False
            if kexp is not None and kexp.get('k') == 'bin' and kexp['op'] == '-' and strip_casts(kexp['r']).get('k') == 'int' and strip_casts(kexp['r'])['v'] == 1:
                minus1, kexp = True, strip_casts(kexp['l'])
            szcall = kexp is not None and (is_call(kexp, 'GenState::getNextPos') or (is_call(kexp, '::size') and field_chain(kexp.get('obj'))[1][-1:] == ['code']))
            if szcall and kexp.get('sid') in gg.by_sid:
                kev = gg.ev(kexp)
                after_pop = gg.dominates(popev, kev)
                before_pop = not gg.can_follow(popev, kev) or (popev.node is kev.node and kev.idx < popev.idx)
                if minus1 and after_pop:
                    why.append('the index %s is computed after the instruction was popped: it names the instruction before the popped one, whose entries are removed '
                               'instead - the popped site stays in line_info and potential_breaks and is reused by the next instruction' % show(karg))
                elif not minus1 and before_pop:
                    why.append('the index %s is the position after the last instruction (no - 1): the entries of the popped site are never removed' % show(karg))
        if pb_elem and not pb_map_er:
            why.append('the site is removed from its location\'s list, but a location whose list became empty is never erased: it stays available '
                       '(setBreakPoint accepts it) although no instruction can report it')
        if cannot and not why:
            B.unknown(inst, cannot, W(m, f, pop))
        else:
          B.check(not why, inst, 'index removed from line_info; site removed element-wise; location erased only when empty',
                '; '.join(why), W(m, f, pop),
                witness={'input': 'main: PROGRAM g IN a DO\\nx0 := include "c"\\nEND\\nPROGRAM include "c" IN a DO\\nx0 := 1\\nEND\\nx1 := 2 ; file c: h',
                         'effect': 'line_info keeps c:1 for an earlier site, potential_breaks no longer lists c:1'} if why else None)
        # the popped instruction is a POTENTIAL_BREAK (guard)
        def is_pb_eq(c):
            return c.get('k') == 'bin' and c['op'] == '==' and 'POTENTIAL_BREAK' in show(c)

        def is_pb_ne(c):
            return c.get('k') == 'bin' and c['op'] == '!=' and 'POTENTIAL_BREAK' in show(c)
        okg = guarded(gg, popev, is_pb_eq, True) or guarded(gg, popev, is_pb_ne, False)
        B.check(okg, '%s: only POTENTIAL_BREAK is popped' % f['q'], 'pop guarded by a test of the last opcode',
                'instruction popped without checking that it is a breakpoint site', W(m, f, pop))
    # ---- c who may write
    Cw = rep.rule('C08.c', 'the two tables are written, and PotentialBreak() is created, only by the site bookkeeping; '
                           'BREAK is never emitted by the compiler', floor=3)
    allowed = set(['GenState::breakpoint'] + [f['q'] for f, _ in poppers])
    # helpers that are called from the bookkeeping functions only (registerSite, unregisterSite) belong to the bookkeeping
    grew = True
    while grew:
        grew = False
        for f in m.all_fns():
            if f['q'] in allowed:
                continue
            cs = callers_of(m, f['q'])
            if cs and all(cf['q'] in allowed for cf, _ in cs):
                allowed.add(f['q'])
                grew = True
    MUT = ('push_back', 'erase', 'insert', 'clear', 'emplace', 'operator=', 'pop_back', 'swap', 'resize', 'extract', 'merge', 'insert_or_assign', 'try_emplace')
    for f in m.all_fns():
        for e in walk_all_exprs(f['body']):
            if e.get('k') == 'call' and e.get('obj') is not None and m.callee(e).split('::')[-1] in MUT:
                tname, _ = table_of(e['obj'])
                o2 = m.origin(f, strip_casts(e['obj']))
                tname = tname if tname in ('line_info', 'potential_breaks') else table_of(o2)[0]
                if tname in ('line_info', 'potential_breaks'):
                    if f['q'] == 'Theo::gen' and False:
                        continue
                    Cw.check(f['q'] in allowed, '%s: %s.%s' % (f['q'], tname, m.callee(e).split('::')[-1]),
                             'site bookkeeping function', 'table %s modified outside the site bookkeeping' % tname, W(m, f, e))
            if e.get('k') == 'call' and m.is_factory(e, 'PotentialBreak'):
                Cw.check(f['q'] == 'GenState::breakpoint', '%s: PotentialBreak()' % f['q'], 'only breakpoint() creates sites',
                         'a POTENTIAL_BREAK is created outside breakpoint(): it would be an unlisted site', W(m, f, e))
            if e.get('k') == 'call' and m.is_factory(e, 'Break'):
                Cw.violation('%s: Break()' % f['q'], 'the compiler emits an armed BREAK', W(m, f, e))
            if e.get('k') == 'assign':
                tn = table_of(e['l'])[0]
                l = strip_casts(e['l'])
                if is_call(l, '::operator[]') and tn in ('line_info', 'potential_breaks'):
                    Cw.check(f['q'] in allowed, '%s: %s[...] = ...' % (f['q'], tn), 'site bookkeeping function',
                             'table %s modified outside the site bookkeeping' % tn, W(m, f, e))
    # the consumers of the tables (the VM and the disassembler) never add to them: a subscript of line_info creates an entry for an
    # instruction that is no site unless the instruction is known to be one
    vfacts = Facts(['VM/src/vm.cpp', 'VM/src/program.cpp'])
    rep.note_facts(vfacts)
    from .props_c02 import Multi as _Multi
    VMm = _Multi(vfacts)
    for f in vfacts.functions:
        if f.get('body') is None or f['tmpl'] == 'pattern' or not f['file'].endswith(('vm.cpp', 'program.cpp')):
            continue
        gg = None
        for e in walk_all_exprs(f['body']):
            if not (e.get('k') == 'call' and e.get('obj') is not None):
                continue
            short = (e.get('callee') or '').split('::')[-1]
            tn = field_chain(strip_casts(e['obj']))[1][-1:]
            if tn == ['line_info'] and (short == 'operator[]' or short in MUT):
                gg = gg or VMm.cfg(f)

                def site_guarded(g2, ev):
                    for cond, label, cn in g2.guards_of(ev):
                        if isinstance(label, tuple) and label[0] == 'case' and set(label[1]) <= {'POTENTIAL_BREAK', 'BREAK'} and label[1]:
                            return True
                        if isinstance(label, bool) and label and any(k in show(cond) for k in ('POTENTIAL_BREAK', 'BREAK')) and strip_casts(cond).get('k') == 'bin' and \
                                strip_casts(cond)['op'] in ('==', '||'):
                            return True
                    return False
                site_known = site_guarded(gg, gg.ev(e))
                if not site_known and f['kind'] == 'lambda':
                    # a local helper (auto print_break = [..](..){ .. line_info[line] .. }): every call of it is at a known site
                    calls = [(pf, c) for pf in vfacts.functions if pf.get('body') is not None and pf['tmpl'] != 'pattern'
                             for c in walk_all_exprs(pf['body']) if c.get('k') == 'call' and c.get('callee_lambda_id') == f['q']]
                    escapes = [x for pf in vfacts.functions if pf.get('body') is not None and pf['tmpl'] != 'pattern' for x in walk_all_exprs(pf['body'])
                               if x.get('k') == 'call' and any(y.get('k') == 'lambda' and y.get('fn') == f['q'] for a in x.get('args', []) for y in walk_expr(a))]
                    if calls and not escapes and all(c.get('sid') in VMm.cfg(pf).by_sid and site_guarded(VMm.cfg(pf), VMm.cfg(pf).ev(c)) for pf, c in calls):
                        site_known = True
                Cw.check(site_known and short == 'operator[]', '%s: line_info.%s' % (f['q'].split('::')[-1], short), 'subscript only where the instruction is a breakpoint site (its entry exists)',
                         'line_info is %s for an instruction that need not be a breakpoint site: %s - from then on the tables are no inverses of each other' % (
                             'subscripted' if short == 'operator[]' else 'modified', 'operator[] inserts an empty location for it' if short == 'operator[]' else short),
                         '%s:%d' % (os.path.relpath(f['file'], vfacts.repo), e['loc'][0]), witness={'call': 'Program::disassemble() on any program'} if not site_known else None)
    # ---- d hidden file
    Dd = rep.rule('C08.d', 'lines of the hidden standard-macro file never get a site: advanceLine returns early for exactly '
                           'the file name parse() uses', floor=3)
    hidden_file_rule(Dd, m, rep)
    # ---- e locations are token positions
    token_pairs_rule(rep, m)
    E = rep.rule('C08.e', 'the current location is only ever set from (line, file) of one syntax-tree node; node positions '
                          'are copied pairwise from one token or node', floor=10)
    al = m.fn('GenState::advanceLine')
    # a line number keeps its value on the way from the node to the tables: no field on that way is narrower than the node's
    WIDTH = {'long': 8, 'long long': 8, 'unsigned long': 8, 'unsigned long long': 8, 'int': 4, 'unsigned int': 4, 'short': 2, 'unsigned short': 2,
             'char': 1, 'signed char': 1, 'unsigned char': 1, 'bool': 1}
    for f in m.all_fns():
        for x in walk_all_exprs(f['body']):
            pairs = []
            if x.get('k') == 'assign' and x.get('op', '=') == '=':
                pairs.append((strip_casts(x['l']), x['r']))
            if x.get('k') == 'init':
                for fname, fv in x.get('fields', []):
                    if fname == 'line':
                        pairs.append(({'k': 'member', 'name': 'line', 'cty': None, 'rec_init': x.get('rec')}, fv))
            for l, r in pairs:
                if l is None or l.get('k') != 'member' or l.get('name') != 'line':
                    continue
                lt = (l.get('cty') or '').replace('const ', '')
                r0 = r
                while r0 is not None and r0.get('k') == 'cast':
                    r0 = r0['e']
                rt = (strip_copies(r0).get('cty') or '').replace('const ', '') if r0 is not None else ''
                if lt in WIDTH and rt in WIDTH and WIDTH[lt] < WIDTH[rt]:
                    E.violation('%s: %s' % (f['q'], show(x)[:50]), 'the line number is stored in a field of type %s but comes from a value of type %s: lines above %d wrap around, '
                                'and the tables name lines that do not exist in the file' % (lt, rt, 2 ** (8 * WIDTH[lt] - 1) - 1), W(m, f, x),
                                witness={'input': 'a source file with more than %d lines' % (2 ** (8 * WIDTH[lt] - 1) - 1)})
    for f in m.all_fns():
        for e in walk_all_exprs(f['body']):
            if e.get('k') == 'assign':
                root, path = field_chain(e['l'])
                if path[-2:-1] == ['fs'] or path[:1] == ['fs'] and len(path) == 2:
                    okk = f['q'] == 'GenState::advanceLine' and strip_casts(e['r']).get('dk') == 'param'
                    E.check(okk, '%s: fs.%s = %s' % (f['q'], path[-1], show(e['r'])), 'set from advanceLine\'s parameter',
                            'current location written from %s' % show(e['r']), W(m, f, e))
    for (f, call) in callers_of(m, 'GenState::advanceLine'):
        a0, a1 = field_chain(call['args'][0]), field_chain(call['args'][1])
        okk = a0[1] == ['line'] and a1[1] == ['file'] and a0[0] is not None and a1[0] is not None and m.same_var(a0[0], a1[0]) and \
            'Node' in (strip_casts(a0[0]).get('cty') or '')
        E.check(okk, '%s: advanceLine(%s, %s)' % (f['q'], show(call['args'][0]), show(call['args'][1])), 'line and file of the same node',
                'advanceLine is not called with (node->line, node->file) of one node', W(m, f, call))
    pf = Facts(['Compiler/src/parse.cpp'])
    rep.note_facts(pf)
    n_mk = 0
    for f in pf.functions_in('parse.cpp'):
        for e in walk_all_exprs(f['body']):
            if is_call(e, 'AST::mk') and len(e['args']) >= 3:
                n_mk += 1
                a0, a1 = field_chain(e['args'][1]), field_chain(e['args'][2])
                same = a0[0] is not None and a1[0] is not None and show(strip_casts(a0[0])) == show(strip_casts(a1[0]))
                okk = a0[1][-1:] == ['line'] and a1[1][-1:] == ['file'] and same
                E.check(okk, '%s: mk(%s, %s, %s)' % (f['q'], show(e['args'][0]), show(e['args'][1]), show(e['args'][2])),
                        'position copied pairwise from %s' % show(strip_casts(a0[0])),
                        'node position (%s, %s) is not the (line, file) of one token/node' % (show(e['args'][1]), show(e['args'][2])),
                        'Compiler/src/parse.cpp:%d' % e['loc'][0])
    rep.extra['mk_sites'] = n_mk


# ============================================================================= C16
def find_factory_ev(m, g, name, pred=None):
    out = [ev for ev in g.calls() if m.is_factory(ev.e, name) and (pred is None or pred(ev.e))]
    return out


def enclosing_emit(m, g, fac_ev):
    """the emit/emitBackpatched call event that takes this factory call as argument"""
    for ev in g.calls():
        c = m.callee(ev.e)
        if c in ('GenState::emit', 'GenState::emitBackpatched'):
            if any(x is fac_ev.e for a in ev.e['args'] for x in walk_expr(a)):
                return ev
    return None


def c16(rep, tier):
    m = GenModel()
    rep.note_facts(m.facts)
    O1 = rep.rule('C16.O1', 'a program becomes callable only when its generation is finished: the routine table is written '
                            'only in popSymbols, which dispatchProgram calls after the body and the RET', floor=3)
    writers = set()
    for f in m.all_fns():
        for e in walk_all_exprs(f['body']):
            tgt = None
            if e.get('k') == 'assign':
                tgt = strip_casts(e['l'])
            elif e.get('k') == 'call' and m.callee(e).endswith('::operator=') and e.get('obj') is not None:
                tgt = strip_casts(e['obj'])
            if tgt is not None and is_call(tgt, '::operator[]') and table_of(tgt['obj'])[0] == 'funcAddrs':
                writers.add(f['q'])
                O1.check(f['q'] == 'GenState::popSymbols', '%s: funcAddrs[...] = ...' % f['q'], 'routine registered when finished',
                         'routine table written outside popSymbols: a program could become callable early', W(m, f, e))
            if e.get('k') == 'call' and e.get('obj') is not None and field_chain(e['obj'])[1][-1:] == ['funcAddrs'] and \
                    m.callee(e).split('::')[-1] in ('insert', 'emplace', 'insert_or_assign', 'try_emplace', 'erase', 'clear', 'swap', 'operator='):
                O1.check(f['q'] == 'GenState::popSymbols', '%s: funcAddrs.%s' % (f['q'], m.callee(e).split('::')[-1]), 'registration',
                         'routine table modified outside popSymbols', W(m, f, e))
    # ... nor is a field of an existing record changed in place (through funcAddrs[k].x, an iterator from find() or a reference)
    def record_in_table(f_, e, depth=0):
        e = strip_casts(e)
        while e is not None and depth < 12:
            depth += 1
            k = e.get('k')
            if k == 'member':
                e = strip_casts(e['base'])
            elif k == 'paren' or (k == 'un' and e.get('op') == '*'):
                e = strip_casts(e['e'])
            elif k == 'call' and e.get('obj') is not None and (e.get('callee') or '').split('::')[-1] in ('operator[]', 'at', 'find'):
                return table_of(e['obj'])[0] == 'funcAddrs'
            elif k == 'call' and e.get('obj') is not None and (e.get('callee') or '').split('::')[-1] in ('operator->', 'operator*'):
                e = strip_casts(e['obj'])
            elif k == 'ref' and e.get('dk') == 'var':
                decl = [v for st in walk_stmts(f_['body']) if st['k'] == 'decl' for v in st['vars'] if v.get('d') == e.get('d')]
                cty = (e.get('cty') or '')
                if not decl or not (decl[0].get('is_ref') or 'iterator' in cty.lower() or cty.rstrip().endswith('*')):
                    return False       # a copy of the record
                o = m.origin(f_, e)
                if o is None or o is e:
                    return False
                e = strip_casts(strip_copies(o)) if not decl[0].get('is_ref') else strip_casts(o)
            else:
                return False
        return False
    for f in m.all_fns():
        for e in walk_all_exprs(f['body']):
            tgt = None
            if e.get('k') == 'assign':
                tgt = strip_casts(e['l'])
            elif e.get('k') == 'un' and e.get('op') in ('++', '--'):
                tgt = strip_casts(e['e'])
            if tgt is not None and tgt.get('k') == 'member' and tgt.get('name') not in ('second', 'first') and record_in_table(f, tgt):
                O1.check(f['q'] == 'GenState::popSymbols', '%s: %s = ...' % (f['q'], show(tgt)[:50]), 'records change only when a routine is finished',
                         'a record of the routine table is changed in place outside popSymbols: a name can resolve to a routine whose generation is not '
                         'finished (a redefinition that calls its own name is accepted and recurses)', W(m, f, e),
                         witness={'input': 'PROGRAM f IN a DO x0 := a END; PROGRAM f IN a DO x0 := f(a) END; x1 := f(1)'} if f['q'] != 'GenState::popSymbols' else None)
    # std::map::operator[] inserts: a mere *read* funcAddrs[name] registers an empty record for an unknown name
    for f in m.all_fns():
        gg = None
        for e in walk_all_exprs(f['body']):
            if not (is_call(e, '::operator[]') and e.get('obj') is not None and table_of(e['obj'])[0] == 'funcAddrs'):
                continue
            if f['q'] == 'GenState::popSymbols':
                continue
            # assignments through operator[] are judged above
            is_target = any((x.get('k') == 'assign' and strip_casts(x['l']) is e) or
                            (x.get('k') == 'call' and m.callee(x).endswith('::operator=') and x.get('obj') is not None and strip_casts(x['obj']) is e)
                            for x in walk_all_exprs(f['body']))
            if is_target:
                continue
            gg = gg or m.cfg(f)
            ev = gg.ev(e)
            key = strip_casts(e['args'][0])
            inst = '%s: read of funcAddrs[%s]' % (f['q'], show(key)[:30])

            def found(c, key=key):
                c = strip_casts(c)
                if c is None:
                    return None
                if c.get('k') == 'un' and c['op'] == '!':
                    v = found(c['e'])
                    return None if v is None else not v
                same = lambda a: m.same_var(a, key) or (m.strval(f, a) is not None and m.strval(f, a) == m.strval(f, key))
                if (is_call(c, '::contains') or is_call(c, '::count')) and c.get('obj') is not None and table_of(c['obj'])[0] == 'funcAddrs' and same(c['args'][0]):
                    return True
                if c.get('k') in ('bin', 'call') and c.get('op') in ('==', '!='):
                    fnd = [x for x in walk_expr(c) if is_call(x, '::find') and x.get('obj') is not None and table_of(x['obj'])[0] == 'funcAddrs' and same(x['args'][0])]
                    end = [x for x in walk_expr(c) if is_call(x, '::end')]
                    if fnd and end:
                        return c['op'] == '!='
                return None
            ok_guard = any(isinstance(label, bool) and found(cond) is not None and found(cond) == label for cond, label, cn in gg.guards_of(ev))
            root_ok = False
            if f['q'] == 'Theo::gen':
                pops_ = gg.calls_to('GenState::popSymbols')
                pushes_ = gg.calls_to('GenState::pushSymbols')
                rn = m.strval(f, pushes_[0].e['args'][0]) if len(pushes_) == 1 else None
                root_ok = len(pops_) == 1 and gg.dominates(pops_[0], ev) and rn is not None and m.strval(f, key) == rn
            O1.check(ok_guard or root_ok, inst, 'only after a successful lookup of the same name (or of the root routine after it was finished)',
                     'operator[] on the routine table inserts an empty record (entry 0, no arguments) when the name is unknown: from then on the name is callable - '
                     'a program can call itself, and the call enters the main script', W(m, f, e),
                     witness={'input': 'PROGRAM spin DO x0 := RUN spin WITH END END  r := RUN spin WITH END'} if not (ok_guard or root_ok) else None)
    dp = m.fn('dispatchProgram')
    rep.analysed(dp)
    g = m.cfg(dp)
    pops = g.calls_to('GenState::popSymbols')
    bodies = [ev for ev in g.calls_to('dispatchVoid')]
    rets = find_factory_ev(m, g, 'Ret')
    if len(pops) >= 1 and len(bodies) == 1 and len(rets) == 1:
        ret_emit = enclosing_emit(m, g, rets[0])
        for pi, pop_ev in enumerate(pops):
            O1.check(g.dominates(bodies[0], pop_ev) and ret_emit is not None and g.dominates(ret_emit, pop_ev),
                     'dispatchProgram: registration after body%s' % ('' if pi == 0 else ' (#%d)' % (pi + 1)),
                     'dispatchVoid(body) and emit(Ret) dominate popSymbols',
                     'the routine is registered before its body is generated: recursion becomes possible', W(m, dp, pop_ev.e))
        # the body is dispatched exactly the body node; entry recorded before body
        entry = strip_casts(pops[-1].e['args'][0])
        eo = m.origin(dp, entry)
        okentry = is_call(eo, 'GenState::getNextPos') and g.dominates(g.ev(eo), bodies[0])
        O1.check(okentry, 'dispatchProgram: entry address', 'entry = position before the body', 'entry address is %s' % show(eo), W(m, dp, pops[-1].e))
    else:
        O1.unknown('dispatchProgram', 'popSymbols/body/Ret not recognised: %d/%d/%d' % (len(pops), len(bodies), len(rets)))
    O2 = rep.rule('C16.O2', 'EXEC is emitted only after a successful lookup of the callee and enters the looked-up entry', floor=1)
    for f in m.all_fns():
        gg = None
        for e in walk_all_exprs(f['body']):
            if e.get('k') == 'call' and m.is_factory(e, 'Exec'):
                gg = gg or m.cfg(f)
                ev = gg.ev(e)
                root, path = field_chain(e['args'][0])
                ctx_f, ctx_g = f, gg
                use_ev = ev
                # a helper that receives the record as a parameter: continue at its (single) call site
                hops = 0
                while root is not None and strip_casts(root).get('dk') == 'param' and hops < 3:
                    hops += 1
                    pidx = [i for i, p in enumerate(ctx_f['params']) if p['d'] == strip_casts(root)['d']]
                    cs = callers_of(m, ctx_f['q'])
                    if len(cs) != 1 or not pidx:
                        root = None
                        break
                    ctx_f, call = cs[0]
                    ctx_g = m.cfg(ctx_f)
                    use_ev = ctx_g.ev(call)
                    r2, p2 = field_chain(call['args'][pidx[0]])
                    root, path = r2, p2 + path
                o = m.origin(ctx_f, root) if root is not None else None
                o = strip_copies(o) if o is not None else None
                for _ in range(4):
                    if o is not None and strip_casts(o).get('k') == 'member' and strip_casts(o).get('mk') == 'field':
                        r3, p3 = field_chain(o)
                        path = p3 + path
                        o = m.origin(ctx_f, r3) if r3 is not None and strip_casts(r3).get('k') == 'ref' else r3
                        o = strip_copies(o) if o is not None else None
                    else:
                        break
                key_e = None
                ok = False
                if path[-1:] == ['ind'] and is_call(o, '::operator[]') and table_of(o['obj'])[0] == 'funcAddrs':
                    ok, key_e = True, o['args'][0]
                elif path[-2:] == ['second', 'ind'] and o is not None:
                    # it->second.ind with it = funcAddrs.find(name)
                    it = strip_conv(o)
                    while it is not None and it.get('k') == 'call' and it.get('op') in ('->', '*') and it.get('obj') is not None:
                        it = strip_conv(it['obj'])
                    it = m.origin(ctx_f, it) if it is not None else None
                    if is_call(it, '::find') and table_of(it['obj'])[0] == 'funcAddrs':
                        ok, key_e = True, it['args'][0]
                if root is None:
                    O2.unknown('%s: Exec(%s)' % (f['q'], show(e['args'][0])), 'cannot trace the record that supplies the entry address through the helper\'s callers', W(m, f, e))
                    continue
                guarded = False
                if ok:
                    def found_pred(c):
                        # funcAddrs.find(k) == funcAddrs.end()  (either written directly or through a local holding the iterator)
                        if not (c.get('k') in ('call', 'bin') and c.get('op') == '=='):
                            return False
                        ops = ([c['obj']] if c.get('obj') is not None else []) + list(c.get('args') or []) if c.get('k') == 'call' else [c['l'], c['r']]
                        os_ = [strip_conv(m.origin(ctx_f, x)) for x in ops]
                        fnd = [x for x in os_ if is_call(x, '::find') and table_of(x['obj'])[0] == 'funcAddrs' and m.same_var(x['args'][0], key_e)]
                        end = [x for x in os_ if is_call(x, '::end') and table_of(x['obj'])[0] == 'funcAddrs']
                        return bool(fnd) and bool(end)
                    from .genrules import guarded as _guarded
                    guarded = _guarded(ctx_g, use_ev, found_pred, False)
                    if not guarded:
                        for cond, label, cn in ctx_g.guards_of(use_ev):
                            cnt = [x for x in walk_expr(cond) if (is_call(x, '::contains') or is_call(x, '::count')) and table_of(x['obj'])[0] == 'funcAddrs']
                            if cnt and label is True and m.same_var(cnt[0]['args'][0], key_e):
                                guarded = True
                O2.check(ok and guarded, '%s: Exec(%s)' % (f['q'], show(e['args'][0])), 'entry of the record found under the called name',
                         'EXEC target %s is not the entry of a successfully looked-up routine' % show(e['args'][0]), W(m, f, e))
    O3 = rep.rule('C16.O3', 'the loop counter is a private register: unnameable by users, unique per loop, initialised from the '
                            'bound before the loop head, tested at the head and only decremented before the back jump', floor=8)
    loop_rules(O3, m, rep)


def loop_rules(R, m, rep):
    dl = m.fn('dispatchLoop')
    rep.analysed(dl)

    def shape(fx):
        g_ = m.cfg(fx)
        return (g_, find_factory_ev(m, g_, 'JmpC'), find_factory_ev(m, g_, 'Add'), find_factory_ev(m, g_, 'Jmp'), g_.calls_to('dispatchValue'), g_.calls_to('dispatchVoid'))
    g, jc, add, jm, dvs, body = shape(dl)
    if not (len(jc) == 1 and len(add) == 1 and len(jm) == 1 and len(dvs) == 1 and len(body) == 1):
        # parts of the lowering may live in helpers that are called from here only (openLoop/closeLoop ...): look at the function with
        # those helpers put back
        from .inline import inlined
        dl2, names = inlined(m.facts, dl, rounds=2, single_use=False, want=lambda h, call: not h['q'].startswith(('dispatch', 'gen_ast')))
        if names:
            g2, jc2, add2, jm2, dvs2, body2 = shape(dl2)
            if len(jc2) == 1 and len(add2) == 1 and len(jm2) == 1 and len(dvs2) == 1 and len(body2) == 1:
                dl, g, jc, add, jm, dvs, body = dl2, g2, jc2, add2, jm2, dvs2, body2
    if not (len(jc) == 1 and len(add) == 1 and len(jm) == 1 and len(dvs) == 1 and len(body) == 1):
        R.unknown('dispatchLoop', 'lowering shape not recognised (JmpC/Add/Jmp/dispatchValue/dispatchVoid = %d/%d/%d/%d/%d)' % (
            len(jc), len(add), len(jm), len(dvs), len(body)))
        return
    jc, add, jm, dv, body = jc[0], add[0], jm[0], dvs[0], body[0]
    cvar = strip_casts(jc.e['args'][1])
    ok = cvar.get('k') == 'ref' and all(m.same_var(cvar, a) for a in (add.e['args'][0], add.e['args'][1], dv.e['args'][2]))
    R.check(ok, 'dispatchLoop: one counter', 'the register tested, decremented and initialised is the same variable %s' % show(cvar),
            'JmpC tests %s, Add writes %s from %s, the bound is evaluated into %s' % (show(jc.e['args'][1]), show(add.e['args'][0]), show(add.e['args'][1]), show(dv.e['args'][2])),
            W(m, dl, jc.e))
    dec = strip_casts(add.e['args'][2])
    isneg1 = (dec.get('k') == 'un' and dec['op'] == '-' and dec['e'].get('k') == 'int' and dec['e']['v'] == 1) or (dec.get('k') == 'int' and dec['v'] == -1)
    R.check(isneg1, 'dispatchLoop: decrement', 'Add(counter, counter, -1)', 'counter changes by %s per iteration' % show(dec), W(m, dl, add.e))
    # private name
    co = m.origin(dl, cvar)
    okname = False
    lits = []
    uses_loops = False
    if is_call(co, 'FunctionGenState::fetchVariableRegister'):
        nm = m.origin(dl, co['args'][0])
        for x in walk_expr(nm):
            if x.get('k') == 'str':
                lits.append(x['v'])
            if x.get('k') == 'member' and x['name'] == 'loops':
                uses_loops = True
        import re
        okname = any(re.search(r'[^A-Za-z0-9_]', s) for s in lits)
    R.check(is_call(co, 'FunctionGenState::fetchVariableRegister') and okname, 'dispatchLoop: unnameable counter',
            'variable name contains a character no identifier can contain (%s)' % [s for s in lits][:2],
            'the counter register is %s: a user variable could alias it' % show(co), W(m, dl, co if co else dl))
    incs = [ev for ev in g.events if ev.e.get('k') == 'un' and ev.e['op'] == '++' and field_chain(ev.e['e'])[1][-1:] == ['loops']]
    R.check(uses_loops and len(incs) == 1 and g.on_all_paths(incs[0]) and g.dominates(incs[0], body), 'dispatchLoop: unique counter',
            'name includes gs.loops, which is incremented once per lowering before the body (and thus before any nested loop) is lowered',
            'counter name is not unique per loop: %s' % ('gs.loops is incremented only after the body was lowered, so a nested loop on the same line gets the same counter register'
                                                        if uses_loops and len(incs) == 1 and not g.dominates(incs[0], body) else 'nested loops would share it'), W(m, dl))
    # ... and the number only ever grows: no other function writes it
    for f2 in m.all_fns():
        for x in walk_all_exprs(f2['body']):
            tgt = None
            if x.get('k') == 'assign':
                tgt = x['l']
            elif x.get('k') == 'un' and x['op'] in ('--',):
                tgt = x['e']
            elif x.get('k') == 'un' and x['op'] == '++' and f2['q'] != 'dispatchLoop':
                tgt = x['e']
            if tgt is not None and field_chain(tgt)[1][-1:] == ['loops']:
                R.violation('%s: %s' % (f2['q'], show(x)[:40]), 'the loop number that makes counter names unique is written outside its one increment in dispatchLoop (%s): two loops can get the '
                            'same number, and with equal file and line (a macro body used inside itself) they share their counter register' % show(x)[:40], W(m, f2, x),
                            witness={'input': 'a multi-line macro containing LOOP, used nested inside its own body slot'})
    # order
    sl = g.calls_to('GenState::setLabel')
    start_l = strip_casts(jm.e['args'][0])
    end_l = strip_casts(jc.e['args'][0])
    set_start = [ev for ev in sl if m.same_var(ev.e['args'][0], start_l, dl)]
    set_end = [ev for ev in sl if m.same_var(ev.e['args'][0], end_l, dl)]
    if len(set_start) != 1 or len(set_end) != 1:
        R.violation('dispatchLoop: labels', 'back-jump/exit labels are not each set once', W(m, dl))
        return
    steps = [('bound -> counter', dv), ('head label', set_start[0]), ('JmpC(end, counter)', enclosing_emit(m, g, jc)),
             ('body', body), ('decrement', enclosing_emit(m, g, add)), ('Jmp(head)', enclosing_emit(m, g, jm)), ('end label', set_end[0])]
    chain_check(R, m, dl, g, steps, 'dispatchLoop')
    # the bound expression is the loop node's left child, the body its right child
    lb = field_chain(dv.e['args'][1])
    bb = field_chain(body.e['args'][1])
    R.check(lb[1] == ['left'] and bb[1] == ['right'], 'dispatchLoop: operands', 'bound = node->left, body = node->right',
            'bound/body children swapped or wrong', W(m, dl, dv.e))


# ============================================================================= C07
def c07(rep, tier):
    m = GenModel()
    rep.note_facts(m.facts)
    me = m.may_emit()
    A = rep.rule('C07.a', 'breakpoint() is reached only through advanceLine after the location was updated; both dispatchers '
                          'advance the line before emitting anything', floor=4)
    for (f, call) in callers_of(m, 'GenState::breakpoint'):
        A.check(f['q'] == 'GenState::advanceLine', '%s calls breakpoint()' % f['q'], 'only advanceLine creates sites',
                'a site is created without moving the current location', W(m, f, call))
    al = m.fn('GenState::advanceLine')
    ga = m.cfg(al)
    for ev in ga.calls_to('GenState::breakpoint'):
        asg = [x for x in ga.events if x.e.get('k') == 'assign' and field_chain(x.e['l'])[1][-2:] == ['fs', 'line'] and ga.dominates(x, ev)]
        A.check(bool(asg), 'advanceLine: fs.line set before breakpoint()', 'location updated first', 'breakpoint() uses a stale line', W(m, al, ev.e))
    for q in ('dispatchVoid', 'dispatchValue'):
        f = m.fn(q)
        rep.analysed(f)
        g = m.cfg(f)
        adv = g.calls_to('GenState::advanceLine')
        em = [ev for ev in m.emission_events(f) if ev not in adv]
        ok = len(adv) == 1 and all(g.dominates(adv[0], ev) for ev in em)
        A.check(ok, '%s: advanceLine first' % q, 'advanceLine dominates the %d emitting calls' % len(em),
                'an emission can precede advanceLine: the statement would be attributed to the previous line', W(m, f))
    B = rep.rule('C07.b', 'the hidden standard-macro file never produces a stop', floor=3)
    hidden_file_rule(B, m, rep)
    Cm = rep.rule('C07.c', 'a label resolves to the breakpoint site of its line when one was just emitted', floor=2)
    dm = m.fn('dispatchMark')
    sets = m.cfg(dm).calls_to('GenState::setLabel')
    Cm.check(len(sets) == 1 and is_call(strip_casts(sets[0].e['args'][1]), 'GenState::getMarkPos'), 'dispatchMark: position', 'getMarkPos()',
             'the mark is set to %s: a jump to it skips the stop on its line' % (show(sets[0].e['args'][1]) if sets else None), W(m, dm))
    gm = m.fn('GenState::getMarkPos')
    # summary: if the last instruction is a POTENTIAL_BREAK -> getNextPos() - 1, else getNextPos(); evaluated for both cases
    class _Unk(Exception):
        pass

    def mp_eval(assume):
        env = {}

        def cond(c):
            c = strip_casts(c)
            k = c.get('k')
            if k == 'paren':
                return cond(c['e'])
            if k == 'bool':
                return bool(c['v'])
            if k == 'ref' and c.get('d') in env:
                return env[c['d']]
            if k == 'un' and c['op'] == '!':
                return not cond(c['e'])
            if k == 'bin' and c['op'] in ('&&', '||'):
                return (cond(c['l']) and cond(c['r'])) if c['op'] == '&&' else (cond(c['l']) or cond(c['r']))
            if k == 'bin' and c['op'] in ('==', '!=') and 'POTENTIAL_BREAK' in show(c) and \
                    any(is_call(x, '::back') and field_chain(x['obj'])[1][-1:] == ['code'] for x in walk_expr(c)):
                return assume == (c['op'] == '==')
            if k == 'bin' and c['op'] in ('==', '!=') and any(is_call(x, '::back') and field_chain(x['obj'])[1][-1:] == ['code'] for x in walk_expr(c)) and \
                    any(x.get('k') == 'ref' and x.get('dk') == 'enumerator' for x in walk_expr(c)) and assume:
                # the last instruction IS a POTENTIAL_BREAK: a test for another opcode is false
                return c['op'] == '!='
            raise _Unk(show(c))

        def val(e):
            e = strip_casts(e)
            k = e.get('k')
            if k == 'paren':
                return val(e['e'])
            if k == 'int':
                return (0, e['v'])
            if k == 'bool':
                return (0, int(bool(e['v'])))
            if is_call(e, 'GenState::getNextPos'):
                return (1, 0)
            if k == 'ref' and e.get('d') in env:
                v = env[e['d']]
                return (0, int(v)) if isinstance(v, bool) else v
            if k == 'cond':
                return val(e['t']) if cond(e['c']) else val(e['e'])
            if k == 'bin' and e['op'] in ('+', '-'):
                a1, b1 = val(e['l']), val(e['r'])
                sg = 1 if e['op'] == '+' else -1
                return (a1[0] + sg * b1[0], a1[1] + sg * b1[1])
            if k == 'bin' and e['op'] in ('==', '!=', '&&', '||'):
                return (0, int(cond(e)))
            raise _Unk(show(e))

        def run(st):
            k = st['k']
            if k == 'block':
                for c in st['s']:
                    r = run(c)
                    if r is not None:
                        return r
                return None
            if k == 'decl':
                for v in st['vars']:
                    if v.get('init') is not None:
                        try:
                            env[v['d']] = cond(v['init']) if (v.get('cty') or '').replace('const ', '') == 'bool' else val(v['init'])
                        except _Unk:
                            pass
                return None
            if k == 'if':
                return run(st['t']) if cond(st['c']) else (run(st['e']) if st.get('e') else None)
            if k == 'return':
                return val(st['e'])
            if k in ('expr', 'empty'):
                return None
            raise _Unk(k)
        return run(gm['body'])
    okmp = None
    try:
        okmp = mp_eval(True) == (1, -1)
        if okmp:
            okmp = mp_eval(False) == (1, 0)
    except _Unk as ex:
        Cm.unknown('getMarkPos: summary', 'cannot evaluate getMarkPos (%s)' % ex)
    if okmp is not None:
      Cm.check(okmp, 'getMarkPos: summary', 'index of the last instruction if it is a POTENTIAL_BREAK, else the next index',
             'getMarkPos no longer resolves to the site just emitted', W(m, gm))
    D = rep.rule('C07.d', 'the site emitted for a PROGRAM header is removed before the routine is lowered', floor=1)
    dvd = m.fn('dispatchVoid')
    g = m.cfg(dvd)
    rm = g.calls_to('GenState::removeTopPotBreak')
    dpc = g.calls_to('dispatchProgram')
    adv = g.calls_to('GenState::advanceLine')
    if len(dpc) == 1:
        ok = len(rm) >= 1 and any(g.dominates(r, dpc[0]) and g.dominates(adv[0], r) and
                                  not [x for x in m.emission_events(dvd) if g.can_follow(r, x) and g.can_follow(x, dpc[0]) and x is not dpc[0] and x is not r]
                                  for r in rm) if adv else False
        if not ok:
            # maybe inside dispatchProgram before its first emission
            dp = m.fn('dispatchProgram')
            g2 = m.cfg(dp)
            rm2 = g2.calls_to('GenState::removeTopPotBreak')
            em2 = [x for x in m.emission_events(dp)]
            ok = len(rm2) >= 1 and all(g2.dominates(rm2[0], x) for x in em2 if x is not rm2[0])
        D.check(ok, 'PROGRAM: header site removed', 'removeTopPotBreak after the header\'s advanceLine, before the first emission of the routine',
                'the PROGRAM header keeps a breakpoint site: stepping would stop on definitions', W(m, dvd, dpc[0].e))
    else:
        D.unknown('dispatchVoid', 'dispatchProgram call not unique')
    # ... and nowhere else: every other site stands for a line the stepper has to visit
    poppers_q = set()
    for f in m.all_fns():
        for e in walk_all_exprs(f['body']):
            if is_call(e, '::pop_back') and e.get('obj') is not None and field_chain(e['obj'])[1][-1:] == ['code']:
                poppers_q.add(f['q'])
    for f in m.all_fns():
        gg = None
        for e in walk_all_exprs(f['body']):
            if e.get('k') == 'call' and m.callee(e) in poppers_q:
                gg = gg or m.cfg(f)
                allowed = False
                if f['q'] == 'dispatchVoid':
                    allowed = any(isinstance(label, tuple) and label[0] == 'case' and 'PROGRAM' in label[1] for cond, label, cn in gg.guards_of(gg.ev(e)))
                elif f['q'] == 'dispatchProgram':
                    ev0 = gg.ev(e)
                    allowed = all(gg.dominates(ev0, x) for x in m.emission_events(f) if x is not ev0)
                D.check(allowed, '%s: %s' % (f['q'], show(e)[:40]), 'site removal for a PROGRAM header only',
                        'a breakpoint site is removed outside the handling of a PROGRAM header: a line that emits no code of its own (the END of a loop followed by the END '
                        'of its program, a label on its own line) loses its stop, and a jump to such a label stops on the next line', W(m, f, e),
                        witness={'input': 'PROGRAM f IN a DO\n LOOP a DO\n  x0 := x0 + 1\n END\nEND'})
    G7 = rep.rule('C07.g', 'advanceLine creates a site exactly when generation moves to another line or another file (except the hidden file), '
                           'after updating the current location to it', floor=3)
    advance_line_semantics(G7, m, rep)
    K7 = rep.rule('C07.k', 'labels of loop constructs are set at the next emission position (a back edge does not re-enter through the header\'s site); only a user '
                           'mark is set at the mark position, in front of its own site', floor=3)
    for f in m.all_fns():
        for e in walk_all_exprs(f['body']):
            if is_call(e, 'GenState::setLabel') and len(e.get('args', [])) == 2:
                pos = strip_casts(m.origin(f, e['args'][1]))
                inst = '%s: setLabel(%s, ...)' % (f['q'], show(e['args'][0])[:30])
                if f['q'] == 'dispatchMark' or 'mark' in f['q'].lower():
                    K7.check(is_call(pos, 'GenState::getMarkPos'), inst, 'a mark is set at getMarkPos(): a jump to it passes the site of the mark\'s line',
                             'the mark is set at %s: a jump to the label does not stop on the label\'s line' % show(pos), W(m, f, e))
                elif is_call(pos, 'GenState::getNextPos'):
                    K7.ok(inst, 'set at getNextPos()', W(m, f, e))
                elif is_call(pos, 'GenState::getMarkPos'):
                    K7.violation(inst, 'a loop label is set at getMarkPos(), i.e. in front of the pending line site: every jump back to it passes that site again, so the header line '
                                 '(or the line before the loop exit) is visited once per iteration instead of once', W(m, f, e))
                else:
                    K7.unknown(inst, 'label position %s not recognised' % show(pos))
    H7 = rep.rule('C07.h', 'the variable view reports every entry of the activation\'s stack map with the word at data_start + register', floor=1)
    variable_view_rule(H7, rep)
    E = rep.rule('C07.e', 'END keywords of LOOP, WHILE and PROGRAM are kept as marks so that their line gets a site', floor=3)
    pf = Facts(['Compiler/src/parse.cpp'])
    rep.note_facts(pf)
    pm = GenModel.__new__(GenModel)
    pm.facts, pm._defs, pm._cfg = pf, {}, {}
    found = {}
    for f in pf.functions_in('parse.cpp'):
        for e in walk_all_exprs(f['body']):
            if is_call(e, 'AST::mk') and 'MARK' in show(e['args'][0]):
                child = strip_casts(e['args'][4])
                o = pm.origin(f, child) if child.get('k') == 'ref' else child
                # the END variable may be reassigned (end = mk(MARK, ... end ...)): look at all defs
                srcs = []
                if child.get('k') == 'ref':
                    for kind, rhs, _ in pm.defs(f).get(child['d'], []):
                        srcs.append(strip_casts(rhs))
                isend = any(is_call(s, 'ParseState::matchmk') and 'END' in show(s['args'][0]) for s in srcs)
                linesrc = field_chain(e['args'][1])
                if isend and linesrc[1] == ['line'] and pm.same_var(linesrc[0], child):
                    # which construct? nearest enclosing switch case label
                    found.setdefault(f['q'], []).append(e)
    n_end = sum(len(v) for v in found.values())
    # which constructs have their END kept?  a construct's function either builds the mark itself or calls a helper that does
    helpers_with_mark = set(q for q in found if q not in ('P', 'S'))
    uncond = {}
    for hq in helpers_with_mark:
        hf = [x for x in pf.functions_in('parse.cpp') if x['q'] == hq][0]
        hg = pm.cfg(hf)
        uncond[hq] = all(hg.on_all_paths(hg.ev(e)) for e in found[hq])

    def helper_calls(q):
        fn_ = [x for x in pf.functions_in('parse.cpp') if x['q'] == q]
        return [e for e in walk_all_exprs(fn_[0]['body']) if e.get('k') == 'call' and e.get('callee') in helpers_with_mark] if fn_ else []
    via_helpers = 0
    for q, n in (('P', 2), ('S', 1)):
        own = len(found.get(q, []))
        hc = helper_calls(q)
        through = sum(len(found[e['callee']]) for e in hc if uncond.get(e['callee']))
        via_helpers += through
        have = own + through
        if have >= n:
            E.ok('%s: END marks' % q, '%d MARK node(s) built from the END token with its own line (%d of them in helpers that build it on every path)' % (have, through), 'Compiler/src/parse.cpp')
        elif any(not uncond.get(e['callee']) for e in hc):
            E.unknown('%s: END marks' % q, 'the END mark is built conditionally in a helper (%s); cannot attribute it to the constructs of %s' % (sorted(helpers_with_mark), q))
        else:
            E.violation('%s: END marks' % q, 'only %d of %d END marks are built in %s: the END line gets no site' % (have, n, q), 'Compiler/src/parse.cpp')
    n_end = sum(len(found.get(q, [])) for q in ('P', 'S')) + via_helpers
    if n_end >= 3:
        E.ok('END marks total', '%d' % n_end, 'Compiler/src/parse.cpp')
    elif helpers_with_mark:
        E.unknown('END marks total', '%d END mark construction(s), some inside helpers shared by several constructs' % n_end)
    else:
        E.violation('END marks total', 'expected 3 END marks (LOOP, WHILE, PROGRAM), found %d' % n_end, 'Compiler/src/parse.cpp')
    F = rep.rule('C07.f', 'the stack map lists every non-temporary register by name; only variable allocation produces them', floor=3)
    pop = m.fn('GenState::popSymbols')
    okmap = False
    seen_loop = False
    from .genrules import unconditional_callees
    # the map may be built in a helper popSymbols always calls (makeStackMap(fgs)) or in an argument expression of it
    cand_fns = unconditional_callees(m, pop)
    for x in walk_all_exprs(pop['body']):
        if x.get('k') == 'call' and x.get('callee_in_repo'):
            hs = [y for y in m.all_fns() if y['q'] == x.get('callee') and y.get('body') is not None]
            if len(hs) == 1 and hs[0] not in cand_fns and 'StackMap' in (hs[0].get('ret') or ''):
                cand_fns.append(hs[0])
    for st in [y for fb in cand_fns for y in walk_stmts(fb['body'])]:
        if st['k'] == 'for':
            bound = show(st['c'])
            seen_loop = seen_loop or ('register_state' in bound and 'size' in bound)
            if 'register_state' in bound and 'size' in bound:
                ifs = [s2 for s2 in walk_stmts(st['body']) if s2['k'] == 'if']
                for i2 in ifs:
                    c = strip_casts(i2['c'])
                    neg = c.get('k') == 'un' and c['op'] == '!' and field_chain(c['e'])[1][-1:] == ['is_temp']
                    asg = [x for x in walk_all_exprs(i2['t']) if (x.get('k') == 'call' and m.callee(x).endswith('::operator=')) or x.get('k') == 'assign']
                    # (register indices are distinct keys: emplace / insert / insert_or_assign of (i, name) into the fresh map is the same as map[i] = name)
                    asg += [x for x in walk_all_exprs(i2['t']) if x.get('k') == 'call' and x.get('obj') is not None and
                            m.callee(x).split('::')[-1] in ('emplace', 'insert', 'try_emplace', 'insert_or_assign') and len(x.get('args', [])) >= 1]
                    tomap = [x for x in asg if 'map' in show(x.get('obj') or x.get('l')) and 'name' in show(x)]
                    if neg and tomap and i2.get('e') is None:
                        okmap = True
    if not okmap:
        # the same walk written as a range-for with a running index: for (r : register_state) { if (!r.is_temp) map[i] = r.name; i++; }
        for fb in cand_fns:
            for st in walk_stmts(fb['body']):
                if st['k'] != 'rangefor' or 'register_state' not in show(st['range']):
                    continue
                seen_loop = True
                rv = st['var']
                top = st['body']['s'] if st['body'] and st['body']['k'] == 'block' else [st['body']]
                incs = [s2 for s2 in top if s2['k'] == 'expr' and strip_casts(s2['e']).get('k') == 'un' and strip_casts(s2['e'])['op'] == '++']
                ifs = [s2 for s2 in top if s2['k'] == 'if']
                if len(incs) != 1 or len(ifs) != 1 or top.index(ifs[0]) > top.index(incs[0]):
                    continue
                cnt = strip_casts(strip_casts(incs[0]['e'])['e'])
                cdecl = [v for s2 in walk_stmts(fb['body']) if s2['k'] == 'decl' for v in s2['vars'] if v['d'] == cnt.get('d')]
                starts0 = bool(cdecl) and cdecl[0].get('init') is not None and strip_casts(cdecl[0]['init']).get('v') == 0
                others = [x for x in walk_all_exprs(fb['body']) if ((x.get('k') == 'assign' and strip_casts(x['l']).get('d') == cnt.get('d')) or
                                                                   (x.get('k') == 'un' and x['op'] in ('++', '--') and strip_casts(x['e']).get('d') == cnt.get('d'))) and x is not strip_casts(incs[0]['e'])]
                c = strip_casts(ifs[0]['c'])
                neg = c.get('k') == 'un' and c['op'] == '!' and field_chain(c['e'])[1][-1:] == ['is_temp'] and strip_casts(field_chain(c['e'])[0]).get('d') == rv['d']
                asg = [x for x in walk_all_exprs(ifs[0]['t']) if (x.get('k') == 'call' and m.callee(x).endswith('::operator=')) or x.get('k') == 'assign']
                tomap = []
                for x in asg:
                    tgt = strip_casts(x.get('obj') or x.get('l'))
                    val = (x.get('args') or [x.get('r')])[0]
                    if is_call(tgt, '::operator[]') and 'map' in show(tgt['obj']) and strip_casts(tgt['args'][0]).get('d') == cnt.get('d') and \
                            field_chain(val)[1][-1:] == ['name'] and strip_casts(field_chain(val)[0]).get('d') == rv['d']:
                        tomap.append(x)
                if neg and tomap and ifs[0].get('e') is None and starts0 and not others and not any(s2['k'] in ('continue', 'break') for s2 in walk_stmts(st['body'])):
                    okmap = True
    if not okmap and not seen_loop:
        F.unknown('popSymbols: stack map', 'the loop over the register table that builds the stack map was not found')
    else:
        F.check(okmap, 'popSymbols: stack map', 'every register with !is_temp is mapped to its name', 'stack map construction filtered differently', W(m, pop))
    for f in m.all_fns():
        for e in walk_all_exprs(f['body']):
            if is_call(e, '::push_back') and e.get('obj') is not None and field_chain(e['obj'])[1][-1:] == ['register_state']:
                init = strip_casts(e['args'][0])
                init = strip_copies(init)
                if init.get('k') == 'construct':
                    from .genrules import as_record_init
                    init = as_record_init(m.facts, init) or init       # VReg(in_use, is_temp, name) with a constructor that stores its arguments
                flds = dict((a_, b_) for a_, b_ in init['fields']) if init.get('k') == 'init' else {}
                istemp = strip_casts(flds.get('is_temp')) if flds else None
                if istemp is None or istemp.get('k') != 'bool':
                    F.unknown('%s: register_state.push_back' % f['q'], 'is_temp not a literal')
                    continue
                if istemp['v']:
                    F.check(f['q'] == 'FunctionGenState::fetchTemporary', '%s: temporary register' % f['q'], 'temporaries come from fetchTemporary', 'temporary created elsewhere', W(m, f, e))
                else:
                    F.check(f['q'] in ('FunctionGenState::fetchVariableRegister', 'dispatchArgs'), '%s: variable register' % f['q'],
                            'named registers come from variable/parameter allocation', 'a named register is created in %s' % f['q'], W(m, f, e))


# ============================================================================= C20 (compiler side)
CONV = ('strtol', 'std::strtol', 'strtoll', 'std::strtoll', 'std::stoi', 'std::stol', 'atoi', 'std::atoi', 'strtoul', 'std::strtoul', 'std::stoul', 'atol', 'std::stoll')


def conversion_wrappers(facts, units_suffix):
    """in-repo functions that just return the result of a text-to-integer conversion (possibly through another wrapper)"""
    wr = {}
    changed = True
    fns = [f for f in facts.functions if any(f['file'].endswith(s) for s in units_suffix) and f['tmpl'] in ('none', 'inst')]
    while changed:
        changed = False
        for f in fns:
            key = (f['q'], f['file'])
            if key in wr:
                continue
            rets = [st for st in walk_stmts(f['body']) if st['k'] == 'return' and st.get('e') is not None]
            stmts = [st for st in walk_stmts(f['body']) if st['k'] not in ('block', 'return')]
            if len(rets) == 1 and not stmts:
                r = strip_casts(rets[0]['e'])
                if r.get('k') == 'call' and ((r.get('callee') or '') in CONV or (r.get('callee'), f['file']) in wr):
                    wr[key] = True
                    changed = True
    return wr


def conversion_sites(facts, units_suffix):
    out = []
    wr = conversion_wrappers(facts, units_suffix)
    for f in facts.functions:
        if not any(f['file'].endswith(s) for s in units_suffix) or f['tmpl'] not in ('none', 'inst'):
            continue
        if (f['q'], f['file']) in wr:
            continue
        for e in walk_all_exprs(f['body']):
            if e.get('k') == 'call' and ((e.get('callee') or '') in CONV or (e.get('callee'), f['file']) in wr):
                out.append((f, e))
    return out


def const_int(e, facts=None, f=None, gm=None):
    e = strip_casts(e)
    if e is None:
        return None
    if e.get('k') == 'ref' and e.get('dk') == 'global' and facts is not None:
        g = facts.globals.get(e.get('q'))
        return g.get('const_value') if g else None
    if e.get('k') == 'ref' and e.get('dk') == 'var' and gm is not None and f is not None:
        o = gm.origin(f, e)
        if o is not None and o is not e and o.get('k') != 'ref':
            return const_int(o, facts, f, gm)
    if e.get('k') == 'int':
        return e['v']
    if e.get('k') == 'un' and e['op'] == '-':
        v = const_int(e['e'], facts, f, gm)
        return -v if v is not None else None
    if e.get('k') == 'bin' and e['op'] in ('+', '-'):
        a, b = const_int(e['l'], facts, f, gm), const_int(e['r'], facts, f, gm)
        if a is None or b is None:
            return None
        return a + b if e['op'] == '+' else a - b
    if e.get('k') == 'call' and (e.get('callee') or '') == 'std::numeric_limits<int>::max':
        return 2147483647
    return None


def checked_conversion(gm, f, call):
    """the converted value flows into `v >= INT_MAX`-style test whose true branch records an error"""
    g = gm.cfg(f)
    # variable receiving the result
    var = None
    for d, ds in gm.defs(f).items():
        for kind, rhs, decl in ds:
            if rhs is not None and any(x is call for x in walk_expr(rhs)):
                var = d
    if var is None:
        return False, 'result not stored'
    # the range test must see the whole converted value: storing strtol's long in an int wraps values >= 2^31 before the test
    vdecl = [v for st in walk_stmts(f['body']) if st['k'] == 'decl' for v in st['vars'] if v['d'] == var]
    if vdecl:
        vt = (vdecl[0].get('cty') or '').replace('const ', '')
        rt = (call.get('cty') or '').replace('const ', '')
        wide = {'long': 2, 'long long': 2, 'unsigned long': 2, 'unsigned long long': 2, 'int': 1, 'unsigned int': 1, 'short': 0, 'char': 0, 'unsigned char': 0, 'unsigned short': 0}
        if vt in wide and rt in wide and wide[vt] == wide[rt] and rt.startswith('unsigned') and not vt.startswith('unsigned'):
            return False, ('%s yields an %s, which is stored in a variable of type %s before the range test: values of half the unsigned range and more (a literal of 19 or 20 digits) '
                           'become negative and pass the test' % ((call.get('callee') or '?').split('::')[-1], rt, vt))
        if vt in wide and rt in wide and wide[vt] < wide[rt]:
            return False, 'the result of %s (%s) is stored in a variable of type %s before the range test: values of 2^31 and more wrap around and pass the test' % (
                (call.get('callee') or '?').split('::')[-1], rt, vt)
    for cn in g.nodes:
        if cn.kind == 'cond' and cn.exprs:
            c = strip_casts(cn.exprs[0])
            if c.get('k') == 'bin' and c['op'] in ('>=', '>'):
                l, r = strip_casts(c['l']), strip_casts(c['r'])
                lim = const_int(r, gm.facts, f, gm)
                if l.get('k') == 'ref' and l.get('d') == var and lim is None:
                    return None, 'the converted value is compared with %s, whose value is not known to the checker' % show(r)
                if l.get('k') == 'ref' and l.get('d') == var and lim is not None:
                    bound_ok = (c['op'] == '>=' and lim <= 2147483647) or (c['op'] == '>' and lim <= 2147483646)
                    # true branch records an error
                    err = False
                    for b in cn.succ:
                        if b.kind == 'branch' and b.label is True:
                            for ev in g.calls():
                                if b.id in g.dom[ev.node.id] and (gm.callee(ev.e) in ('GenState::err', 'GenState::verr') or
                                                                 (gm.callee(ev.e).endswith('::push_back') and 'error' in show(ev.e['obj']).lower())):
                                    err = True
                                    # ... into the caller's state, not into a private copy of it
                                    tgt_root = field_chain(ev.e['obj'])[0] if ev.e.get('obj') is not None else None
                                    tgt_root = strip_casts(tgt_root) if tgt_root is not None else None
                                    if tgt_root is not None and tgt_root.get('k') == 'ref' and tgt_root.get('dk') == 'param':
                                        pd = [p for p in f['params'] if p['d'] == tgt_root.get('d')]
                                        if pd and '&' not in (pd[0].get('cty') or '') and '*' not in (pd[0].get('cty') or ''):
                                            return False, ('the range error is recorded in %s, a by-value copy of the caller\'s state that is destroyed on return: the error is lost and '
                                                           'the out-of-range literal is accepted' % pd[0]['name'])
                    if bound_ok and err:
                        return True, 'tested %s %s %d, error recorded' % (l['name'], c['op'], lim)
                    if not bound_ok:
                        return False, 'range test %s lets values >= 2^31-1 through' % show(c)
    return False, 'no range test on the converted value'


def c20_gen(rep, tier):
    facts = Facts(['Compiler/src/gen.cpp', 'Compiler/src/macro.cpp'] + (['Compiler/src/parse.cpp', 'Compiler/src/scan.cpp'] if tier == 'thorough' else []))
    rep.note_facts(facts)
    gm = GenModel(facts=Facts(['Compiler/src/gen.cpp']))
    mm = GenModel.__new__(GenModel)
    mm.facts = facts
    mm._defs, mm._cfg = {}, {}
    mm.fns = {f['sig']: f for f in facts.functions}
    A2 = rep.rule('C20.A2', 'every text-to-integer conversion in the compiler is range-checked (>= INT_MAX records an error) or is a '
                            'tabled re-read of an already checked token', floor=4)
    sites = conversion_sites(facts, ('gen.cpp', 'macro.cpp', 'parse.cpp', 'scan.cpp'))
    checked_fns = set()
    silent_fns = set()
    for f, call in sites:
        model = mm
        inst = '%s(%s): %s' % (f['q'], os.path.basename(f['file']), show(call)[:60])
        if (call.get('callee') or '') in ('std::stoi', 'std::stol', 'std::stoll', 'std::stoul', 'std::stoull'):
            # these report a value outside their result type by throwing std::out_of_range (and std::invalid_argument): a range
            # test after the call never sees such a value, and nothing in the compiler catches the exception
            has_try = any(x['k'] == 'try' for x in walk_stmts(f['body']))
            if not has_try:
                A2.violation(inst, '%s throws std::out_of_range for a literal beyond the range of its result type: the range test that follows is never reached and the '
                             'exception leaves compile()' % call['callee'], '%s:%d' % (os.path.relpath(f['file'], facts.repo), call['loc'][0]),
                             witness={'input': 'a literal of 20 or more digits (priority, $n or number)'})
                continue
        ok, why = checked_conversion(model, f, call)
        if ok is None:
            A2.unknown(inst, why, '%s:%d' % (os.path.relpath(f['file'], facts.repo), call['loc'][0]))
            continue
        if ok:
            checked_fns.add((f['q'], f['file']))
            A2.ok(inst, why, '%s:%d' % (os.path.relpath(f['file'], facts.repo), call['loc'][0]))
        else:
            silent_fns.add((f['q'], f['file']))
            # tabled exception: exactly one call site whose argument was converted by the checked sibling before
            users = [(g2, c2) for g2 in facts.functions for c2 in walk_all_exprs(g2['body'])
                     if c2.get('k') == 'call' and c2.get('callee') == f['q'] and g2['file'] == f['file']]
            exc = silent_exception(facts, mm, f, users)
            if not exc[0] and (call.get('callee') or '') not in CONV:
                # the conversion sits behind a returning wrapper: this call is then itself the (one) use to justify
                exc2 = silent_exception(facts, mm, f, [(f, call)])
                if exc2[0]:
                    exc = exc2
                    silent_fns.add((call['callee'], f['file']))
            if exc[0]:
                A2.ok(inst, 'silent conversion, accepted: ' + exc[1], '%s:%d' % (os.path.relpath(f['file'], facts.repo), call['loc'][0]))
            else:
                A2.violation(inst, 'unchecked conversion (%s); %s' % (why, exc[1]), '%s:%d' % (os.path.relpath(f['file'], facts.repo), call['loc'][0]))
    A3 = rep.rule('C20.A3', 'constants handed to Add / LoadConstant are literals, checked conversions, or their negation', floor=5)
    g = gm
    # ... and the operand type of the instruction holds every range-checked value (the check is against INT_MAX)
    WIDTH_ = {'long': 8, 'long long': 8, 'unsigned long': 8, 'unsigned long long': 8, 'int': 4, 'unsigned int': 4, 'short': 2, 'unsigned short': 2,
              'char': 1, 'signed char': 1, 'unsigned char': 1, 'bool': 1}
    td = gm.facts.typedefs.get('Theo::Constant')
    if td is not None:
        ct = (td.get('cty') or '').replace('const ', '')
        A3.check(ct in WIDTH_ and WIDTH_[ct] >= 4 and not ct.startswith('unsigned'), 'instruction operand type Constant', 'Constant is %s: every literal below 2^31-1 and its negation fits' % ct,
                 'Constant is %s, but literals are range-checked against INT_MAX only: a constant of %d or more is silently truncated when the instruction is built '
                 '(a := 40000 stores another value; x - 100000 adds)' % (ct, 2 ** (8 * WIDTH_.get(ct, 4) - 1)), 'VM/include/instr.hpp',
                 witness={'input': 'a := 40000'} if ct in WIDTH_ and WIDTH_[ct] < 4 else None)
    for f in g.all_fns():
        for e in walk_all_exprs(f['body']):
            if e.get('k') == 'call' and (g.is_factory(e, 'Add') or g.is_factory(e, 'LoadConstant')):
                idx = [i for i, t in enumerate(e['pty']) if 'Constant' in t]
                for i in idx:
                  leaves = [strip_casts(e['args'][i])]
                  top = g.origin(f, leaves[0])
                  if top is not None and strip_casts(top).get('k') == 'cond':
                      leaves = [strip_casts(strip_casts(top)['t']), strip_casts(strip_casts(top)['e'])]
                  for a in leaves:
                    neg = False
                    if a.get('k') == 'un' and a['op'] == '-':
                        neg = True
                        a = strip_casts(a['e'])
                    o = g.origin(f, a)
                    inst = '%s: %s const %s' % (f['q'], g.callee(e).split('::')[-1], show(a) if len(leaves) > 1 else show(e['args'][i]))
                    if o.get('k') == 'int':
                        v = -o['v'] if neg else o['v']
                        A3.check(-2147483646 <= v <= 2147483646, inst, 'literal %d' % v, 'literal out of range', W(g, f, e))
                    elif o.get('k') == 'call' and (o.get('callee'), f['file']) in checked_fns:
                        A3.ok(inst, '%sresult of the checked conversion %s (in [0, 2^31-2] when no error)' % ('negated ' if neg else '', o['callee']), W(g, f, e))
                    elif o.get('k') == 'call' and (o.get('callee'), f['file']) in silent_fns:
                        A3.ok(inst, '%ssilent re-read %s of a token already range-checked on this path (C20.A2 exception)' % ('negated ' if neg else '', o['callee']), W(g, f, e))
                    else:
                        A3.violation(inst, 'constant %s is neither a literal nor a checked conversion' % show(o), W(g, f, e))
    # negating a converted literal must not overflow: the conversion's result range has to exclude INT_MIN.  The generator goes on
    # after recording a range error, so "an error was recorded" does not bound the value.
    from .symex import Symex, type_range
    conv_ranges = {}
    for f in g.all_fns():
        wrs = conversion_wrappers(g.facts, ('gen.cpp',))
        if f['ret_c'] == 'int' and any(e.get('k') == 'call' and ((e.get('callee') or '') in CONV or (e.get('callee'), f['file']) in wrs) for e in walk_all_exprs(f['body'])):
            sx = Symex(g.facts)
            sx.extern_ranges = {c: (0, 2 ** 63 - 1) for c in CONV}     # INT tokens are digit strings (C14): the text converts to a non-negative value
            try:
                ps = sx.run(f)
                ivs = [sx.coerce(p.ret, 'int', f['body']).iv for p in ps if p.ret is not None]
                conv_ranges[f['q']] = (min(i[0] for i in ivs), max(i[1] for i in ivs)) if ivs and all(ivs) else None
            except AnalysisBroken:
                conv_ranges[f['q']] = None
    for f in g.all_fns():
        for e in walk_all_exprs(f['body']):
            if e.get('k') == 'un' and e['op'] == '-' and (e.get('cty') == 'int'):
                o = g.origin(f, e['e'])
                if o is not None and o.get('k') == 'call' and o.get('callee') in conv_ranges:
                    rng = conv_ranges[o['callee']]
                    inst = '%s: -%s' % (f['q'], show(e['e']))
                    if rng is None:
                        A3.unknown(inst, 'cannot bound the result of %s' % o['callee'])
                    else:
                        A3.check(rng[0] > -2147483648, inst, 'operand in [%d, %d]: the negation cannot overflow' % rng,
                                 'the operand comes from %s whose result ranges over [%d, %d] (the generator continues after a range error): negating INT_MIN is undefined behaviour '
                                 'inside compile()' % (o['callee'], rng[0], rng[1]), W(g, f, e), witness={'input': 'x1 := x0 - 2147483648', 'effect': 'UBSan: negation of -2147483648 cannot be represented in type int'})
    A4 = rep.rule('C20.A4', 'macro priorities and insertion indices go through the checked conversion', floor=2)
    for f in facts.functions_in('macro.cpp'):
        for e in walk_all_exprs(f['body']):
            if e.get('k') == 'assign' and field_chain(e['l'])[1][-1:] == ['priority']:
                r = strip_casts(e['r'])
                A4.check(r.get('k') == 'call' and (r.get('callee'), f['file']) in checked_fns, '%s: priority' % f['q'], 'checked conversion',
                         'priority converted by %s' % show(r), 'Compiler/src/macro.cpp:%d' % e['loc'][0])
        # the index of an insertion token ($n): a local initialised from a string-to-int conversion of the token text
        # (in extract_macros at the pinned commit, or in a helper it calls)
        if f['q'] != 'get_replacement':
            for st in walk_stmts(f['body']):
                if st['k'] == 'decl':
                    for v in st['vars']:
                        init = strip_casts(v.get('init'))
                        if init is not None and init.get('k') == 'call' and 'strToInt' in (init.get('callee') or '') and 'substr' in show(init):
                            A4.check((init.get('callee'), f['file']) in checked_fns, '%s: insertion index' % f['q'].split('::')[-1], 'checked conversion',
                                     'insertion index converted by %s' % init.get('callee'), 'Compiler/src/macro.cpp:%d' % v['loc'][0])


def silent_exception(facts, mm, f, users):
    """Re-verifies the two tabled silent conversions structurally."""
    if len(users) != 1:
        return False, 'the silent helper has %d call sites (exception covers exactly one)' % len(users)
    g2, c2 = users[0]
    if f['file'].endswith('gen.cpp'):
        # argument node must have been converted by dispatchCallArgs -> dispatchValue -> strToInt on the same path:
        # the call is dominated by dispatchCallArgs(gs, c->right, arglocs) and guarded by arglocs.size() == 2 && ... NUMBER
        gg = mm.cfg(g2)
        ev = gg.ev(c2)
        dca = [x for x in gg.calls() if (x.e.get('callee') or '') == 'dispatchCallArgs' and gg.dominates(x, ev)]
        guards = gg.guards_of(ev)
        num = any(label is True and 'register_constant_operation' in show(cond) or 'NUMBER' in show(cond) for cond, label, cn in guards)
        if dca and num:
            # ... and dispatchCallArgs converts EVERY argument it hands out: each register it appends to the list was filled by a call of
            # dispatchValue that dominates the append (seed C04k-2 skipped the conversion for the constant operand of the built-in sugar,
            # so the literal was only ever read by the silent conversion)
            for fn_ in [x for x in facts.functions if x['q'] == dca[0].e.get('callee') and x.get('body') is not None and x['file'] == f['file']]:
                gq = mm.cfg(fn_)
                pnames = {p_.get('d') for p_ in fn_['params']}
                dvs = [x for x in gq.calls() if (x.e.get('callee') or '') == 'dispatchValue']
                pbs = [x for x in gq.calls() if (is_call(x.e, '::push_back') or is_call(x.e, '::emplace_back')) and x.e.get('obj') is not None and
                       strip_casts(x.e['obj']).get('d') in pnames]
                if not pbs:
                    return False, 'cannot see where %s appends the argument registers' % fn_['q']
                for pb in pbs:
                    if not any(gq.dominates(dv, pb) for dv in dvs):
                        return False, ('%s appends an argument register (line %d) on a path on which dispatchValue was not called for that argument: a NUMBER operand that is '
                                       'skipped there is never range-checked, the silent re-read in the CALL case then accepts a literal of 2^31-1 or more' % (fn_['q'], pb.e['loc'][0]))
            return True, 'the NUMBER node was converted by strToInt during dispatchCallArgs (on every path that appends an argument register), which dominates this call'
        return False, 'not dominated by dispatchCallArgs + NUMBER-shape guard'
    if f['file'].endswith('macro.cpp'):
        # get_replacement INSERTION index: extract_macros validated every INSERTION token with the checked conversion
        em = [x for x in facts.functions if x['q'] == 'Theo::extract_macros']
        if em:
            bodies = [em[0]['body']]
            # helpers that extract_macros calls (one or two levels) take part in the validation
            seenq = {em[0]['q']}
            frontier = [em[0]]
            for _ in range(2):
                nxt = []
                for fn_ in frontier:
                    for x in walk_all_exprs(fn_['body']):
                        if x.get('k') == 'call' and x.get('callee_in_repo') and x.get('callee') not in seenq:
                            tg = [y for y in facts.functions if y['q'] == x['callee'] and y['file'] == fn_['file'] and y['tmpl'] in ('none', 'inst')]
                            if tg:
                                seenq.add(x['callee'])
                                bodies.append(tg[0]['body'])
                                nxt.append(tg[0])
                frontier = nxt
            ok = any(x.get('k') == 'call' and 'strToInt' in (x.get('callee') or '') and not (x.get('callee') or '').endswith('Silent')
                     for b in bodies for x in walk_all_exprs(b))
            # the re-read yields the very value that was validated: both conversions return the same type, into a variable of the same type
            chk = [x for x in facts.functions if x['file'] == f['file'] and 'strToInt' in x['q'] and not x['q'].endswith('Silent') and x.get('body') is not None]
            sil = [x for x in facts.functions if x['file'] == f['file'] and x['q'] == (c2.get('callee') or '')]
            if chk and sil and (chk[0].get('ret_cty') or chk[0].get('ret')) != (sil[0].get('ret_cty') or sil[0].get('ret')):
                return False, ('the checked conversion %s returns %s but the silent re-read %s returns %s: a $n beyond the narrower type is validated as one index and used as '
                               'another' % (chk[0]['q'], chk[0].get('ret_cty') or chk[0].get('ret'), sil[0]['q'], sil[0].get('ret_cty') or sil[0].get('ret')))
            ins = 'INSERTION' in ' '.join(show(x) for b in bodies for x in walk_all_exprs(b) if x.get('k') == 'bin')
            if ok and ins and g2['q'] == 'get_replacement':
                return True, 'the INSERTION token text was converted and index-checked in extract_macros'
        return False, 'extract_macros no longer validates insertion tokens'
    return False, 'no exception applies'


def advance_line_semantics(R, m, rep):
    from .symex import Symex, Val, t_show, C
    al = m.fn('GenState::advanceLine')
    sx = Symex(m.facts, no_inline=('GenState::breakpoint',))
    sx.no_inline = {'GenState::breakpoint'}
    paths = sx.run(al)
    this = (('this',),)
    fs_name = this + (('f', 'fs'), ('f', 'name'))
    fs_line = this + (('f', 'fs'), ('f', 'line'))
    pl, pf = al['params'][0]['name'], al['params'][1]['name']
    n_emit = n_quiet = 0
    for p in paths:
        hidden = samefile = sameline = None

        def classify(t):
            """('hidden'|'samefile'|'sameline', positive?) for an (in)equality atom"""
            if isinstance(t, tuple) and t[0] == 'not':
                c = classify(t[1])
                return (c[0], not c[1]) if c else None
            if isinstance(t, tuple) and t[0] == 'cmp' and t[1] in ('==', '!='):
                sides = {t[2], t[3]}
                pos = t[1] == '=='
                if ('param', pf) in sides and any(isinstance(x, tuple) and x[0] == 'str' for x in sides):
                    return ('hidden', pos)
                if ('param', pf) in sides and ('init', fs_name) in sides:
                    return ('samefile', pos)
                if ('param', pl) in sides and ('init', fs_line) in sides:
                    return ('sameline', pos)
            return None
        def ev(t, asg):
            """truth value of guard term t under assignment asg (dict atom->bool), or None when it involves other atoms"""
            c = classify(t)
            if c:
                return asg[c[0]] == c[1] if c[0] in asg else None
            if isinstance(t, tuple) and t[0] == 'not':
                v = ev(t[1], asg)
                return None if v is None else not v
            if isinstance(t, tuple) and t[0] in ('and', 'or'):
                a, b = ev(t[1], asg), ev(t[2], asg)
                if t[0] == 'and':
                    if a is False or b is False:
                        return False
                    return True if (a is True and b is True) else None
                if a is True or b is True:
                    return True
                return False if (a is False and b is False) else None
            return None
        import itertools as _it
        consistent = []
        for hv, sf, sl in _it.product((True, False), repeat=3):
            asg = {'hidden': hv, 'samefile': sf, 'sameline': sl}
            if all(ev(t, asg) is not (not pol) for t, pol in p.guards):
                consistent.append(asg)
        hidden = True if consistent and all(a['hidden'] for a in consistent) else (False if consistent and not any(a['hidden'] for a in consistent) else None)
        vis = [a for a in consistent if not a['hidden']]
        samefile = True if vis and all(a['samefile'] for a in vis) else (False if vis and not any(a['samefile'] for a in vis) else None)
        sameline = True if vis and all(a['sameline'] for a in vis) else (False if vis and not any(a['sameline'] for a in vis) else None)
        all_moved = bool(vis) and all(not (a['samefile'] and a['sameline']) for a in vis)
        none_moved = bool(vis) and all(a['samefile'] and a['sameline'] for a in vis)
        calls = [ef for ef in p.effects if ef[0] == 'call' and ef[1] == 'GenState::breakpoint']
        fn_final = p.heap.get(fs_name)
        fl_final = p.heap.get(fs_line)
        desc = 'hidden=%s samefile=%s sameline=%s' % (hidden, samefile, sameline)
        where = W(m, al)
        if hidden is True:
            R.check(not calls and fn_final is None and fl_final is None, 'advanceLine [%s]' % desc, 'hidden file: no site, location unchanged', 'the hidden file changes the location or gets a site', where)
            continue
        if not calls:
            n_quiet += 1
            R.check(none_moved, 'advanceLine [%s]: no site' % desc, 'no site only when neither the file nor the line changed',
                    'no site is created although %s: a statement on that line is never stopped on' % (
                        'the file may differ (the decision does not look at the file)' if samefile is None else 'the file differs' if samefile is False else 'the line differs'),
                    where, witness={'path_guards': [(t_show(t), pol) for t, pol in p.guards]})
            continue
        n_emit += 1
        okloc = (fn_final is None and samefile is True or (fn_final is not None and fn_final.term == ('param', pf))) and \
                (fl_final is not None and fl_final.term == ('param', pl))
        moved = all_moved
        okloc = (fn_final is not None and fn_final.term == ('param', pf) or (fn_final is None and samefile is True)) and \
                (fl_final is not None and fl_final.term == ('param', pl) or (fl_final is None and sameline is True))
        R.check(len(calls) == 1 and okloc and moved, 'advanceLine [%s]: site' % desc, 'one site, created after the location became (file, line)',
                'site created %d time(s) with location (%s, %s)%s' % (len(calls), t_show(fn_final.term) if fn_final else 'unchanged', t_show(fl_final.term) if fl_final else 'unchanged',
                                                                       '' if moved else ' although nothing moved'), where)
    if n_emit == 0:
        R.violation('advanceLine', 'no path creates a site', W(m, al))


def variable_view_rule(R, rep):
    from .props_lex import enclosing_conditions
    vf = Facts(['VM/src/vm.cpp'])
    rep.note_facts(vf)
    f = vf.fn('Theo::VM::Activation::getActivationVariables')
    rep.analysed(f)
    ok = False
    why = 'no assignment res[name] = data[data_start + register] found'
    gm0 = GenModel.__new__(GenModel)
    gm0.facts, gm0._defs, gm0._cfg = vf, {}, {}
    for st in walk_stmts(f['body']):
        if st['k'] != 'rangefor':
            continue
        rng = show(gm0.inline_value(f, st['range']))       # (through local references: const auto &names = ...stack_maps[..].map)
        if not rng.endswith('.map') and not rng.endswith('->map'):
            continue
        ev = st['var']
        for e in walk_all_exprs(st['body']):
            tgt = val = None
            if e.get('k') == 'assign':
                tgt, val = strip_casts(e['l']), e['r']
            elif is_call(e, '::insert_or_assign') and len(e.get('args', [])) == 2 and e.get('obj') is not None:
                tgt, val = {'k': 'call', 'callee': 'map::operator[]', 'obj': e['obj'], 'args': [e['args'][0]]}, e['args'][1]      # view.insert_or_assign(name, value) is view[name] = value
            if tgt is None or not is_call(tgt, '::operator[]'):
                continue
            key = show(strip_copies(strip_casts(tgt['args'][0])))
            vtxt = show(val)
            idx_ok = False
            v = strip_casts(gm0.inline_value(f, val))
            if is_call(v, '::operator[]') and field_chain(v['obj'])[1][-1:] == ['data']:
                idx = show(v['args'][0])
                o = strip_casts(v['args'][0])
                if o.get('k') == 'ref':
                    gm = GenModel.__new__(GenModel)
                    gm.facts, gm._defs, gm._cfg = vf, {}, {}
                    idx = show(gm.origin(f, o))
                idx_ok = 'data_start' in idx and (ev['name'] + '.first') in idx and '+' in idx
            if key == ev['name'] + '.second' and idx_ok:
                conds = enclosing_conditions(st['body'], None, target_expr=e)
                # loops around the walk over the stack map: they must run at least once for every frame that has a register
                outer_bad = None
                for o2 in walk_stmts(f['body']):
                    if o2['k'] == 'for' and o2 is not st and any(x is st for x in walk_stmts(o2['body'])):
                        iv = o2['init']['vars'][0] if o2.get('init') and o2['init']['k'] == 'decl' and o2['init']['vars'] else None
                        i0 = strip_casts(iv.get('init')) if iv is not None and iv.get('init') is not None else None
                        c2 = strip_casts(o2.get('c')) if o2.get('c') is not None else None
                        if i0 is not None and i0.get('k') == 'int' and i0['v'] >= 1 and c2 is not None and c2.get('k') == 'bin' and c2['op'] in ('<', '<=') and 'seg_size' in show(c2['r']):
                            outer_bad = 'the walk over the stack map sits in a loop that starts at %d and runs below seg_size: an activation with %s register%s gets an empty view' % (
                                i0['v'], 'exactly one' if i0['v'] == 1 else 'at most %d' % i0['v'], '' if i0['v'] == 1 else 's')
                if conds:
                    why = 'the entry is reported only under the condition %s: some variables of the routine are missing from the view' % conds[0][0]
                elif outer_bad:
                    why = outer_bad
                else:
                    ok = True
    R.check(ok, 'getActivationVariables', 'for every (register, name) of the stack map: view[name] = data[data_start + register], unconditionally', why,
            'VM/src/vm.cpp:%d' % f['loc'][1])
    # one entry per variable: the view is keyed by the exact name (a comparator that folds case merges the variables i and I)
    from .genrules import lossy_key_orders
    lko = lossy_key_orders(vf)
    R.check(not lko, 'variable view: keys', 'no string-keyed container of the VM is ordered by a case-folding or partial comparator',
            '%s %s is ordered by %s, which compares through %s: two variables whose names differ only in what it ignores share one entry - one of them is missing from the view and the '
            'other may show its value' % (lko[0][0] if lko else '', lko[0][1] if lko else '', lko[0][2] if lko else '', '/'.join(lko[0][3]) if lko else ''), 'VM/include/vm.hpp',
            witness={'input': 'i := 2; I := 40'} if lko else None)
