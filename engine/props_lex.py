"""Rules over the scanner specification, the committed scanner and the scanner driver:
C14 (token stream faithful) and C15 (include resolution)."""
import os
import re
import shutil
import subprocess
import tempfile

from .facts import (Facts, AnalysisBroken, VERIF, expr_children, walk_expr, walk_all_exprs, walk_stmts, show, strip_casts, strip_copies,
                    strip_conv, member_path)
from .genrules import is_call, field_chain, guard_implies, guarded
from .props_c02 import Multi
from . import lexspec

WS = {9, 10, 13, 32}


def load_tokens_tsv():
    rows = []
    for ln in open(os.path.join(VERIF, 'spec', 'tokens.tsv')):
        if ln.startswith('#') or not ln.strip('\n'):
            continue
        t, s = ln.rstrip('\n').split('\t')
        rows.append((t, s))
    return rows


def vec_of(obj, elem):
    """the expression is a std::vector of the named record type (the token list, the error list, the scanner stack), whatever it is called"""
    t = (strip_casts(obj).get('cty') or '') if obj is not None else ''
    t = t.replace('const ', '').replace(' &', '').replace('&', '').strip()
    return re.fullmatch(r'std::vector<(\w+::)*%s(, *std::allocator<.*>)?>' % re.escape(elem), t) is not None


def status_vars(M, f):
    """locals that receive the return value of yylex (0 = end of this file)"""
    out = set()
    for d, ds in M.defs(f).items():
        for kind, rhs, node in ds:
            if rhs is not None and is_call(strip_casts(rhs), 'yylex'):
                out.add(d)
    return out


def is_eof_test(c, statvars):
    """<yylex status> == 0  (either order), or !<status>"""
    c = strip_casts(c)
    while c is not None and c.get('k') == 'paren':
        c = strip_casts(c['e'])
    if c is None:
        return False
    if c.get('k') == 'bin' and c.get('op') == '==':
        l, r = strip_casts(c['l']), strip_casts(c['r'])
        for a, b in ((l, r), (r, l)):
            if a is not None and b is not None and a.get('k') == 'ref' and a.get('d') in statvars and b.get('k') == 'int' and b.get('v') == 0:
                return True
    if c.get('k') == 'un' and c.get('op') == '!':
        a = strip_casts(c['e'])
        return a is not None and a.get('k') == 'ref' and a.get('d') in statvars
    return False


def mentions_eof_test(c, statvars):
    return any(is_eof_test(x, statvars) for x in walk_expr(c))


def files_map(obj):
    """an expression of the type of the file table (name -> content)"""
    t = (strip_casts(obj).get('cty') or '') if obj is not None else ''
    t = t.replace('const ', '').replace(' &', '').strip()
    return re.match(r'std::map<std::(basic_string<char>|string), std::(basic_string<char>|string)', t) is not None


def in_files(c, key):
    """files.contains(key) for the file table under any name"""
    return is_call(c, '::contains') and c.get('obj') is not None and files_map(c['obj']) and len(c.get('args', [])) == 1 and \
        show(strip_conv(c['args'][0])) == key


def is_active_test(c, key):
    return is_call(c, 'exists_scanner') and len(c.get('args', [])) == 2 and vec_of(c['args'][0], 'Scanner') and show(strip_conv(c['args'][1])) == key


def yylex_actions(lfacts, LM, yl, nrules):
    """The switch of yylex over the rule number and, per rule number, what the action does with the token:
    {'args': the four arguments of the Token construction in yylex's own terms (or None + 'why'), 'stored': assigned through
    the ret parameter, 'returns_nonzero', 'case'}.  The construction may sit in the action itself (TOK expanded in place) or
    in a helper of lex.yy.c that the action calls and returns; the helper's parameters are replaced by the arguments."""
    sw, best = None, 0
    for st in walk_stmts(yl['body']):
        if st['k'] == 'switch':
            n = sum(1 for c in st['cases'] for l in c['labels'] if isinstance(l, dict) and isinstance(l.get('v'), int))
            if n > best:
                sw, best = st, n
    if sw is None or best < nrules:
        return None, {}
    retp = [p['d'] for p in yl['params'] if 'Token' in (p.get('cty') or '')]
    actions = {}
    for c in sw['cases']:
        labs = [l.get('v') for l in c['labels'] if isinstance(l, dict)]
        cons = [e for s in c['s'] for e in walk_all_exprs(s) if e.get('k') == 'construct' and e.get('rec') == 'Theo::Token' and len(e.get('args', [])) == 4]
        rets = [s2 for s in c['s'] for s2 in walk_stmts(s) if s2['k'] == 'return']
        act = {'args': None, 'why': '%d Token constructions' % len(cons), 'stored': False, 'returns_nonzero': False, 'case': c}

        def nonzero(e):
            e = strip_casts(e)
            return e is not None and e.get('k') == 'int' and e['v'] != 0
        if len(cons) == 1:
            asg = [e for s in c['s'] for e in walk_all_exprs(s) if (e.get('k') == 'call' and (e.get('callee') or '').endswith('Token::operator=')) or e.get('k') == 'assign']
            act['args'] = cons[0]['args']
            act['stored'] = any(any(x.get('k') == 'ref' and x.get('d') in retp for x in walk_expr(y.get('obj') or y.get('l'))) for y in asg)
            act['returns_nonzero'] = len(rets) == 1 and rets[0].get('e') is not None and nonzero(rets[0]['e'])
        elif not cons:
            hc = [e for s in c['s'] for e in walk_all_exprs(s) if e.get('k') == 'call' and e.get('callee_in_repo') and e.get('obj') is None]
            hs = []
            for e in hc:
                h = lfacts.fn(e.get('callee'), optional=True)
                if h is not None and h.get('body') is not None and len(h['params']) == len(e['args']):
                    hcons = [x for x in walk_all_exprs(h['body']) if x.get('k') == 'construct' and x.get('rec') == 'Theo::Token' and len(x.get('args', [])) == 4]
                    if len(hcons) == 1:
                        hs.append((e, h, hcons[0]))
            if len(hs) == 1:
                e, h, hcon = hs[0]
                branching = any(st['k'] in ('if', 'for', 'while', 'do', 'rangefor', 'switch') for st in walk_stmts(h['body']))
                if branching:
                    act['why'] = 'the helper %s builds the token on some paths only' % h['q']
                else:
                    sub = {p['d']: LM.inline_value(yl, a) for p, a in zip(h['params'], e['args'])}
                    act['args'] = [LM.inline_value(h, a, sub) for a in hcon['args']]
                    hasg = [x for x in walk_all_exprs(h['body']) if (x.get('k') == 'call' and (x.get('callee') or '').endswith('Token::operator=')) or x.get('k') == 'assign']
                    tg = [LM.inline_value(h, y.get('obj') or y.get('l'), sub) for y in hasg]
                    act['stored'] = any(any(x.get('k') == 'ref' and x.get('d') in retp for x in walk_expr(t)) for t in tg)
                    hrets = [x for x in walk_stmts(h['body']) if x['k'] == 'return' and x.get('e') is not None]
                    helper_nonzero = bool(hrets) and all(nonzero(x['e']) for x in hrets)
                    if len(rets) == 1 and rets[0].get('e') is not None:
                        r0 = strip_casts(rets[0]['e'])
                        act['returns_nonzero'] = nonzero(r0) or (r0 is e and helper_nonzero)
            elif hs:
                act['why'] = '%d helper calls that build tokens' % len(hs)
        for v in labs:
            actions[v] = act
    return sw, actions


def c14(rep, tier):
    repo = os.environ.get('VERIF_REPO', '/repo')
    lpath = os.path.join(repo, 'Compiler/src/lexer.l')
    cpath = os.path.join(repo, 'Compiler/src/lex.yy.c')
    hpath = os.path.join(repo, 'Compiler/include/lex.yy.h')
    for p in (lpath, cpath, hpath):
        if not os.path.exists(p):
            raise AnalysisBroken('%s missing (anchor vanished)' % p)
    spec = lexspec.FlexSpec(lpath)
    dfa = lexspec.build(spec)
    rep.units.append(lpath)
    rep.extra['lexer_rules'] = len(spec.rules)
    rep.extra['spec_dfa_states'] = len(dfa.states)
    sfacts = Facts(['Compiler/src/scan.cpp'])
    rep.note_facts(sfacts)
    token_enum = [n for n, _ in sfacts.enum('Theo::Token::Type')['enumerators']]

    L1 = rep.rule('C14.L1', 'the scanner is total: every byte starts a token or skipped text, so flex\'s default ECHO rule is unreachable', floor=256)
    for b in range(256):
        t = dfa.delta[0][b]
        ok = t >= 0 and dfa.accept[t] is not None
        L1.check(ok, 'byte 0x%02x' % b, 'one-byte match by rule %s' % (spec.rules[dfa.accept[t]]['pattern'] if ok else None),
                 'no rule matches a lone byte 0x%02x: the scanner would echo it to stdout and drop it from the token stream' % b,
                 'Compiler/src/lexer.l')

    L2 = rep.rule('C14.L2', 'keyword table, both directions: each keyword/template rule spells exactly the documented spellings of its token '
                            'kind; each documented spelling is won by that kind; a spelling followed by an identifier character is one ID', floor=99)
    rows = load_tokens_tsv()
    by_type = {}
    for t, s in rows:
        by_type.setdefault(t, set()).add(s)
    seen_types = set()
    for i, r in enumerate(spec.rules):
        tok = spec.token_of(r)
        if not tok:
            continue
        lang = lexspec.rule_language(spec, i)
        if lang is None:
            continue
        seen_types.add(tok)
        got = set(x.decode('latin1') for x in lang)
        want = by_type.get(tok, set())
        extra, missing = got - want, want - got
        L2.check(not extra and not missing, 'rule %s -> %s' % (r['pattern'], tok), '%d spelling(s), exactly the documented ones' % len(got),
                 'spellings differ from the documented table: undocumented %s, missing %s' % (sorted(extra), sorted(missing)),
                 'Compiler/src/lexer.l:%d' % r['line'])
    for t in by_type:
        if t not in seen_types:
            L2.violation('token kind %s' % t, 'no finite-language rule produces %s although %d spellings are documented' % (t, len(by_type[t])), 'Compiler/src/lexer.l')
    idrule = [i for i, r in enumerate(spec.rules) if spec.token_of(r) == 'ID']
    for t, s in rows:
        data = s.encode('latin1')
        ln, r = dfa.longest(data)
        ok = ln == len(data) and r is not None and spec.token_of(spec.rules[r]) == t
        L2.check(ok, 'spelling %r' % s, 'lexes as one %s token' % t,
                 'lexes as %s (length %d of %d)' % (spec.token_of(spec.rules[r]) if r is not None else None, ln, len(data)), 'Compiler/src/lexer.l')
        if re.fullmatch(r'[A-Za-z_][A-Za-z0-9_]*', s):
            d2 = data + b'x'
            ln2, r2 = dfa.longest(d2)
            L2.check(ln2 == len(d2) and r2 is not None and spec.token_of(spec.rules[r2]) == 'ID', 'spelling %r + identifier character' % s,
                     'maximal munch: one ID', 'keyword prefix is split off an identifier', 'Compiler/src/lexer.l')

    # infinite token kinds: the union of the rules of that kind spells exactly the documented regular language
    pats = {}
    for ln in open(os.path.join(VERIF, 'spec', 'token_patterns.tsv')):
        if ln.startswith('#') or not ln.strip():
            continue
        t, rx = ln.rstrip('\n').split('\t')
        pats[t] = rx
    for t, rx in pats.items():
        idxs = [i for i, r in enumerate(spec.rules) if spec.token_of(r) == t]
        if not idxs:
            L2.violation('token kind %s' % t, 'no rule produces %s' % t, 'Compiler/src/lexer.l')
            continue
        union = '|'.join('(%s)' % spec.rules[i]['pattern'] for i in idxs)
        ok, wit = lexspec.dfa_equal(lexspec.single_dfa(spec, union), lexspec.single_dfa(spec, rx))
        L2.check(ok, 'pattern of %s' % t, 'the rule(s) spell exactly the documented form %s' % rx,
                 'the lexical form of %s differs from the documented %s, e.g. on %r' % (t, rx, wit.decode('latin1') if wit is not None else ''),
                 'Compiler/src/lexer.l:%d' % spec.rules[idxs[0]]['line'], witness={'input': wit.decode('latin1')} if wit is not None else None)
    L3 = rep.rule('C14.L3', 'every rule either skips (whitespace, comment only) or returns exactly one token of an existing kind', floor=39)
    for i, r in enumerate(spec.rules):
        tok = spec.token_of(r)
        inst = 'rule %d %s' % (i + 1, r['pattern'])
        where = 'Compiler/src/lexer.l:%d' % r['line']
        if tok is False:
            L3.violation(inst, 'action %s is neither a skip nor TOK(<kind>)' % r['action'], where)
        elif tok is None:
            L3.check(skip_language_ok(spec, i), inst, 'skips whitespace or a // comment only', 'a rule that matches program text produces no token', where)
        else:
            L3.check(tok in token_enum, inst, 'TOK(%s)' % tok, 'token kind %s does not exist' % tok, where)

    L4 = rep.rule('C14.L4', 'no rule is shadowed by earlier rules', floor=39)
    winners = set(a for a in dfa.accept if a is not None)
    for i, r in enumerate(spec.rules):
        L4.check(i in winners, 'rule %d %s' % (i + 1, r['pattern']), 'wins for at least one input', 'rule can never match (shadowed by earlier rules): its token kind is never produced by these spellings',
                 'Compiler/src/lexer.l:%d' % r['line'])

    lfacts = Facts(['Compiler/src/lex.yy.c'])
    rep.note_facts(lfacts)
    yl = lfacts.fn('yylex')
    LM = Multi(lfacts)
    sw, actions = yylex_actions(lfacts, LM, yl, len(spec.rules))
    L5 = rep.rule('C14.L5', 'scanner options: reentrant, noyywrap, yylineno, extra-type', floor=4)
    tokdef = ' '.join(l for l in spec.prologue if 'define TOK' in l.replace('#', '').replace('  ', ' '))
    mline = re.search(r'Token\s*\((.*)\)\s*;', tokdef)
    line_src = None
    if mline:
        # last top-level argument of the Token construction
        depth, cur, args_ = 0, '', []
        for ch in mline.group(1):
            if ch in '([{':
                depth += 1
            elif ch in ')]}':
                depth -= 1
            if ch == ',' and depth == 0:
                args_.append(cur.strip())
                cur = ''
            else:
                cur += ch
        args_.append(cur.strip())
        line_src = args_[3] if len(args_) >= 4 else None
    if line_src is None and actions:
        # TOK hands the work to a helper: the line is what the committed actions pass on (the same for every action, checked by L6)
        srcs = set()
        for v, act in actions.items():
            if act['args'] is not None and len(act['args']) >= 4:
                t = show(act['args'][3])
                srcs.add('yylineno' if 'yy_bs_lineno' in t else t.replace('yyg->yyextra_r', 'yyextra').replace(' ', ''))
        if len(srcs) == 1:
            line_src = srcs.pop()
    uses_yylineno = line_src == 'yylineno'
    for o in ('reentrant', 'noyywrap'):
        L5.check(o in spec.options, 'option %s' % o, 'present', 'option %s missing' % o, 'Compiler/src/lexer.l')
    seven = [o for o in spec.options if o.lower() in ('7bit', '-7')]
    L5.check(not seven, 'option 8bit (default)', 'the scanner is generated for all 256 byte values', 'option %s: the generated scanner indexes its tables with bytes >= 0x80 although they have 128 entries - '
             'a byte of a UTF-8 character in a comment or a name is undefined behaviour instead of a skipped / one-character token' % (seven[0] if seven else ''), 'Compiler/src/lexer.l',
             witness={'input': 'x0 := 1 // größer'} if seven else None)
    if line_src is None:
        L5.unknown('line source', 'cannot see which expression TOK passes as the line of a token')
    elif uses_yylineno:
        L5.check('yylineno' in spec.options, 'option yylineno', 'present: flex counts the newlines of every rule that can match one',
                 'tokens are labelled with yylineno but %option yylineno is missing: the line stays at its initial value', 'Compiler/src/lexer.l')
    else:
        # a hand-written line counter: every rule that can match a newline has to count the newlines of its match
        missing = []
        unk = []
        for i, r in enumerate(spec.rules):
            w = lexspec.eol_witness(spec, i, dfa)
            if w is None:
                continue
            body = re.sub(r'/\*.*?\*/', '', r['action'], flags=re.S)
            var = re.escape(line_src)
            counts = re.search(r"yytext\s*\[[^\]]+\]\s*==\s*'\\n'", body) and re.search(r'(%s\s*\+\+|\+\+\s*%s|%s\s*\+=\s*1)' % (var, var, var), body)
            if counts:
                continue
            if line_src in body:
                unk.append((i, r))
            else:
                missing.append((i, r, w))
        for i, r, w in missing:
            L5.violation('line source: rule %d %s' % (i + 1, r['pattern']), 'tokens are labelled with %s, a hand-written counter, but this rule can match a newline (e.g. %r) '
                         'and does not count it: every later token of the file gets a line that is too small' % (line_src, w.decode('latin1')),
                         'Compiler/src/lexer.l:%d' % r['line'], witness={'input': repr(w), 'rule': r['pattern']})
        for i, r in unk:
            L5.unknown('line source: rule %d %s' % (i + 1, r['pattern']), 'the action touches %s in a way this rule does not recognise' % line_src)
        if not missing and not unk:
            L5.ok('line source', 'every rule that can match a newline counts the newlines of its match into %s' % line_src, 'Compiler/src/lexer.l')
    L5.check(any(x.startswith('extra-type=') and 'ScannerInfo' in x for x in spec.options), 'option extra-type', 'Theo::ScannerInfo*', 'extra-type missing', 'Compiler/src/lexer.l')

    L6 = rep.rule('C14.L6', 'in the committed scanner every token-producing action builds Token(kind of its rule, matched text with its '
                            'length, file name of this scanner, current line) into *ret and returns non-zero', floor=37)
    rep.analysed(yl)
    if sw is None:
        L6.unknown('yylex', 'action switch not found')
    else:
        no_len = []
        for i, r in enumerate(spec.rules):
            tok = spec.token_of(r)
            if not tok:
                continue
            inst = 'case %d (%s)' % (i + 1, r['pattern'])
            if (i + 1) not in actions:
                L6.violation(inst, 'no action for this rule in the committed yylex', 'Compiler/src/lex.yy.c')
                continue
            act = actions[i + 1]
            c = act['case']
            why = []
            if act['args'] is None:
                why.append(act['why'])
            else:
                a = act['args']
                kind = strip_casts(a[0])
                if not (kind.get('k') == 'ref' and kind.get('dk') == 'enumerator' and kind['name'] == tok):
                    why.append('kind %s, the specification says %s' % (show(kind), tok))
                txt = strip_conv(a[1])
                txt_s = show(txt)
                if 'yytext_r' not in txt_s:
                    why.append('text is %s, not the matched text' % txt_s)
                elif 'yyleng_r' not in txt_s:
                    no_len.append(i + 1)
                if 'yyextra_r' not in show(a[2]) or 'filename' not in show(a[2]):
                    why.append('file is %s, not this scanner\'s file name' % show(a[2]))
                got = show(a[3]).replace('yyg->yyextra_r', 'yyextra').replace(' ', '')
                if uses_yylineno and 'yy_bs_lineno' not in show(a[3]):
                    why.append('line is %s, not yylineno' % show(a[3]))
                elif not uses_yylineno and line_src is not None and got != line_src.replace(' ', ''):
                    why.append('line is %s, not the line source %s of the specification' % (show(a[3]), line_src))
            if not act['returns_nonzero']:
                why.append('does not return a non-zero value')
            if not act['stored']:
                why.append('token not stored through *ret')
            L6.check(not why, inst, 'Token(%s, yytext/yyleng, yyextra->filename, yylineno) -> *ret; return 1' % tok, '; '.join(why), 'Compiler/src/lex.yy.c:%d' % c['s'][0]['loc'][0] if c['s'] else 'Compiler/src/lex.yy.c')

    if sw is not None:
        L6.check(not no_len, 'token text carries its length', 'every action builds the text from (yytext, yyleng)',
                 '%d action(s) build the text from the NUL-terminated yytext alone: a matched NUL byte yields an empty text instead of a '
                 'one-character token' % len(no_len), 'Compiler/src/lexer.l:3', witness={'input': 'a file containing a NUL byte', 'cases': no_len[:5]} if no_len else None)
    L7 = rep.rule('C14.L7', 'the committed scanner is the one generated from the specification (both build configurations behave identically)', floor=1)
    # the match is what the automaton found: yytext / yyleng are set by the generated skeleton only (no YY_USER_ACTION or rule action changes the length of a lexeme)
    leng_sets = [e for e in walk_all_exprs(yl['body']) if e.get('k') == 'assign' and 'yyleng' in show(e['l'])]
    extra_len = [e for e in leng_sets if not ('yy_cp' in show(e['r']) and 'yy_bp' in show(e['r']))]
    if not leng_sets:
        L7.unknown('yylex: length of a lexeme', 'no assignment to yyleng found in yylex()')
    else:
        L7.check(not extra_len, 'yylex: length of a lexeme', 'yyleng = yy_cp - yy_bp, set by the skeleton only (%d place(s))' % len(leng_sets),
                 'yylex() changes the length of the matched text (%s): a hook in a header (YY_USER_ACTION) or a rule action cuts lexemes - the text of a long identifier, number or file name '
                 'is not the text in the file' % (show(extra_len[0])[:60] if extra_len else ''), 'Compiler/src/lex.yy.c:%d' % (extra_len[0]['loc'][0] if extra_len else yl['loc'][1]),
                 witness={'input': 'an identifier of 300 characters'} if extra_len else None)
    tabs = lexspec.parse_tables(cpath)
    ok, wit, pairs = lexspec.equivalent(dfa, tabs)
    rep.extra['table_product_pairs'] = pairs
    L7.check(ok, 'lex.yy.c tables == lexer.l automaton', 'decoded yy_* tables accept the same language with the same rule numbers (%d product states, bytes 1..255)' % pairs,
             'committed tables differ from the specification on input %r: %s' % (wit[0] if wit else None, wit[1] if wit else None), 'Compiler/src/lex.yy.c',
             witness={'input': repr(wit[0]), 'difference': wit[1]} if wit else None)
    # the prologue of the specification (YY_DECL / TOK) must be the one compiled into lex.yy.c
    ctext = open(cpath, encoding='latin1').read()
    for ln in spec.prologue:
        if ln.strip().startswith('#define'):
            L7.check(ln.strip() in ctext, 'prologue: %s' % ln.strip()[:40], 'present verbatim in lex.yy.c', 'lex.yy.c was not regenerated after the specification changed: %s' % ln.strip()[:60],
                     'Compiler/src/lex.yy.c')
    if shutil.which('flex'):
        tmp = tempfile.mkdtemp(prefix='theo-flex-')
        try:
            shutil.copy(lpath, os.path.join(tmp, 'lexer.l'))
            r = subprocess.run(['flex', '--outfile=lex.yy.c', '--header-file=lex.yy.h', '--noline', '--nounistd', 'lexer.l'], cwd=tmp, capture_output=True, text=True)
            if r.returncode != 0:
                L7.unknown('flex regeneration', 'flex failed: %s' % r.stderr[:200])
            else:
                def norm(s):
                    return s.replace('"./src/lex.yy.c"', '"lex.yy.c"').replace('"./include/lex.yy.h"', '"lex.yy.h"')
                same_c = norm(open(os.path.join(tmp, 'lex.yy.c'), encoding='latin1').read()) == norm(ctext)
                same_h = norm(open(os.path.join(tmp, 'lex.yy.h'), encoding='latin1').read()) == norm(open(hpath, encoding='latin1').read())
                L7.check(same_c and same_h, 'flex(lexer.l) == committed lex.yy.c / lex.yy.h', 'byte-identical regeneration (flex %s)' % subprocess.run(['flex', '--version'], capture_output=True, text=True).stdout.strip(),
                         'regenerating the scanner changes %s' % ('lex.yy.c' if not same_c else 'lex.yy.h'), 'Compiler/src/lex.yy.c')
        finally:
            shutil.rmtree(tmp, ignore_errors=True)

    scan_rules(rep, sfacts)


def skip_language_ok(spec, idx):
    nfa = lexspec.NFA()
    start = nfa.new()
    p = lexspec.RegexParser(spec, nfa)
    a, b = p.parse(spec.rules[idx]['pattern'])
    nfa.eps[start].add(a)
    nfa.accept[b] = 0
    d = lexspec.DFA(nfa, start)
    first = set(b2 for b2 in range(256) if d.delta[0][b2] >= 0)
    allb = set(b2 for row in d.delta for b2 in range(256) if row[b2] >= 0)
    if first and first <= WS:
        return allb <= WS
    if first == {ord('/')}:
        s1 = d.delta[0][ord('/')]
        second = set(b2 for b2 in range(256) if d.delta[s1][b2] >= 0)
        return second == {ord('/')} and d.accept[s1] is None and 10 not in allb
    return False


def scan_rules(rep, sfacts):
    M = Multi(sfacts)
    scan = sfacts.fn('Theo::scan')
    cs = sfacts.fn('create_scanner')
    rep.analysed(scan, cs)
    g = M.cfg(scan)
    S1 = rep.rule('C14.S1', 'exactly one end-of-file token is appended, after the scanning loop', floor=1)
    loops = [s for s in walk_stmts(scan['body']) if s['k'] in ('while', 'for', 'do')]
    def eof_text(ev):
        # the pushed value, looked through single-definition locals and through an in-repo helper that builds it
        a = ev.e['args'][0] if ev.e.get('args') else None
        txt = show(ev.e)
        o = M.origin(scan, a) if a is not None else None
        o = strip_conv(strip_copies(strip_casts(o))) if o is not None else None
        if o is not None:
            txt += ' ' + show(o)
            if o.get('k') == 'call' and o.get('callee_in_repo'):
                h = sfacts.fn(o.get('callee'), optional=True)
                if h is not None and h.get('body') is not None:
                    rets = [x for x in walk_stmts(h['body']) if x['k'] == 'return' and x.get('e') is not None]
                    if rets and all('T_EOF' in show(x['e']) for x in rets):
                        txt += ' T_EOF(helper %s)' % h['q']
        return txt
    eofs = [ev for ev in g.calls() if (is_call(ev.e, '::push_back') or is_call(ev.e, '::emplace_back')) and vec_of(ev.e['obj'], 'Token') and 'T_EOF' in eof_text(ev)]
    inside = [ev for ev in eofs if loops and any(x is ev.e for x in walk_all_exprs(loops[0]['body']))]
    S1.check(len(eofs) == 1 and not inside and g.on_all_paths(eofs[0]), 'scan: final EOF', 'one push of a T_EOF token on every path, outside the loop',
             '%d EOF pushes (%d inside the loop)' % (len(eofs), len(inside)), 'Compiler/src/scan.cpp:%d' % scan['loc'][1])
    # ... labelled with the position of the last token of the stream (or the placeholder), not of some other token variable
    for ev in eofs:
        rec = None
        for x in walk_expr(ev.e):
            if x.get('k') in ('init', 'construct') and (x.get('rec') or '').endswith('Token'):
                rec = x
        if rec is None:
            a0 = M.origin(scan, ev.e['args'][0]) if ev.e.get('args') else None
            for x in (walk_expr(a0) if a0 is not None else []):
                if x.get('k') in ('init', 'construct') and (x.get('rec') or '').endswith('Token'):
                    rec = x
        if rec is None:
            continue
        pos_args = (rec.get('args') or [])[2:4] if rec.get('k') == 'construct' else [v for n_, v in rec.get('fields', []) if n_ in ('file', 'line')]
        for pa in pos_args:
            src = M.origin(scan, pa)
            leaves = []

            def leaves_of(x):
                x = strip_conv(strip_copies(strip_casts(x))) if x is not None else None
                if x is None:
                    return
                if x.get('k') == 'cond':
                    leaves_of(x['t'])
                    leaves_of(x.get('f') if x.get('f') is not None else x.get('e'))
                elif x.get('k') == 'paren':
                    leaves_of(x['e'])
                elif x.get('k') == 'ref' and x.get('dk') == 'var' and M.origin(scan, x) is not x:
                    leaves_of(M.origin(scan, x))
                else:
                    leaves.append(x)
            leaves_of(src)
            for lf in leaves:
                if lf.get('k') == 'member' and lf.get('name') in ('file', 'line'):
                    b = strip_casts(lf['base'])
                    from_last = is_call(b, '::back') and b.get('obj') is not None and vec_of(b['obj'], 'Token')
                    if not from_last:
                        S1.violation('scan: position of the final EOF', 'the end-of-file token takes its %s from %s, not from the last token of the stream: after an include that contributes no '
                                     'token (an empty file, an include error) it is labelled with a position that is not the last token\'s' % (lf['name'], show(b)),
                                     'Compiler/src/scan.cpp:%d' % (lf.get('loc') or ev.e['loc'])[0], witness={'input': 'main: x0 := 1 <newline><newline><newline> include "empty"'})
    S2 = rep.rule('C14.S2', 'every token the scanner returns is appended unchanged, except include directives and the end of a file', floor=2)
    ylex = [ev for ev in g.calls() if is_call(ev.e, 'yylex')]
    pushes = [ev for ev in g.calls() if is_call(ev.e, '::push_back') and vec_of(ev.e['obj'], 'Token') and ev not in eofs]
    statvars = status_vars(M, scan)
    if len(pushes) != 1 or not ylex or not loops:
        S2.unknown('scan', '%d token pushes / %d yylex calls' % (len(pushes), len(ylex)))
    else:
        push = pushes[0]
        tokvar = strip_casts(push.e['args'][0])
        first = [y for y in ylex if g.dominates(y, push)]
        if not first:
            S2.violation('scan: token identity', 'the token that is appended is not always one that yylex wrote: no yylex call dominates the append (on some path the '
                         'token variable keeps what an earlier iteration left, or nothing)', 'Compiler/src/scan.cpp:%d' % push.e['loc'][0])
            first = ylex[:1]
        okfirst = len(first) >= 1 and all('&' + tokvar.get('name', '?') in show(y.e) for y in ylex)
        # every other yylex call (which overwrites the token) sits under the INCLUDE test
        others = [y for y in ylex if y not in first or (len(first) > 1 and y is not first[0])]
        inc_ok = True
        for y in ylex:
            if y is first[0]:
                continue
            inc_ok = inc_ok and any(label is True and 'INCLUDE' in show(cond) for cond, label, cn in g.guards_of(y))
        S2.check(okfirst and inc_ok, 'scan: token identity', 'res.push_back(t) receives the token yylex wrote; re-reads happen only after an include keyword',
                 'the appended token is not the one yylex produced', 'Compiler/src/scan.cpp:%d' % push.e['loc'][0])
        # paths from the first yylex back to the loop head that skip the push: each `continue` is under d == 0 or the INCLUDE test
        body = loops[0]['body']
        conts = [s for s in walk_stmts(body) if s['k'] in ('continue', 'break', 'return')]
        bad = []
        for cst in conts:
            # find guards of this continue: enclosing ifs
            enc = enclosing_conditions(body, cst)
            if cst['k'] in ('break', 'return'):
                # leaving the scanning loop drops the rest of every file that is still being scanned, unless none is
                in_inner = any(x is cst for y in walk_stmts(body) if y['k'] in ('for', 'while', 'do', 'rangefor', 'switch') and y is not body
                               for x in walk_stmts(y.get('body') or {'k': 'block', 's': [z for c_ in y.get('cases', []) for z in c_['s']]}))
                stack_empty = any(pol and any(is_call(x, '::empty') and x.get('obj') is not None and vec_of(x['obj'], 'Scanner') for x in walk_expr(cx)) for c, pol, cx in enc)
                if not in_inner and not stack_empty:
                    S2.violation('scan: %s inside the scanning loop (line %d)' % (cst['k'], cst['loc'][0]), 'the scanning loop is left while files are still being scanned: the remaining '
                                 'tokens of the including files are never produced', 'Compiler/src/scan.cpp:%d' % cst['loc'][0],
                                 witness={'input': 'main: include "a" x0 := 1   a: include "a"', 'effect': 'x0 := 1 is missing from the token list'})
                    continue
            okc = any(mentions_eof_test(cx, statvars) or 'INCLUDE' in c for c, pol, cx in enc if pol)
            if not okc:
                bad.append('%s at line %d under %s' % (cst['k'], cst['loc'][0], [(c, pol) for c, pol, cx in enc]))
        # the push itself must not be nested in a condition
        encp = [(c, pol) for c, pol, cx in enclosing_conditions(body, None, target_expr=push.e)]
        S2.check(not bad and not encp, 'scan: no token is dropped', '%d early loop-backs, all under "end of file" or "include keyword"; the push is unconditional' % len(conts),
                 'a token can be skipped: %s %s' % (bad, encp), 'Compiler/src/scan.cpp:%d' % push.e['loc'][0])
    S3 = rep.rule('C14.S3', 'scanners start at line 1 and label tokens with the key of the file they scan', floor=3)
    gc = M.cfg(cs)
    key = cs['params'][1]
    ln = [ev for ev in gc.calls() if is_call(ev.e, 'yyset_lineno')]
    spec_ = lexspec.FlexSpec(os.path.join(os.environ.get('VERIF_REPO', '/repo'), 'Compiler/src/lexer.l'))
    manual = not any('yylineno' in l for l in spec_.prologue if 'TOK' in l)
    if manual and not ln:
        S3.unknown('create_scanner: first line', 'tokens are labelled by a hand-written line counter: its initial value is not decided by this rule')
    else:
      S3.check(len(ln) == 1 and strip_casts(ln[0].e['args'][0]).get('v') == 1 and gc.on_all_paths(ln[0]), 'create_scanner: first line', 'yyset_lineno(1, ...)', 'scanner does not start at line 1',
             'Compiler/src/scan.cpp:%d' % cs['loc'][1])
    si = [e for e in walk_all_exprs(cs['body']) if e.get('k') == 'new' and 'ScannerInfo' in e.get('alloc_ty', '')]
    oksi = len(si) == 1 and si[0].get('init') is not None and any(x.get('k') == 'ref' and x.get('d') == key['d'] for x in walk_expr(si[0]['init']))
    ex = [ev for ev in gc.calls() if is_call(ev.e, 'yyset_extra')]
    S3.check(oksi and len(ex) == 1 and gc.on_all_paths(ex[0]), 'create_scanner: file label', 'ScannerInfo{key} installed with yyset_extra', 'tokens are not labelled with the file key',
             'Compiler/src/scan.cpp:%d' % cs['loc'][1])
    okcalls = True
    ncalls = 0
    bad_call = None
    for fn_ in sfacts.functions_in('scan.cpp'):
        for e in walk_all_exprs(fn_['body']):
            if is_call(e, 'create_scanner'):
                ncalls += 1
                a0, a1 = strip_casts(e['args'][0]), strip_conv(e['args'][1])
                same = (is_call(a0, '::operator[]') or is_call(a0, '::at')) and files_map(a0.get('obj')) and show(strip_conv(a0['args'][0])) == show(a1)
                if not same:
                    okcalls = False
                    bad_call = e
    if ncalls < 2 and okcalls:
        S3.unknown('scan: create_scanner(files[X], X)', 'only %d call site(s) of create_scanner found' % ncalls)
    else:
        S3.check(okcalls, 'scan: create_scanner(files[X], X)', '%d call sites pass the content and the key of the same file' % ncalls,
                 'a scanner is created with the content of one file and the name of another: %s' % (show(bad_call)[:80] if bad_call else ''), 'Compiler/src/scan.cpp:%d' % scan['loc'][1])
    S4 = rep.rule('C14.S4', 'the scan buffer covers the whole content (length-based entry point), not a NUL-terminated prefix', floor=1)
    content = cs['params'][0]
    # ... also at the call sites: the content of a file is not moved out of the file table (std::move(files[name]) leaves an empty file behind)
    for f_ in sfacts.functions:
        if f_.get('body') is None or f_['tmpl'] == 'pattern':
            continue
        for e_ in walk_all_exprs(f_['body']):
            if e_.get('k') == 'call' and e_.get('callee') == cs['q'] and e_.get('args'):
                for x_ in walk_expr(e_['args'][0]):
                    if x_.get('k') == 'call' and (x_.get('callee') or '') in ('std::move', 'std::exchange') and x_.get('args') and \
                            any(y_.get('k') == 'ref' and y_.get('dk') == 'param' and 'map<' in (y_.get('cty') or '') for y_ in walk_expr(x_['args'][0])):
                        S4.violation('%s: create_scanner(std::move(..))' % f_['q'].split('::')[-1], 'the content of a file is moved out of the file table into the scanner (%s): the entry stays '
                                     'in the table but is empty afterwards - a later include of the same file scans nothing and reports nothing' % show(x_)[:50],
                                     'Compiler/src/scan.cpp:%d' % e_['loc'][0], witness={'input': 'main: include "a" x1 := 1 ; include "a"   a: x0 := x0 + 1 ;'})
    # ... and the content stays what it is: the same file may be included again
    for e in walk_all_exprs(cs['body']):
        tgt = None
        if e.get('k') == 'call' and e.get('obj') is not None and (e.get('callee') or '').split('::')[-1] in ('clear', 'swap', 'erase', 'resize', 'assign', 'operator=', 'pop_back', 'shrink_to_fit', 'insert', 'append', 'operator+=', 'replace'):
            tgt = strip_casts(e['obj'])
        elif e.get('k') == 'assign':
            tgt = strip_casts(e['l'])
        args_ = [strip_casts(a) for a in e.get('args', [])] if e.get('k') == 'call' else []
        # an element of the content as the target (in[i] = .., in.front() = ..), or the variable of a by-reference loop over it
        if tgt is not None and tgt.get('k') == 'call' and tgt.get('obj') is not None and (tgt.get('callee') or '').split('::')[-1] in ('operator[]', 'at', 'front', 'back') and \
                strip_casts(tgt['obj']).get('d') == content['d']:
            tgt = strip_casts(tgt['obj'])
        if tgt is not None and tgt.get('k') == 'ref':
            for st_ in walk_stmts(cs['body']):
                if st_['k'] == 'rangefor' and isinstance(st_.get('var'), dict) and st_['var'].get('d') == tgt.get('d') and st_['var'].get('is_ref') and \
                        strip_casts(st_['range']).get('d') == content['d']:
                    tgt = strip_casts(st_['range'])
        # a standard algorithm that writes through iterators of the content
        WRITERS = ('replace', 'replace_if', 'fill', 'fill_n', 'transform', 'sort', 'stable_sort', 'reverse', 'rotate', 'remove', 'remove_if', 'unique', 'generate',
                   'generate_n', 'iota', 'swap_ranges', 'partition', 'stable_partition', 'shuffle', 'nth_element', 'partial_sort', 'inplace_merge', 'copy', 'copy_n',
                   'copy_if', 'copy_backward', 'move_backward', 'for_each', 'erase', 'erase_if', 'memset', 'memcpy', 'memmove', 'strcpy', 'strncpy')
        def _iter_of_content(a):
            return a is not None and a.get('k') == 'call' and a.get('obj') is not None and strip_casts(a['obj']).get('d') == content['d'] and \
                (a.get('callee') or '').split('::')[-1] in ('begin', 'end', 'data', 'rbegin', 'rend') and not a.get('method_const')
        alg = e.get('k') == 'call' and e.get('obj') is None and (e.get('callee') or '').split('::')[-1] in WRITERS and \
            (any(_iter_of_content(a) for a in args_) or any(a is not None and a.get('d') == content['d'] for a in args_))
        if alg and (e.get('callee') or '').split('::')[-1] in ('copy', 'copy_n', 'copy_if', 'copy_backward', 'move_backward', 'transform', 'memcpy', 'memmove', 'strcpy', 'strncpy'):
            # these write to their destination only: the last iterator argument (first for the C functions)
            dest = args_[0] if (e.get('callee') or '').split('::')[-1] in ('memcpy', 'memmove', 'strcpy', 'strncpy') else \
                ([a for a in args_ if a is not None and a.get('k') == 'call'] or [None])[-1]
            alg = _iter_of_content(dest)
        hit = (tgt is not None and tgt.get('d') == content['d']) or alg or \
              (e.get('k') == 'call' and (e.get('callee') or '').split('::')[-1] in ('swap', 'move', 'exchange') and any(a is not None and a.get('d') == content['d'] for a in args_))
        if hit and '&' in (content.get('cty') or '') and not (content.get('cty') or '').startswith('const '):
            S4.violation('create_scanner: content is only read', 'create_scanner modifies the file content it receives by reference (%s): the entry of the file table is changed, and a later include '
                         'of the same file scans something else (nothing)' % show(e)[:60], 'Compiler/src/scan.cpp:%d' % e['loc'][0],
                         witness={'input': 'main: include "a" include "b"   a: include "c"   b: include "c"', 'effect': 'the second include of c yields no tokens'})
    bufs = [ev for ev in gc.calls() if (ev.e.get('callee') or '').startswith('yy_scan_')]
    if len(bufs) != 1:
        S4.unknown('create_scanner', '%d yy_scan_* calls' % len(bufs))
    else:
        b = bufs[0].e
        if b['callee'] == 'yy_scan_bytes':
            ln_arg = M.origin(cs, b['args'][1])
            okl = is_call(strip_casts(ln_arg), '::size') or is_call(strip_casts(ln_arg), '::length')
            okl = okl and strip_casts(strip_casts(ln_arg)['obj']).get('d') == content['d']
            S4.check(okl, 'create_scanner: yy_scan_bytes', 'length = content.size()', 'buffer length is %s' % show(ln_arg), 'Compiler/src/scan.cpp:%d' % b['loc'][0])
        else:
            S4.violation('create_scanner: %s' % b['callee'], 'the buffer is created from a NUL-terminated string: everything after the first NUL byte of a file is silently dropped',
                         'Compiler/src/scan.cpp:%d' % b['loc'][0], witness={'input': 'x := 1;\\0 y := 2', 'effect': 'tokens after the NUL vanish'})
    carrier_records_rule(rep, sfacts)


def carrier_records_rule(rep, sfacts):
    """Token, ScannerInfo and the syntax-tree nodes carry text, file and line from the scanner to the tables: their constructors (and AST::mk) store the
    arguments they are given - no argument is changed, shortened, normalised or computed with on the way into a field.  Kinds are distinct numbers."""
    S9 = rep.rule('C14.S9', 'the records that carry token text, file and line store what they are given: constructors of Token / ScannerInfo / Node and AST::mk pass their '
                            'arguments through unchanged; the enumerators of the kind and error enums are pairwise distinct', floor=2)
    afacts = Facts(['Compiler/src/ast.cpp'])
    rep.note_facts(afacts)
    targets = []
    for fx in (sfacts, afacts):
        for f in fx.functions:
            if f.get('body') is None or f['tmpl'] == 'pattern' or not f.get('params'):
                continue
            owner = f['q'].rsplit('::', 1)[0].split('::')[-1]
            if (f['kind'] == 'ctor' and owner in ('Token', 'ScannerInfo', 'Node', 'SyntaxError', 'ParseError')) or f['q'] in ('Theo::AST::mk', 'Theo::Node::mk'):
                if not any(f['sig'] == t['sig'] for t in targets):
                    targets.append(f)
    TRANSPARENT_CALLS = ('std::move', 'std::forward')

    def scan(e, transparent, pds, bad):
        e0 = e
        if e0 is None:
            return
        k = e0.get('k')
        if k == 'ref' and e0.get('d') in pds:
            if not transparent:
                bad.append((pds[e0['d']], e0))
            return
        if k in ('paren', 'cast', 'implicit_cast') and e0.get('e') is not None:
            return scan(e0['e'], transparent, pds, bad)
        if k == 'construct' and len(e0.get('args', [])) == 1 and (e0.get('copy_or_move') or (e0.get('rec') or '').startswith(('std::basic_string', 'std::__cxx11::basic_string'))):
            return scan(e0['args'][0], transparent, pds, bad)
        if k == 'construct' and (e0.get('rec') or '').split('::')[-1] in ('Node', 'Token', 'ScannerInfo'):
            for a in e0.get('args', []):
                scan(a, transparent, pds, bad)
            return
        if k == 'init':
            for _, v in e0.get('fields', []):
                scan(v, transparent, pds, bad)
            for a in e0.get('args', []) or []:
                scan(a, transparent, pds, bad)
            return
        if k == 'new':
            for key in ('init', 'e'):
                if isinstance(e0.get(key), dict):
                    scan(e0[key], transparent, pds, bad)
            for a in e0.get('args', []) or []:
                scan(a, transparent, pds, bad)
            return
        if k == 'call' and (e0.get('callee') or '') in TRANSPARENT_CALLS and len(e0.get('args', [])) == 1:
            return scan(e0['args'][0], transparent, pds, bad)
        if k == 'call' and (e0.get('callee') or '') in ('Theo::Node::mk', 'Theo::AST::mk') and e0.get('obj') is None:
            for a in e0.get('args', []):
                scan(a, transparent, pds, bad)      # the node factory (checked as a carrier itself)
            return
        for c in expr_children(e0):
            scan(c, False, pds, bad)
        for a in e0.get('args', []) or []:
            if isinstance(a, dict):
                scan(a, False, pds, bad)
    n = 0
    for f in targets:
        rep.analysed(f)
        pds = {p['d']: p['name'] for p in f['params']}
        bad = []
        for ci in f.get('ctor_inits') or []:
            if ci.get('init') is not None:
                scan(ci['init'], True, pds, bad)
        for st in walk_stmts(f['body']):
            if st['k'] == 'return' and st.get('e') is not None:
                scan(st['e'], True, pds, bad)
            elif st['k'] == 'decl':
                for v in st['vars']:
                    if v.get('init') is not None:
                        scan(v['init'], True, pds, bad)
            elif st['k'] == 'expr':
                e = strip_casts(st['e'])
                if e is not None and e.get('k') == 'assign' and e.get('op', '=') == '=':
                    lt = strip_casts(e['l'])
                    if lt is not None and lt.get('k') == 'ref' and lt.get('d') in pds:
                        bad.append((pds[lt['d']], e))
                    else:
                        scan(e['r'], True, pds, bad)
                elif e is not None and e.get('k') == 'call' and e.get('obj') is not None and (e.get('callee') or '').endswith('::operator='):
                    scan(e['args'][0] if e.get('args') else None, True, pds, bad)
                else:
                    scan(e, False, pds, bad)
                    if f['kind'] == 'ctor' and e is not None and e.get('k') == 'call':
                        # a constructor of a carrier that does something with its fields after storing them (std::replace(filename.begin(), ..))
                        bad.append(('(the stored fields)', e))
        n += 1
        inst = '%s(%s)' % (f['q'].split('::')[-1] if f['kind'] != 'ctor' else f['q'].rsplit('::', 1)[0].split('::')[-1], ', '.join(p['name'] for p in f['params']))
        S9.check(not bad, inst, 'every argument reaches its field unchanged',
                 'the argument %s is not stored as given (%s): text, file or line of a token differ from what the scanner saw - positions move, names are cut or rewritten' % (
                     bad[0][0] if bad else '', show(bad[0][1])[:60] if bad else ''), '%s:%d' % (os.path.relpath(f['file'], sfacts.repo), f['loc'][1]))
    if n == 0:
        S9.unknown('carrier records', 'no constructor of Token/Node and no AST::mk found')
    for en in ('Theo::Token::Type', 'Theo::Node::Type', 'Theo::ParseError::Type'):
        try:
            vals = (sfacts.enum(en) if en in sfacts.enums else afacts.enum(en))['enumerators']
        except AnalysisBroken:
            continue
        seen = {}
        dup = None
        for name_, v_ in vals:
            if v_ in seen and v_ is not None:
                dup = (seen[v_], name_, v_)
            seen.setdefault(v_, name_)
        S9.check(dup is None, 'enum %s' % en.split('Theo::')[-1], '%d enumerators, pairwise distinct values' % len(vals),
                 'the enumerators %s and %s have the same value %s: the two kinds cannot be told apart (an error of one kind is reported and treated as the other)' % (
                     dup[0] if dup else '', dup[1] if dup else '', dup[2] if dup else ''), 'Compiler/include')


def enclosing_conditions(body, target_stmt, target_expr=None):
    """[(condition text, polarity)] of the if-statements enclosing target inside body"""
    res = []

    def contains(s):
        if s is None:
            return False
        if target_stmt is not None:
            return any(x is target_stmt for x in walk_stmts(s))
        return any(x is target_expr for x in walk_all_exprs(s))

    def rec(s):
        if s is None:
            return
        if s['k'] == 'if':
            if contains(s['t']):
                res.append((show(s['c']), True, s['c']))
                rec(s['t'])
                return
            if contains(s.get('e')):
                res.append((show(s['c']), False, s['c']))
                rec(s['e'])
                return
        from .facts import stmt_children
        ss, _ = stmt_children(s)
        for c in ss:
            if contains(c):
                rec(c)
                return
    rec(body)
    return res


# ============================================================================= C15
def c15(rep, tier):
    sfacts = Facts(['Compiler/src/scan.cpp', 'Compiler/src/parse.cpp', 'Compiler/src/compiler.cpp'])
    rep.note_facts(sfacts)
    M = Multi(sfacts)
    scan = sfacts.fn('Theo::scan')
    rep.analysed(scan)
    g = M.cfg(scan)
    main = scan['params'][1]
    files = scan['params'][0]

    # scan() and the helpers of scan.cpp it calls (include handling may live in a helper)
    fam = [scan]
    frontier = [scan]
    for _ in range(2):
        nxt = []
        for fn_ in frontier:
            for x in walk_all_exprs(fn_['body']):
                if x.get('k') == 'call' and x.get('callee_in_repo') and x.get('callee') not in ('create_scanner', 'cleanup_scanner', 'exists_scanner'):
                    tg = [y for y in sfacts.functions if y['q'] == x['callee'] and y['file'] == scan['file'] and y['tmpl'] in ('none', 'inst')]
                    if tg and tg[0] not in fam:
                        fam.append(tg[0])
                        nxt.append(tg[0])
        frontier = nxt
    G_OF = {}

    class EvIn:
        """an event together with the CFG of the function it lives in"""
        def __init__(self, fn_, gg, ev):
            self.fn, self.g, self.ev, self.e = fn_, gg, ev, ev.e

    def fam_calls(pred):
        out = []
        for fn_ in fam:
            gg = M.cfg(fn_)
            for ev in gg.calls():
                if pred(ev.e):
                    out.append(EvIn(fn_, gg, ev))
        return out

    def err_pushes(kind):
        return fam_calls(lambda e: is_call(e, '::push_back') and vec_of(e['obj'], 'ParseError') and kind in show(e))

    def record_of(ev):
        for x in walk_expr(ev.e):
            if x.get('k') == 'init' and (x.get('rec') or '').endswith('ParseError'):
                return dict(x['fields'])
        return {}
    W = 'Compiler/src/scan.cpp:%d'
    I1 = rep.rule('C15.I1', 'an absent main file is reported as MAIN_FILE_NOT_FOUND and requested by name', floor=1)
    ev = err_pushes('MAIN_FILE_NOT_FOUND')
    ok = False
    why = 'no MAIN_FILE_NOT_FOUND error'
    if len(ev) == 1:
        rec = record_of(ev[0])
        fr = strip_conv(rec.get('file_request')) if rec.get('file_request') is not None else None
        okg = guarded(ev[0].g, ev[0].ev, lambda c: in_files(c, main['name']), False)
        ok = fr is not None and fr.get('d') == main['d'] and okg
        why = 'file_request = %s, guarded by !files.contains(main): %s' % (show(fr) if fr else None, okg)
    I1.check(ok, 'scan: missing main', 'errors += {MAIN_FILE_NOT_FOUND, ..., file_request = main} when !files.contains(main)', why, W % scan['loc'][1])
    for fq in ('Theo::scan', 'Theo::parse'):
        fn_ = sfacts.fn(fq)
        gg = M.cfg(fn_)
        fparam = fn_['params'][0]
        for evx in gg.calls():
            e = evx.e
            if (is_call(e, '::operator[]') or is_call(e, '::at')) and e.get('obj') is not None and strip_casts(e['obj']).get('d') == fparam['d']:
                key = show(strip_conv(e['args'][0]))
                okx = guarded(gg, evx, lambda c: in_files(c, key), True)
                I1.check(okx, '%s: %s[%s]' % (fq, fparam['name'], key), 'subscript (which would create the file) only under %s.contains(%s)' % (fparam['name'], key),
                         ('std::map::operator[] creates an empty file named %s when it is absent: the missing file is neither reported nor requested' % key)
                         if is_call(e, '::operator[]') else
                         ('the content of %s is taken without a test that the file is there (%s): an absent file ends the compilation instead of being reported and requested'
                          % (key, 'dereferenced result of find()' if e.get('from_find') else 'at() throws')),
                         '%s:%d' % (os.path.relpath(fn_['file'], sfacts.repo), e['loc'][0]))
    I2 = rep.rule('C15.I2', 'an include that is not followed by a quoted name is reported', floor=1)
    ev = err_pushes('EXPECTED_FILENAME')
    ok = False
    all_ev = ev
    for ev in [[x] for x in all_ev]:      # one of the reports has to be the unconditional one (a further, defensive report elsewhere does not matter)
        if ok:
            break
        # the error must be recorded whenever (no token) or (token is not FNAME): the guard is their disjunction, taken
        conds = [(c, l) for c, l, cn in ev[0].g.guards_of(ev[0].ev)]
        def is_disj(c):
            c = strip_casts(c)
            if c.get('k') != 'bin' or c['op'] != '||':
                return False
            parts = [show(strip_casts(c['l'])).replace(' ', ''), show(strip_casts(c['r'])).replace(' ', '')]
            sv = status_vars(M, ev[0].fn)
            return any(is_eof_test(x, sv) for x in (c['l'], c['r'])) and any('FNAME' in p and '!=' in p for p in parts)
        inc_guard = guarded(ev[0].g, ev[0].ev, lambda c: c.get('k') == 'bin' and c['op'] == '==' and 'INCLUDE' in show(c), True)
        if not inc_guard and ev[0].fn is not scan:
            # the helper is only called under the include test
            for ce in fam_calls(lambda e: e.get('callee') == ev[0].fn['q']):
                inc_guard = inc_guard or guarded(ce.g, ce.ev, lambda c: c.get('k') == 'bin' and c['op'] == '==' and 'INCLUDE' in show(c), True)
        ok = any(l is True and is_disj(c) for c, l in conds) and inc_guard
    I2.check(ok, 'scan: include without name', 'EXPECTED_FILENAME when the next token is missing or not FNAME', 'the malformed include is not reported', W % scan['loc'][1])
    I3 = rep.rule('C15.I3', 'an include of an absent file is reported as FILE_NOT_FOUND and requested by its unquoted name', floor=1)
    ev = err_pushes('FILE_NOT_FOUND')
    ev = [e for e in ev if 'MAIN_FILE_NOT_FOUND' not in show(e.e)]
    ok = False
    why = 'no FILE_NOT_FOUND error'
    namevar = None
    if len(ev) == 1:
        rec = record_of(ev[0])
        fr = strip_conv(rec.get('file_request')) if rec.get('file_request') is not None else None
        if fr is not None and fr.get('k') == 'ref' and guarded(ev[0].g, ev[0].ev, lambda c: in_files(c, fr['name']), False):
            namevar = fr
            # the name is the token text without its quotes
            defs = M.defs(ev[0].fn).get(fr['d'], [])
            def shown(x):
                try:
                    return show(M.inline_value(ev[0].fn, x))       # named constants of the function folded in (quotes = 2)
                except Exception:
                    return show(x)
            txt = ' '.join(shown(d[1]) for d in defs if d[1] is not None)
            # a helper that strips the quotes: its single return expression takes part
            for d in defs:
                o = strip_conv(strip_copies(strip_casts(d[1]))) if d[1] is not None else None
                if o is not None and o.get('k') == 'call' and o.get('callee_in_repo') and o.get('obj') is None:
                    h = sfacts.fn(o.get('callee'), optional=True)
                    if h is not None and h.get('body') is not None:
                        rets = [x for x in walk_stmts(h['body']) if x['k'] == 'return' and x.get('e') is not None]
                        others = [x for x in walk_stmts(h['body']) if x['k'] not in ('return', 'block')]
                        if len(rets) == 1 and not others:
                            txt += ' ' + show(rets[0]['e'])
            ok = 'substr(1' in txt and 'size() - 2' in txt and '.text' in txt
            why = 'name computed as %s' % txt
    if len(ev) == 1 and namevar is not None:
        extra_g = []
        for cond, label, cn in ev[0].g.guards_of(ev[0].ev):
            if not isinstance(label, bool):
                continue
            ctx_ = show(cond)
            if any(in_files(x, namevar['name']) for x in walk_expr(cond)) or 'INCLUDE' in ctx_ or 'FNAME' in ctx_ or is_call(strip_casts(cond), '::empty') or \
                    mentions_eof_test(cond, status_vars(M, ev[0].fn)) or (getattr(cn, 'stmt', None) is not None and cn.stmt.get('k') in ('while', 'for', 'do')):
                continue
            # a guard whose other side reports an error of its own before going on is no way around a report
            g_ = ev[0].g
            other = [n for n in g_.nodes if n.kind == 'branch' and n.of is cn and isinstance(n.label, bool) and n.label != label]
            def reports(n):
                return any((is_call(x.e, '::push_back') or is_call(x.e, '::emplace_back')) and x.e.get('obj') is not None and 'errors' in show(x.e['obj']) for x in n.events)
            silent = False
            seen_, work_ = set(), list(other)
            while work_ and not silent:
                n = work_.pop()
                if n.id in seen_ or reports(n):
                    continue
                seen_.add(n.id)
                if n is g_.exit or (n.kind == 'cond' and n.stmt is not None and n.stmt.get('k') in ('while', 'for', 'do', 'rangefor')) or n is ev[0].ev.node:
                    silent = True
                work_.extend(n.succ)
            if other and not silent:
                continue
            extra_g.append(cond)
        if extra_g:
            I3.violation('scan: every absent include is reported', 'the FILE_NOT_FOUND error is recorded only under a further condition (%s): an include of an absent file can pass without an '
                         'error at this place' % show(extra_g[0])[:60], W % ev[0].ev.e['loc'][0], witness={'input': 'two includes of the same absent file'})
    I3.check(ok, 'scan: missing include target', 'FILE_NOT_FOUND with file_request = text.substr(1, size-2) when !files.contains(name)', why, W % scan['loc'][1])
    I4 = rep.rule('C15.I4', 'a file is pushed on the scanner stack only if it exists and is not already being scanned; the recursion test looks at '
                            'every active scanner and records RECURSIVE_INCLUDE', floor=3)
    pushes_in = fam_calls(lambda e: is_call(e, '::push_back') and vec_of(e['obj'], 'Scanner'))
    loops = [s for s in walk_stmts(scan['body']) if s['k'] in ('while', 'for', 'do')]
    for pin in pushes_in:
        ev, g = pin.ev, pin.g
        scan_ = pin.fn
        crt = [x for x in walk_expr(ev.e) if is_call(x, 'create_scanner')]
        if len(crt) != 1:
            I4.unknown('scan: lex_stack.push_back', 'argument is not create_scanner(...)')
            continue
        key = show(strip_conv(crt[0]['args'][1]))
        exists = guarded(g, ev, lambda c: in_files(c, key), True)
        inloop = (scan_ is not scan) or (loops and any(x is ev.e for x in walk_all_exprs(loops[0]['body'])))
        notactive = guarded(g, ev, lambda c: is_active_test(c, key), False)
        # the variable holding the key must not be redefined between the tests and the push
        kv = strip_conv(crt[0]['args'][1])
        stale = []
        if kv.get('k') == 'ref' and kv.get('dk') == 'var':
            for kind, rhs, node in M.defs(scan_).get(kv['d'], []):
                if kind == 'init':
                    continue
                dev = g.ev(node) if node.get('sid') in g.by_sid else None
                if dev is None:
                    continue
                for cond, label, cn in g.guards_of(ev):
                    if any(in_files(x, key) or is_active_test(x, key) for x in walk_expr(cond)) and cn.id in g.dom[dev.node.id]:
                        stale.append((show(cond), show(node)))
        if stale:
            I4.violation('scan: push %s' % key, 'the key is modified (%s) after it was tested (%s): the tests looked at a different name than the one that is scanned' % (stale[0][1][:60], stale[0][0][:60]),
                         W % ev.e['loc'][0])
            continue
        I4.check(exists and (notactive or not inloop), 'scan: push %s' % key, 'dominated by files.contains(%s)%s' % (key, ' and !exists_scanner(lex_stack, %s)' % key if inloop else ' (initial push, empty stack)'),
                 'a scanner is pushed without %s' % ('existence test' if not exists else 'recursion test'), W % ev.e['loc'][0])
    # an include directive is never dropped silently: on every path from the INCLUDE test back to the head of the scanning loop a
    # scanner is pushed or an error is recorded
    gS = M.cfg(scan)
    if loops:
        heads = [nd for nd in gS.nodes if nd.kind == 'cond' and nd.stmt is loops[0]]
        inc_br = [nd for nd in gS.nodes if nd.kind == 'branch' and nd.label is True and nd.of is not None and nd.of.exprs and 'INCLUDE' in show(nd.of.exprs[0]) and
                  any(x is nd.of.stmt for x in walk_stmts(loops[0]['body']))]
        if heads and inc_br:
            done_nodes = set()
            for ev_ in gS.calls():
                if (is_call(ev_.e, '::push_back') or is_call(ev_.e, '::emplace_back')) and ev_.e.get('obj') is not None and \
                        (vec_of(ev_.e['obj'], 'Scanner') or vec_of(ev_.e['obj'], 'ParseError')) and not ev_.conditional:
                    done_nodes.add(ev_.node.id)
                elif ev_.e.get('callee_in_repo') and ev_.e.get('obj') is None and any(vec_of(a, 'Scanner') or vec_of(a, 'ParseError') for a in ev_.e.get('args', [])):
                    # a helper that is handed the stack / the error list and pushes onto one of them on every path (its body is covered by the family rules)
                    h_ = sfacts.fn(ev_.e.get('callee'), optional=True)
                    if h_ is not None and h_.get('body') is not None:
                        gh_ = M.cfg(h_)
                        hp = [x for x in gh_.calls() if (is_call(x.e, '::push_back') or is_call(x.e, '::emplace_back')) and x.e.get('obj') is not None and
                              (vec_of(x.e['obj'], 'Scanner') or vec_of(x.e['obj'], 'ParseError'))]
                        # every return of the helper is dominated by one of the pushes
                        if hp and all(any(x.node.id in gh_.dom[r.id] for x in hp) for r in gh_.returns()):
                            done_nodes.add(ev_.node.id)
            seen_, work_, silent = set(), list(inc_br[0].succ), None
            while work_:
                nd = work_.pop()
                if nd.id in seen_ or nd.id in done_nodes:
                    continue
                seen_.add(nd.id)
                if nd.id == heads[0].id:
                    silent = nd
                    break
                work_.extend(nd.succ)
            last_skip = None
            if silent is not None:
                # name the statement that skips: a continue in the include branch that no push/error dominates
                for st_ in walk_stmts(inc_br[0].of.stmt.get('t') or {'k': 'block', 's': []}):
                    if st_['k'] == 'continue':
                        nds = [nd for nd in gS.nodes if nd.stmt is st_]
                        last_skip = st_
            I4.check(silent is None, 'scan: every include directive has an effect', 'each path through the include branch pushes a scanner or records an error',
                     'an include directive can be skipped without a trace (a path from the INCLUDE test back to the loop head neither pushes a scanner nor records an error): the '
                     'tokens of the named file are missing from the stream - e.g. a second, non-nested include of a file', W % ((last_skip or loops[0])['loc'][0]),
                     witness={'input': 'main: include "a" include "a"   a: x0 := x0 + 1'} if silent is not None else None)
    es = sfacts.fn('exists_scanner')
    rep.analysed(es)
    okes = False
    stackp = es['params'][0]
    for st in walk_stmts(es['body']):
        over_all = False
        if st['k'] == 'rangefor' and strip_casts(st['range']).get('d') == stackp['d']:
            over_all = True
        if st['k'] == 'for' and st.get('init') and st['init']['k'] == 'decl' and st.get('c') is not None and st.get('inc') is not None:
            iv = st['init']['vars'][0]
            c = strip_casts(st['c'])
            over_all = strip_casts(iv.get('init')).get('v') == 0 and c.get('k') == 'bin' and c['op'] in ('<', '!=') and strip_casts(c['l']).get('d') == iv['d'] and \
                is_call(strip_casts(c['r']), '::size') and \
                strip_casts(strip_casts(c['r'])['obj']).get('d') == stackp['d'] and '++' in show(st['inc'])
        if over_all:
            ifs = [x for x in walk_stmts(st['body']) if x['k'] == 'if']
            rets_in = [x for x in walk_stmts(st['body']) if x['k'] == 'return']
            okes = len(ifs) == 1 and ('==' in show(ifs[0]['c'])) and es['params'][1]['name'] in show(ifs[0]['c']) and len(rets_in) == 1 and \
                strip_casts(rets_in[0]['e']).get('v') is True and not [x for x in walk_stmts(st['body']) if x['k'] in ('break',)]
    anyof = [e for e in walk_all_exprs(es['body']) if e.get('k') == 'call' and (e.get('callee') or '') in ('std::any_of', 'std::find_if', 'std::ranges::any_of')]
    rets = [x for x in walk_stmts(es['body']) if x['k'] == 'return']
    if anyof and len(rets) == 1:
        okes = 'begin()' in show(anyof[0]) and 'end()' in show(anyof[0])
    else:
        okes = okes and len(rets) == 2 and strip_casts(rets[-1]['e']).get('v') is False
    I4.check(okes, 'exists_scanner', 'compares the key with every element of the stack; false only after the whole stack', 'the recursion test does not inspect the whole stack', W % es['loc'][1])
    # ... by full equality of the two names
    keyp = es['params'][1]
    for e in walk_all_exprs(es['body']):
        if e.get('k') != 'call' or not any(x.get('k') == 'ref' and x.get('d') == keyp['d'] for a in (e.get('args') or []) + ([e['obj']] if e.get('obj') is not None else []) for x in walk_expr(a)):
            continue
        short = (e.get('callee') or '').split('::')[-1]
        partial = None
        if short == 'compare' and len([a for a in e.get('args', []) if not a.get('default_arg')]) >= 3:
            partial = 'compare(pos, len, key) looks at a part of the name only'
        elif short in ('starts_with', 'ends_with', 'find', 'rfind', 'contains', 'find_first_of', 'strncmp', 'strncasecmp', 'strstr', 'substr'):
            partial = '%s() is no equality test' % short
        elif short in ('strcasecmp', 'stricmp'):
            partial = '%s() ignores the case of letters' % short
        if partial:
            I4.violation('exists_scanner: names are compared for equality', '%s: a file whose name merely resembles the name of an open file (e.g. "add" while "add_test.theo" is being scanned) is '
                         'reported as a recursive include and its tokens are dropped' % partial, W % e['loc'][0], witness={'files': 'add_test.theo: include "add"'})
    g = M.cfg(scan)
    ev = err_pushes('RECURSIVE_INCLUDE')
    ok = len(ev) == 1 and guarded(ev[0].g, ev[0].ev, lambda c: is_call(c, 'exists_scanner'), True)
    I4.check(ok, 'scan: recursive include reported', 'RECURSIVE_INCLUDE recorded in the failing branch', 'a recursive include is skipped silently', W % scan['loc'][1])
    I5 = rep.rule('C15.I5', 'exactly the names of absent files are returned as file requests', floor=2)
    parse = sfacts.fn('Theo::parse')
    comp = sfacts.fn('Theo::compile')
    rep.analysed(parse, comp)
    okp = False
    kinds = set()
    for f in sfacts.functions:
        if f['kind'] == 'lambda' and f.get('parent', '').startswith('Theo::parse'):
            for st in walk_stmts(f['body']):
                if st['k'] == 'if':
                    kinds = set(x['name'] for x in walk_expr(st['c']) if x.get('k') == 'ref' and x.get('dk') == 'enumerator')
                    pb = [e for e in walk_all_exprs(st['t']) if is_call(e, '::push_back') and 'file_request' in show(e)]
                    okp = bool(pb) and st.get('e') is None
    gparse = M.cfg(parse)
    for st in walk_stmts(parse['body']):
        if st['k'] == 'rangefor' and 'errors' in show(st['range']):
            for i2 in walk_stmts(st['body']):
                if i2['k'] == 'if' and any(is_call(e, '::push_back') and 'file_request' in show(e) for e in walk_all_exprs(i2['t'])):
                    cnd = gparse.expanded(i2['c'])
                    kinds = set(x['name'] for x in walk_expr(cnd) if x.get('k') == 'ref' and x.get('dk') == 'enumerator')
                    okp = True
    if not okp or kinds != {'FILE_NOT_FOUND', 'MAIN_FILE_NOT_FOUND'}:
        # general form: some function of parse.cpp pushes <error>.file_request under a test of the error kind, possibly through a
        # predicate; evaluated for every error kind
        from .enumeval import EnumEval, Unsupported as EUnsupported
        ekinds = [n for n, _ in sfacts.enum('Theo::ParseError::Type')['enumerators']]

        def is_subj(x, env):
            return x is not None and x.get('k') == 'member' and x.get('name') == 't' and 'ParseError' in (strip_casts(x['base']).get('cty') or '')
        for f in sfacts.functions:
            if f.get('body') is None or not f['file'].endswith('parse.cpp') or f['tmpl'] == 'pattern':
                continue
            pushes_ = [e for e in walk_all_exprs(f['body']) if is_call(e, '::push_back') and 'file_request' in show(e)]
            if not pushes_:
                continue
            try:
                ee = EnumEval(sfacts, is_subj, lambda c: is_call(c, '::push_back') and 'file_request' in show(c), carrier='ParseError')
                # the collecting loop body is evaluated per error kind
                body = f['body']
                for st in walk_stmts(f['body']):
                    if st['k'] == 'rangefor' and any(x is pushes_[0] for x in walk_all_exprs(st['body'])):
                        body = st['body']
                tb = ee.table({'body': body}, ekinds)
                kinds = set(K for K, effs in tb.items() if effs)
                okp = True
            except EUnsupported:
                # "whoever carries a request": then the kinds are those the scanner constructs with a file_request
                guards_txt = ' '.join(show(st['c']) for st in walk_stmts(f['body']) if st['k'] == 'if' and any(x is pushes_[0] for x in walk_all_exprs(st['t'])))
                if 'file_request' in guards_txt and ('empty' in guards_txt or 'size' in guards_txt):
                    ks = set()
                    for f2 in sfacts.functions:
                        if f2.get('body') is None or not f2['file'].endswith('scan.cpp'):
                            continue
                        for x in walk_all_exprs(f2['body']):
                            if x.get('k') == 'init' and 'ParseError' in (x.get('rec') or ''):
                                fl = dict(x['fields'])
                                fr = fl.get('file_request')
                                tt = fl.get('t') or fl.get('type')
                                fr0 = strip_conv(strip_copies(strip_casts(fr))) if fr is not None else None
                                while fr0 is not None and fr0.get('k') == 'construct' and fr0.get('args'):
                                    fr0 = strip_casts(fr0['args'][0])
                                empty_req = fr0 is not None and fr0.get('k') == 'str' and fr0.get('v') == ''
                                if fr is not None and tt is not None and not empty_req:
                                    ks |= set(y['name'] for y in walk_expr(tt) if y.get('k') == 'ref' and y.get('dk') == 'enumerator')
                    if ks:
                        kinds = ks
                        okp = True
                    I5.violation('parse: requests of empty names', 'requests are collected only when the request string is non-empty: an absent file whose name is the empty string '
                                 '(include "" , or an empty main key) is reported but not returned as a file request', 'Compiler/src/parse.cpp:%d' % pushes_[0]['loc'][0],
                                 witness={'input': 'main file: include ""'})
    I5.check(okp and kinds == {'FILE_NOT_FOUND', 'MAIN_FILE_NOT_FOUND'}, 'parse: requests collected', 'file_request of FILE_NOT_FOUND and MAIN_FILE_NOT_FOUND errors',
             'requests are collected for error kinds %s' % sorted(kinds), 'Compiler/src/parse.cpp:%d' % parse['loc'][1])
    rets = [s for s in walk_stmts(parse['body']) if s['k'] == 'return']
    okr = len(rets) == 1 and 'file_requests' in show(rets[0]['e'])
    asg = [e for e in walk_all_exprs(comp['body']) if (e.get('k') == 'call' and (e.get('callee') or '').endswith('::operator=') and field_chain(e['obj'])[1][-1:] == ['file_requests'])]
    okc = len(asg) == 1 and 'missing_files' in show(asg[0]['args'][0])
    I5.check(okr and okc, 'compile: requests returned', 'result.file_requests = parse().missing_files', 'file requests are not handed to the caller', 'Compiler/src/compiler.cpp:%d' % comp['loc'][1])
    I7 = rep.rule('C15.I7', 'parse() starts scanning at the main key exactly as given: the key is handed to scan() unchanged and is never '
                            'embedded in scanned text (a quoted name cannot carry every key)', floor=2)
    mainp = [p_ for p_ in parse['params'] if p_['name'] == 'main' or 'FileName' in (p_.get('ty') or '')]
    mainp = [p_ for p_ in parse['params'] if p_['name'] == 'main'] or mainp[-1:]
    scalls = [ev for ev in gparse.calls() if ev.e.get('callee') == 'Theo::scan']
    if len(scalls) != 1 or not mainp:
        I7.unknown('parse: scan call', '%d call(s) of scan() in parse()' % len(scalls))
    else:
        md = mainp[0]['d']
        a1 = strip_casts(strip_copies(scalls[0].e['args'][1]))
        direct = a1.get('k') == 'ref' and a1.get('d') == md
        if not direct and a1.get('k') == 'ref':
            defs_ = M.defs(parse).get(a1.get('d'), [])
            srcs = [strip_casts(strip_copies(x[1])) for x in defs_ if x[1] is not None]
            direct = bool(srcs) and all(x.get('k') == 'ref' and x.get('d') == md for x in srcs)
        embedded = []
        for e in walk_all_exprs(parse['body']):
            if e.get('k') == 'call' and e.get('obj') is not None and (e.get('callee') or '').split('::')[-1] in ('insert', 'insert_or_assign', 'emplace', 'try_emplace', 'operator=', 'append', 'operator+=') \
                    and 'map<' in (strip_casts(e['obj']).get('cty') or '') + (strip_casts(strip_casts(e['obj']).get('obj') or {}).get('cty') or ''):
                for a in e['args'][1:] if (e.get('callee') or '').split('::')[-1] != 'insert' else e['args']:
                    # the mapped value (file content) must not be built from the key
                    vals = [a]
                    if is_call(strip_casts(strip_copies(a)), 'std::make_pair') or (strip_casts(strip_copies(a)).get('callee') or '').startswith('std::make_pair'):
                        vals = strip_casts(strip_copies(a))['args'][1:]
                    for v in vals:
                        if any(x.get('k') == 'ref' and x.get('d') == md for x in walk_expr(v)) and any(x.get('k') == 'str' for x in walk_expr(v)):
                            embedded.append(e)
        if direct:
            I7.ok('parse: scan(files, main)', 'the main key is passed on unchanged', 'Compiler/src/parse.cpp:%d' % scalls[0].e['loc'][0])
        elif embedded:
            I7.violation('parse: scan(files, main)', 'scanning starts at %s, a generated file that names the main file in an include directive' % show(scalls[0].e['args'][1]),
                         'Compiler/src/parse.cpp:%d' % scalls[0].e['loc'][0])
        else:
            I7.unknown('parse: scan(files, main)', 'scanning starts at %s, not at the main key as given' % show(scalls[0].e['args'][1]))
        I7.check(not embedded, 'parse: file contents', 'no file content is built from the main key', 'a file content is built from the main key (%s): a key containing a quotation mark (or a line break) cannot be '
                 'named by an include directive, so a present main file is not scanned and a name nobody used is requested' % (show(embedded[0])[:80] if embedded else ''),
                 'Compiler/src/parse.cpp:%d' % (embedded[0]['loc'][0] if embedded else parse['loc'][1]), witness={'main key': 'my "file".theo'} if embedded else None)
    I6 = rep.rule('C15.I6', 'termination (structural): every iteration reads a token or pops a scanner; a file is pushed only when it is not '
                            'already on the stack, so the depth is bounded by the number of files', floor=1)
    ok6 = False
    if loops:
        body = loops[0]['body']
        gl = g
        ylex = [ev for ev in g.calls() if is_call(ev.e, 'yylex') and any(x is ev.e for x in walk_all_exprs(body))]
        # the first yylex is executed on every iteration: it is in the first statements of the body, not under a condition
        firsts = [y for y in ylex if not enclosing_conditions(body, None, target_expr=y.e)]
        ok6 = len(firsts) >= 1 and show(loops[0]['c']).replace(' ', '') == '!lex_stack.empty()'
    I6.check(ok6, 'scan: progress', 'unconditional yylex per iteration; loop runs while the stack is non-empty', 'an iteration may make no progress', W % scan['loc'][1])
