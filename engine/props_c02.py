"""C02 (compilation is total) - the structural clauses: null-safety of syntax-tree pointers (E3),
cursor/index safety, emptiness of sequences at back()/front()/[0], resource pairing, result dichotomy,
well-formed error records.  Undecided (stated in DESIGN.md): bounds on recursion depth / work,
bad_alloc, UB inside libstdc++/flex internals, the LR driver's stack discipline (depends on C13)."""
import json
import os
import re

from .facts import (Facts, AnalysisBroken, VERIF, walk_expr, walk_all_exprs, walk_stmts, show, strip_casts, strip_copies,
                    member_path, strip_conv)
from .cfg import CFG
from .genrules import GenModel, is_call, field_chain, callers_of
from .nullshape import ParserShapes, GenShapes

LIB_UNITS = ['Compiler/src/scan.cpp', 'Compiler/src/parse.cpp', 'Compiler/src/macro.cpp', 'Compiler/src/gen.cpp',
             'Compiler/src/compiler.cpp', 'Compiler/src/ast.cpp']


def rel(facts, path):
    return os.path.relpath(path, facts.repo)


def load_exceptions():
    return json.load(open(os.path.join(VERIF, 'spec', 'exceptions.json')))


class Multi:
    """GenModel-like helper over an arbitrary Facts (cfg/defs/origin per function)."""

    def __init__(self, facts):
        self.facts = facts
        self._cfg, self._defs = {}, {}
        self.gm = GenModel.__new__(GenModel)
        self.gm.facts = facts
        self.gm._cfg, self.gm._defs = self._cfg, self._defs

    def cfg(self, f):
        return self.gm.cfg(f)

    def origin(self, f, e):
        return self.gm.origin(f, e)

    def defs(self, f):
        return self.gm.defs(f)

    def same_var(self, a, b):
        return self.gm.same_var(a, b)

    def strval(self, f, e):
        return self.gm.strval(f, e)

    def __getattr__(self, name):
        # everything else GenModel offers over (facts, cfg, defs)
        if name in ('gm', 'facts', '_cfg', '_defs'):
            raise AttributeError(name)
        return getattr(self.gm, name)


def c02(rep, tier):
    # ------------------------------------------------------------------ a: null-safety
    A = rep.rule('C02.a', 'no dereference of a syntax-tree pointer that may be NULL (parser: every execution; generator: every '
                          'error-free tree)', floor=60)
    pfacts = Facts(['Compiler/src/parse.cpp', 'Compiler/src/ast.cpp'])
    rep.note_facts(pfacts)
    ps = ParserShapes(pfacts).run()
    gfacts = Facts(['Compiler/src/gen.cpp'])
    rep.note_facts(gfacts)
    gs = GenShapes(ps, gfacts).run()
    n_sites = len(ps.sites)
    n_gram = len([q for q, sm in ps.summ.items() if sm['returns_node']])
    rep.extra['ast_allocation_sites'] = n_sites
    rep.extra['grammar_functions'] = n_gram
    rep.extra['derefs_parser'] = ps.derefs
    rep.extra['derefs_generator'] = gs.derefs
    if n_sites < 40 or n_gram < 10:
        A.unknown('shape extraction', 'only %d allocation sites / %d grammar functions found (floors 40 / 10)' % (n_sites, n_gram))
    seen_ok = 0
    for engine, reports, derefs in ((ps, ps.reports, ps.derefs), (gs, gs.reports, gs.derefs)):
        for key, r in sorted(reports.items()):
            where = '%s:%d' % (rel(pfacts, r['file']), r['loc'][0])
            wit = {'pointer': r['base']}
            if r.get('witness'):
                wit['chain'] = r['witness']
            if r.get('la') is not None:
                wit['lookahead'] = r['la'] if r['la'] == 'any' else r['la'][:8]
            A.violation(key, '%s may be NULL here' % r['base'], where, witness=wit)
    # discharged obligations: one per deref site that was evaluated and found safe
    for engine, unit in ((ps, 'Compiler/src/parse.cpp'), (gs, 'Compiler/src/gen.cpp')):
        reported = set((r['fn'], r['expr']) for r in engine.reports.values())
        for (fnq, sid, txt, loc) in sorted(engine.deref_sites, key=lambda x: (x[0], x[3], x[2])):
            if (fnq, txt) in reported:
                continue
            A.ok('%s: %s @%s' % (fnq, txt, ':'.join(map(str, loc))), 'value set of %s excludes NULL on every path' % txt.rsplit('->', 1)[0],
                 '%s:%d' % (unit, loc[0] if loc else 0))
    for f in pfacts.functions + gfacts.functions:
        if f['file'].endswith(('parse.cpp', 'gen.cpp')):
            rep.analysed(f)

    lib = Facts(LIB_UNITS + (['Compiler/src/ParserGenerator/grammar.cpp', 'Compiler/src/ParserGenerator/lrdea.cpp'] if tier == 'thorough' else []))
    rep.note_facts(lib)
    M = Multi(lib)

    def fn(q, suffix=None):
        return lib.fn(q, unit_suffix=suffix)

    # ------------------------------------------------------------------ b: cursors and indices
    B = rep.rule('C02.b', 'token cursors never move past the end marker and token indices are clamped or guarded', floor=14)
    # (i) ParseState::pos
    for f in lib.functions_in('parse.cpp'):
        g = None
        for e in walk_all_exprs(f['body']):
            isinc = e.get('k') == 'un' and e['op'] in ('++', '--') and 'iterator' in (e['e'].get('cty') or '') or \
                (e.get('k') == 'call' and e.get('op') in ('++', '--', '+=') and e.get('obj') is not None and 'iterator' in (e['obj'].get('cty') or ''))
            if not isinc:
                continue
            tgt = e.get('e') or e.get('obj')
            if field_chain(tgt)[1][-1:] != ['pos'] and show(tgt) != 'pos':
                continue
            g = g or M.cfg(f)
            ev = g.ev(e)
            inst = '%s: %s' % (f['q'], show(e))
            if f.get('rec') != 'ParseState':
                B.violation(inst, 'the token cursor is advanced outside the ParseState cursor methods', '%s:%d' % (rel(lib, f['file']), e['loc'][0]))
                continue
            guarded = False
            for cond, label, cn in g.guards_of(ev):
                lc = ps.la_cond(cond)
                if lc is not None:
                    sel = lc[0] if label is True else lc[1] if label is False else None
                    if sel is not None and 'T_EOF' not in sel:
                        guarded = True
            B.check(guarded, inst, 'dominated by lookahead() != T_EOF', 'cursor can be advanced past the end-of-file token',
                    '%s:%d' % (rel(lib, f['file']), e['loc'][0]))
    # (ii) ExtractionState::tokens subscripts
    mfns = {f['q']: f for f in lib.functions_in('macro.cpp')}
    look = mfns.get('lookahead')
    for f in lib.functions_in('macro.cpp'):
        g = None
        for e in walk_all_exprs(f['body']):
            if not (is_call(e, '::operator[]') and e.get('obj') is not None and field_chain(e['obj'])[1] == ['tokens'] and
                    'ExtractionState' in (strip_casts(field_chain(e['obj'])[0]).get('cty') or '')):
                continue
            idx = strip_casts(e['args'][0])
            inst = '%s: %s' % (f['q'], show(e))
            where = '%s:%d' % (rel(lib, f['file']), e['loc'][0])
            o = M.origin(f, idx)
            if is_clamp(o, lib):
                B.ok(inst, 'index clamped to size()-1', where)
                continue
            ip = field_chain(o)
            if ip[1] == ['tok_pos']:
                if f['q'] == 'lookahead':
                    g = g or M.cfg(f)
                    ev = g.ev(e)
                    okb = any(label is False and '>=' in show(cond) and 'size' in show(cond) for cond, label, cn in g.guards_of(ev))
                    B.check(okb, inst, 'guarded by tok_pos >= size() return', 'unguarded subscript', where)
                    continue
                # every call site sits in a non-EOF case of switch(lookahead(es)) - directly, or the calling helper is itself only
                # called from such cases and does not move the cursor before the call
                def sites_non_eof(fq, depth=0, direct=None):
                    cs_ = [(g2, c2) for g2 in lib.functions_in('macro.cpp') for c2 in walk_all_exprs(g2['body'])
                           if c2.get('k') == 'call' and c2.get('callee') == fq]
                    if direct is not None:
                        cs_ = [direct]
                    if not cs_:
                        return False, 0
                    total = 0
                    for g2, c2 in cs_:
                        gg = M.cfg(g2)
                        ev2 = gg.ev(c2)
                        good = None
                        for cond, label, cn in gg.guards_of(ev2):
                            if is_call(strip_casts(cond), 'lookahead') and isinstance(label, tuple) and label[0] == 'case':
                                labs = label[1]
                                if 'default' in labs:
                                    # default: all explicit labels of the switch must include T_EOF
                                    alll = [l for b2 in cn.succ if b2.kind == 'branch' for l in b2.label[1]]
                                    good = 'T_EOF' in alll
                                else:
                                    good = 'T_EOF' not in labs
                                # nothing may advance the cursor between the switch and the call
                                adv = [x for x in gg.calls() if (x.e.get('callee') or '') in ('advance', 'match') and
                                       cn.id in gg.dom[x.node.id] and gg.can_follow(x, ev2) and x is not ev2]
                                if adv:
                                    good = False
                        if good is None and depth < 2:
                            # unguarded here: the enclosing helper must not advance before the call and must itself be called under the guard
                            adv = [x for x in gg.calls() if (x.e.get('callee') or '') in ('advance', 'match') and gg.can_follow(x, ev2) and x is not ev2]
                            good = (not adv) and sites_non_eof(g2['q'], depth + 1)[0]
                        if not good:
                            return False, total
                        total += 1
                    return True, total
                # the subscript may itself sit in a non-EOF case (the helper inlined into the grammar function)
                gd = M.cfg(f)
                here = any(is_call(strip_casts(cond), 'lookahead') and isinstance(label, tuple) and label[0] == 'case'
                           for cond, label, cn in gd.guards_of(gd.ev(e)))
                if here:
                    okc, ncs = sites_non_eof(f['q'], 2, direct=(f, e))
                    B.check(okc, inst, 'in a non-EOF case of switch(lookahead(es)) with no advance in between',
                            'tokens[tok_pos] may be evaluated at end of input', where)
                    continue
                okc, ncs = sites_non_eof(f['q'])
                cs = [None] * ncs
                B.check(okc, inst, 'all %d call sites are in non-EOF cases of switch(lookahead(es)) with no advance in between' % len(cs),
                        'tokens[tok_pos] may be evaluated at end of input', where)
                continue
            if o.get('k') == 'bin' and o['op'] == '-' and field_chain(o['l'])[1] == ['tok_pos']:
                g = g or M.cfg(f)
                ev = g.ev(e)
                from .genrules import guard_implies
                okm = any(isinstance(label, bool) and guard_implies(cond, label, lambda z: is_call(z, 'match'), True) for cond, label, cn in g.guards_of(ev))
                B.check(okm, inst, 'tok_pos-1 under a successful match (which advanced from a valid index)', 'tok_pos-1 not guarded by a successful match', where)
                continue
            B.unknown(inst, 'index form not recognised: %s' % show(idx), where)
    # (iii) LR driver column bound
    mac = Facts(['Compiler/src/macro.cpp'])
    rep.note_facts(mac)
    parse_fns = [f for f in mac.functions if f['q'].endswith('>::parse') and f['tmpl'] == 'inst']
    if not parse_fns:
        B.unknown('LRParser::parse', 'no instantiation found')
    for f in parse_fns[:1]:
        rep.analysed(f)
        mm = Multi(mac)
        g = mm.cfg(f)
        subs = [e for e in walk_all_exprs(f['body']) if is_call(e, '::operator[]') and is_call(strip_casts(e.get('obj')), '::operator[]')
                and field_chain(strip_casts(e['obj'])['obj'])[1][-1:] == ['action']]
        okall = bool(subs)
        for e in subs:
            ev = g.ev(e)
            col = strip_casts(e['args'][0])
            good = False
            colx = show(g.expanded(col))
            for cond, label, cn in g.guards_of(ev):
                c = strip_casts(cond)
                if label is False and c.get('k') == 'bin' and c['op'] in ('<=',) and 'size' in show(c['l']) and (mm.same_var(c['r'], col) or show(strip_casts(c['r'])) == colx):
                    good = True
                if label is True and c.get('k') == 'bin' and c['op'] in ('<',) and 'size' in show(c['r']) and (mm.same_var(c['l'], col) or show(strip_casts(c['l'])) == colx):
                    good = True
            okall = okall and good
        B.check(okall, 'LRParser::parse: action[s][a]', 'all %d subscripts dominated by the column-bound test' % len(subs),
                'parse table indexed by a terminal without a bound test', 'Compiler/include/ParserGenerator/lrparser.hpp:%d' % f['loc'][1])
    # (iv) token_string bound
    ts = lib.fn('Theo::token_string')
    tm = lib.globals.get('token_map')
    if tm is None:
        B.unknown('token_string', 'token_map not found')
    else:
        mlen = re.search(r'\[(\d+)\]', tm['cty'])
        lits = [x['v'] for x in walk_all_exprs(ts['body']) if x.get('k') == 'int' and x['v'] > 1]
        lits += [g2['const_value'] for x in walk_all_exprs(ts['body']) if x.get('k') == 'ref' and x.get('dk') == 'global'
                 for g2 in [lib.globals.get(x.get('q'))] if g2 and g2.get('const_value') is not None and g2['const_value'] > 1]
        by_size = any(x.get('k') == 'call' and (x.get('callee') or '') in ('std::size', 'std::ssize') and 'token_map' in show(x) for x in walk_all_exprs(ts['body'])) or \
            any(x.get('k') == 'sizeof' for x in walk_all_exprs(ts['body']))
        if not lits and by_size and mlen:
            lits = [int(mlen.group(1))]
        if not lits and not by_size:
            B.unknown('token_string: bound', 'the bound of the table index was not recognised')
            lits = None
        if lits is not None:
          B.check(bool(mlen) and lits and max(lits) == int(mlen.group(1)) and any(('>=' in show(s['c']) or '<' in show(s['c'])) for s in walk_stmts(ts['body']) if s['k'] == 'if'),
                'token_string: bound', 'index tested against %s, the length of token_map' % (mlen.group(1) if mlen else '?'),
                'bound %s differs from the table length %s' % (lits, mlen.group(1) if mlen else '?'), '%s:%d' % (rel(lib, ts['file']), ts['loc'][1]))

    # ------------------------------------------------------------------ c: emptiness
    Cc = rep.rule('C02.c', 'back()/front()/pop_back()/[0]/begin()-> only on sequences that are provably non-empty there', floor=20)
    exc = [x for x in load_exceptions() if x['rule'] == 'C02.c']
    used_exc = set()
    for f in lib.functions:
        if f['tmpl'] not in ('none', 'inst') or not f['file'].startswith(lib.repo) or '/ParserGenerator/' in f['file']:
            continue
        g = None
        for e in walk_all_exprs(f['body']):
            if e.get('k') != 'call' or e.get('obj') is None:
                continue
            short = (e.get('callee') or '').split('::')[-1]
            octy = (e['obj'].get('cty') or '').replace('const ', '')
            seq = None
            if short in ('back', 'front', 'pop_back') and octy.startswith(('std::vector<', 'std::deque<', 'std::list<', 'std::basic_string', 'std::__cxx11::basic_string')):
                seq = strip_casts(e['obj'])
            elif short == 'operator[]' and octy.startswith('std::vector<') and strip_casts(e['args'][0]).get('k') == 'int':
                seq = strip_casts(e['obj'])
            elif short in ('operator->', 'operator*') and is_call(strip_casts(e['obj']), '::begin'):
                seq = strip_casts(strip_casts(e['obj'])['obj'])
            if seq is None:
                continue
            g = g or M.cfg(f)
            ev = g.ev(e)
            inst = '%s: %s' % (f['q'], show(e))
            where = '%s:%d' % (rel(lib, f['file']), e['loc'][0])
            k_needed = (strip_casts(e['args'][0])['v'] + 1) if short == 'operator[]' else 1
            why = nonempty_reason(M, lib, f, g, ev, seq, k_needed)
            if why:
                Cc.ok(inst, why, where)
                continue
            # tabled exception?
            hit = None
            lapsed = None
            for x in exc:
                xseq = re.sub(r'\.(begin|back|front|pop_back|at|cbegin)\(\)$', '', x['construct'])
                if x['function'] == f['q'] and (x['construct'] in show(e) or xseq == show(seq).replace('this->', '')):
                    ok, detail = verify_exception(x, M, lib, f, e)
                    if ok:
                        hit = (x, detail)
                    else:
                        lapsed = detail
            if hit:
                used_exc.add((hit[0]['function'], hit[0]['construct']))
                Cc.ok(inst, 'accepted (spec/exceptions.json, re-verified): %s [%s]' % (hit[0]['reason'], hit[1]), where)
            elif hit is None:
                wit = empty_witness(M, f, g, ev, seq)
                if wit:
                    Cc.violation(inst, '%s may be empty here: undefined behaviour' % show(seq), where,
                                 witness={'sequence': show(seq), 'path': wit})
                else:
                    Cc.unknown(inst, 'cannot show %s non-empty here and cannot exhibit a path on which it is empty (no dominating push, guard, '
                                     'enclosing iteration or reasoned exception%s)' % (show(seq), ('; the tabled exception no longer verifies: ' + lapsed) if lapsed else ''), where)

    # ------------------------------------------------------------------ d: resources
    D = rep.rule('C02.d', 'every allocation belongs to a recognised ownership scheme and is released on all paths', floor=8)
    news = []
    for f in lib.functions:
        if f['tmpl'] not in ('none', 'inst'):
            continue
        for e in walk_all_exprs(f['body']):
            if e.get('k') == 'new':
                news.append((f, e))
    for f, e in news:
        inst = '%s: new %s' % (f['q'], e['alloc_ty'])
        where = '%s:%d' % (rel(lib, f['file']), e['loc'][0])
        if e['alloc_ty'] == 'Theo::Node' and f['q'] == 'Theo::Node::mk':
            D.ok(inst, 'registered by AST::mk, released by AST::clear', where)
        elif e['alloc_ty'] == 'Theo::ScannerInfo' and f['q'] == 'create_scanner':
            D.ok(inst, 'released by cleanup_scanner', where)
        else:
            dels = [x for x in walk_all_exprs(f['body']) if x.get('k') == 'delete']
            if dels:
                D.ok(inst, 'deleted in the same function', where)
            else:
                D.unknown(inst, 'allocation outside the recognised ownership schemes')
    # Node::mk only from AST::mk, which registers
    for (g2, c2) in [(g2, c2) for g2 in lib.functions for c2 in walk_all_exprs(g2['body']) if is_call(c2, 'Theo::Node::mk') and c2.get('callee') == 'Theo::Node::mk']:
        D.check(g2['q'] == 'Theo::AST::mk', '%s calls Node::mk' % g2['q'], 'only AST::mk creates nodes', 'a node is created without being registered for release',
                '%s:%d' % (rel(lib, g2['file']), c2['loc'][0]))
    amk = lib.fn('Theo::AST::mk')
    ga = M.cfg(amk)
    reg = [ev for ev in ga.calls() if is_call(ev.e, '::push_back') and field_chain(ev.e['obj'])[1][-1:] == ['all_allocated_nodes']]
    mkc = [ev for ev in ga.calls() if ev.e.get('callee') == 'Theo::Node::mk']
    okreg = len(reg) == 1 and len(mkc) == 1 and ga.on_all_paths(reg[0]) and \
        (M.origin(amk, reg[0].e['args'][0]) or {}).get('callee') == 'Theo::Node::mk'
    D.check(okreg, 'AST::mk registers the node', 'all_allocated_nodes.push_back(n) on every path', 'a created node is not registered',
            '%s:%d' % (rel(lib, amk['file']), amk['loc'][1]))
    clr = lib.fn('Theo::AST::clear')
    dels = [x for x in walk_all_exprs(clr['body']) if x.get('k') == 'delete']
    aliases = set()
    for st in walk_stmts(clr['body']):
        if st['k'] == 'decl':
            for v in st['vars']:
                if v.get('is_ref') and v.get('init') is not None and field_chain(strip_casts(v['init']))[1][-1:] == ['all_allocated_nodes']:
                    aliases.add(v['d'])

    def is_nodes(e):
        e = strip_casts(e)
        return e is not None and (field_chain(e)[1][-1:] == ['all_allocated_nodes'] or (e.get('k') == 'ref' and e.get('d') in aliases))

    def size_bound(c):
        c = strip_casts(c)
        return c is not None and c.get('k') == 'bin' and c['op'] in ('<', '!=') and is_call(strip_casts(c['r']), '::size') and is_nodes(strip_casts(c['r'])['obj'])
    loops = [s for s in walk_stmts(clr['body']) if s['k'] == 'rangefor' and is_nodes(s['range'])]
    loops += [s for s in walk_stmts(clr['body']) if s['k'] == 'for' and s.get('c') is not None and size_bound(s['c'])
              and s.get('init') and s['init']['k'] == 'decl' and strip_casts(s['init']['vars'][0].get('init')).get('v') == 0 and '++' in show(s.get('inc'))]
    clears = [x for x in walk_all_exprs(clr['body']) if is_call(x, '::clear') and is_nodes(x['obj'])]
    in_loop = len(loops) == 1 and len(dels) == 1 and any(x is dels[0] for x in walk_all_exprs(loops[0]['body']))
    if len(dels) >= 1 and not in_loop and len(loops) != 1:
        D.unknown('AST::clear releases every node', 'the release loop has a shape that is not recognised')
    else:
      D.check(len(dels) == 1 and in_loop and len(clears) == 1, 'AST::clear releases every node', 'delete for each registered node, then the list is emptied (no double free)',
            'release loop not recognised', '%s:%d' % (rel(lib, clr['file']), clr['loc'][1]))
    comp = lib.fn('Theo::compile')
    rep.analysed(comp)
    if not all(any(x.get('k') == 'call' and x.get('callee') == q_ for x in walk_all_exprs(comp['body'])) for q_ in ('Theo::gen', 'Theo::AST::clear')):
        # gen() and the release of the tree moved into a helper (gen_and_release(a)): look at compile() with the helper put back
        from .inline import inlined
        comp_i, names_i = inlined(lib, comp, rounds=2)
        if names_i:
            comp = comp_i
            for n_ in names_i:
                for h_ in lib.functions:
                    if h_['q'] == n_ and h_.get('body') is not None:
                        rep.analysed(h_)
    gc = M.cfg(comp)
    pc = [ev for ev in gc.calls() if ev.e.get('callee') == 'Theo::parse']
    cl = [ev for ev in gc.calls() if ev.e.get('callee') == 'Theo::AST::clear']
    gn = [ev for ev in gc.calls() if ev.e.get('callee') == 'Theo::gen']
    okc = len(pc) == 1 and len(cl) == 1 and len(gn) == 1 and gc.on_all_paths(cl[0]) and gc.dominates(gn[0], cl[0])
    if okc:
        # clear() is applied to the tree that parse() returned
        root, path = field_chain(cl[0].e['obj'])
        o = M.origin(comp, root) if root is not None else None
        okc = o is not None and o.get('k') == 'call' and o.get('callee') == 'Theo::parse'
    D.check(okc, 'compile: tree released', 'clear() on the parsed tree, on the single path, after gen()', 'the syntax tree is not released (or released before code generation)',
            '%s:%d' % (rel(lib, comp['file']), comp['loc'][1]))
    for f in lib.functions:
        for e in walk_all_exprs(f['body']):
            if e.get('k') == 'delete' and 'Node' in (e['e'].get('cty') or ''):
                D.check(f['q'] == 'Theo::AST::clear', '%s: delete node' % f['q'], 'only AST::clear deletes nodes', 'node deleted outside AST::clear (double free)',
                        '%s:%d' % (rel(lib, f['file']), e['loc'][0]))
    scan = lib.fn('Theo::scan')
    rep.analysed(scan)
    gsn = M.cfg(scan)
    pops = [ev for ev in gsn.calls() if is_call(ev.e, '::pop_back') and show(ev.e['obj']) == 'lex_stack']
    for ev in pops:
        cu = [c for c in gsn.calls() if c.e.get('callee') == 'cleanup_scanner' and gsn.dominates(c, ev)]
        good = False
        for c in cu:
            a = M.origin(scan, c.e['args'][0])
            if is_call(a, '::back') and show(a['obj']) == 'lex_stack':
                between = [x for x in gsn.calls() if (is_call(x.e, '::push_back') or is_call(x.e, '::pop_back')) and show(x.e.get('obj')) == 'lex_stack'
                           and gsn.dominates(c, x) and gsn.dominates(x, ev) and x is not ev]
                good = not between and gsn.postdominates(ev, c)
        D.check(good, 'scan: lex_stack.pop_back', 'cleanup_scanner(lex_stack.back()) dominates the pop', 'a scanner is popped without being destroyed (leak)',
                '%s:%d' % (rel(lib, scan['file']), ev.e['loc'][0]))
    loops = [s for s in walk_stmts(scan['body']) if s['k'] in ('while', 'for', 'do')]
    okloop = len(loops) == 1 and show(loops[0]['c']).replace(' ', '') in ('!lex_stack.empty()',) and \
        not [s for s in walk_stmts(loops[0]['body']) if s['k'] in ('break', 'return')]
    D.check(okloop, 'scan: loop exits only with an empty scanner stack', 'while (!lex_stack.empty()) without break/return', 'the scanner loop can be left with live scanners',
            '%s:%d' % (rel(lib, scan['file']), scan['loc'][1]))
    cs = lib.fn('create_scanner')
    cu = lib.fn('cleanup_scanner')
    gcs, gcu = M.cfg(cs), M.cfg(cu)

    def has(g, pred):
        return any(pred(ev) and g.on_all_paths(ev) for ev in g.events)
    pairs = [('yylex_init', lambda ev: is_call(ev.e, 'yylex_init'), 'yylex_destroy', lambda ev: is_call(ev.e, 'yylex_destroy')),
             ('yy_scan_*', lambda ev: ev.e.get('k') == 'call' and (ev.e.get('callee') or '').startswith('yy_scan_'), 'yy_delete_buffer', lambda ev: is_call(ev.e, 'yy_delete_buffer')),
             ('new ScannerInfo', lambda ev: ev.e.get('k') == 'new', 'delete', lambda ev: ev.e.get('k') == 'delete')]
    for an, ap, bn, bp in pairs:
        D.check(has(gcs, ap) and has(gcu, bp), 'scanner: %s / %s' % (an, bn), 'acquired in create_scanner, released in cleanup_scanner on every path',
                '%s without matching %s' % (an, bn), '%s:%d' % (rel(lib, cu['file']), cu['loc'][1]))

    # ------------------------------------------------------------------ e: dichotomy
    E = rep.rule('C02.e', 'the result is correct with no error, or incorrect with at least one error - never both, never neither', floor=4)
    genf = lib.fn('Theo::gen')
    rets = [s for s in walk_stmts(genf['body']) if s['k'] == 'return']
    okr = False
    if len(rets) == 1:
        init = strip_copies(strip_casts(rets[0]['e']))
        if init.get('k') == 'init':
            flds = dict(init['fields'])
            gcor = strip_casts(flds.get('generated_correctly'))
            errs = strip_copies(strip_casts(flds.get('errors')))
            if gcor is not None and gcor.get('k') == 'ref' and gcor.get('dk') == 'var':
                # the flag computed into a local first (const bool ok = gs.errors.empty(); ... std::move(gs.errors)): the local's
                # initialiser counts when nothing is appended to the list between it and the return
                o_ = M.origin(genf, gcor)
                gg_ = M.cfg(genf)
                later = [ev for ev in gg_.calls() if (is_call(ev.e, '::push_back') or is_call(ev.e, 'GenState::err') or is_call(ev.e, 'GenState::verr') or
                                                      (ev.e.get('callee') or '').startswith(('gen_ast', 'dispatch'))) and o_ is not None and o_.get('sid') in gg_.by_sid and
                         gg_.can_follow(gg_.by_sid[o_['sid']], ev)]
                if o_ is not None and o_ is not gcor and not later:
                    gcor = strip_casts(o_)
            if gcor is not None and gcor.get('k') == 'bin' and gcor['op'] == '==' and strip_casts(gcor['r']).get('v') == 0 and is_call(strip_casts(gcor['l']), '::size'):
                okr = show(strip_casts(gcor['l'])['obj']) == show(errs)
            elif gcor is not None and is_call(gcor, '::empty'):
                okr = show(gcor['obj']) == show(errs)
    E.check(okr, 'gen: generated_correctly', '= (errors.size() == 0) of the very vector returned as .errors', 'generated_correctly is not tied to the returned error list',
            '%s:%d' % (rel(lib, genf['file']), genf['loc'][1]))
    pf = lib.fn('Theo::parse')
    gp = M.cfg(pf)
    asg = [ev for ev in gp.events if ev.e.get('k') == 'assign' and field_chain(ev.e['l'])[1][-1:] == ['parsed_correctly']]
    sets_true = [ev for ev in asg if strip_casts(ev.e['r']).get('v') is True]
    sets_false = [ev for ev in asg if strip_casts(ev.e['r']).get('v') is False]
    sets_expr = [ev for ev in asg if strip_casts(ev.e['r']).get('k') != 'bool']

    def is_noerr(c):
        t = show(strip_casts(c)).replace(' ', '')
        return ('errors.size()==0' in t or 'errors.empty()' in t) and not t.startswith('!')
    late_pushes = lambda ev0: [ev for ev in gp.calls() if is_call(ev.e, '::push_back') and field_chain(ev.e['obj'])[1][-1:] == ['errors'] and gp.can_follow(ev0, ev)]
    if len(sets_expr) == 1 and not sets_true:
        # parsed_correctly = errors.empty()  (computed once, after the last error was added)
        ev0 = sets_expr[0]
        okp = is_noerr(ev0.e['r']) and gp.on_all_paths(ev0) and not late_pushes(ev0)
        # merges through helper calls must precede as well
        helpers_after = [ev for ev in gp.calls() if ev.e.get('callee_lambda_id') and gp.can_follow(ev0, ev)]
        E.check(okp and not helpers_after, 'parse: parsed_correctly', '= errors.empty(), evaluated after the last error was merged',
                'parsed_correctly is computed from %s or before all errors are merged' % show(ev0.e['r']), '%s:%d' % (rel(lib, pf['file']), pf['loc'][1]))
    else:
        okp = len(sets_true) == 1 and len(sets_false) >= 1 and gp.on_all_paths(sets_false[0]) and gp.dominates(sets_false[0], sets_true[0])
        guard_ok = False
        if okp:
            for cond, label, cn in gp.guards_of(sets_true[0]):
                if label is True and is_noerr(cond):
                    guard_ok = True
            guard_ok = guard_ok and not late_pushes(sets_true[0])
        E.check(okp and guard_ok, 'parse: parsed_correctly', 'false initially; true only under errors.size() == 0, after the last error was merged',
                'parsed_correctly can be true although errors exist', '%s:%d' % (rel(lib, pf['file']), pf['loc'][1]))
    ga = lib.fn('gen_ast', unit_suffix='gen.cpp')
    gga = M.cfg(ga)
    disp = [ev for ev in gga.calls() if (ev.e.get('callee') or '').startswith('dispatch')]
    fw = [ev for ev in gga.calls() if (ev.e.get('callee') or '') in ('GenState::verr', 'GenState::err')]
    # ... or the whole list is transformed in one call: std::transform(in.errors.begin(), in.errors.end(), std::back_inserter(errors), ..)
    whole = []
    for ev in gga.calls():
        e_ = ev.e
        if (e_.get('callee') or '') in ('std::transform', 'std::copy', 'std::ranges::transform', 'std::ranges::copy') and e_.get('obj') is None and len(e_.get('args', [])) >= 3:
            a0, a1 = strip_copies(strip_casts(e_['args'][0])), strip_copies(strip_casts(e_['args'][1]))
            if is_call(a0, '::begin') and is_call(a1, '::end') and field_chain(a0.get('obj'))[1][-1:] == ['errors'] and show(a0.get('obj')) == show(a1.get('obj')) and \
                    any(x.get('k') == 'call' and (x.get('callee') or '') == 'std::back_inserter' and 'errors' in show(x) for x in walk_expr(e_['args'][2])):
                whole.append(ev)
    okg = bool(disp) and (bool(fw) or bool(whole))
    for ev in disp:
        okg = okg and any(label is False and 'parsed_correctly' in show(cond) and show(cond).startswith('!') or
                          (label is True and 'parsed_correctly' in show(cond) and not show(cond).startswith('!')) for cond, label, cn in gga.guards_of(ev))
    loops = [s for s in walk_stmts(ga['body']) if s['k'] == 'rangefor' and field_chain(s['range'])[1][-1:] == ['errors']]
    if whole and not loops:
        okg = okg and len(whole) == 1
    else:
        okg = okg and len(loops) == 1 and any(is_call(x, 'GenState::verr') or is_call(x, 'GenState::err') for x in walk_all_exprs(loops[0]['body']))
    if okg and loops:
        # every one of them: inside the loop the forwarding call is reached on every path (no continue / condition in front of it)
        fwl = [ev for ev in fw if any(x is ev.e for x in walk_all_exprs(loops[0]['body']))]
        lcond = [n for n in gga.nodes if n.kind == 'cond' and n.stmt is loops[0]]
        skipped = None
        for ev in fwl:
            inner = [(cond, label) for cond, label, cn in gga.guards_of(ev) if cn.stmt is not loops[0] and any(x is cn.stmt for x in walk_stmts(loops[0]['body']))]
            if inner:
                skipped = inner[0]
        if any(s2['k'] in ('continue', 'break', 'return') for s2 in walk_stmts(loops[0]['body'])) and skipped is None and fwl:
            ex_ = [s2 for s2 in walk_stmts(loops[0]['body']) if s2['k'] in ('continue', 'break', 'return')][0]
            skipped = ({'k': 'str', 'v': '%s at line %d' % (ex_['k'], ex_['loc'][0])}, True)
        if skipped is not None:
            E.violation('gen_ast: every error is forwarded', 'inside the forwarding loop an error is passed on only under a condition (%s): a parse error that is skipped leaves the '
                        'result without any error - and, if it was the only one, marked as generated correctly' % show(skipped[0])[:80],
                        '%s:%d' % (rel(lib, ga['file']), loops[0]['loc'][0]), witness={'input': 'a source whose only error is reported at the placeholder position "-", -1 (too many macro substitutions)'})
    E.check(okg, 'gen_ast: errors forwarded', 'generation only when parsed_correctly; otherwise every parse error is forwarded',
            'an incorrectly parsed tree is generated, or its errors are dropped', '%s:%d' % (rel(lib, ga['file']), ga['loc'][1]))
    cf = comp if comp.get('inlined') else lib.fn('Theo::compile')
    retc = [s for s in walk_stmts(cf['body']) if s['k'] == 'return']
    def deep_origin(fx, e, n=5):
        e = strip_copies(strip_casts(e)) if e is not None else None
        while e is not None and e.get('k') == 'ref' and n > 0:
            o = M.origin(fx, e)
            if o is None or o is e:
                break
            e = strip_copies(strip_casts(o))
            n -= 1
        return e
    okc2 = len(retc) == 1 and is_call(deep_origin(cf, retc[0]['e']), 'Theo::gen')
    writes = [e for e in walk_all_exprs(cf['body']) if (e.get('k') == 'assign' or (e.get('k') == 'call' and (e.get('callee') or '').endswith('::operator='))) and
              field_chain(e.get('l') or e.get('obj'))[1][-1:] in (['generated_correctly'], ['errors'])]
    E.check(okc2 and not writes, 'compile: result', 'returns gen()\'s result without touching generated_correctly/errors', 'compile() alters the verdict of gen()',
            '%s:%d' % (rel(lib, cf['file']), cf['loc'][1]))

    # ... and a diagnostic that was recorded stays recorded: the error lists of the stages and of the result only grow (a list may be
    # emptied before anything was pushed into it)
    def is_err_list(x):
        t = (strip_casts(x).get('cty') or '') if x is not None else ''
        return t.replace('const ', '').startswith('std::vector<') and any(r in t for r in ('ParseError', 'SyntaxError', 'CodegenResult::Error'))
    removed = []
    n_lists = 0
    for f in lib.functions:
        if f.get('body') is None or f['tmpl'] == 'pattern' or not f['file'].startswith(lib.repo):
            continue
        pushes = [e for e in walk_all_exprs(f['body']) if e.get('k') == 'call' and e.get('obj') is not None and is_err_list(e['obj']) and
                  (e.get('callee') or '').split('::')[-1] in ('push_back', 'emplace_back', 'insert')]
        n_lists += len(pushes)
        for e in walk_all_exprs(f['body']):
            tgt, how = None, None
            if e.get('k') == 'call' and e.get('obj') is not None and is_err_list(e['obj']):
                short = (e.get('callee') or '').split('::')[-1]
                if short in ('erase', 'pop_back', 'resize', 'swap'):
                    tgt, how = e['obj'], short
                elif short in ('clear', 'assign', 'operator='):
                    tgt, how = e['obj'], short + ' (after errors may have been recorded)'
            elif e.get('k') == 'assign' and is_err_list(e['l']):
                tgt, how = e['l'], '= (after errors may have been recorded)'
            elif e.get('k') == 'call' and e.get('obj') is None and (e.get('callee') or '').split('::')[-1] in ('erase_if', 'erase', 'remove_if', 'remove', 'unique') and e.get('args'):
                a0 = strip_casts(strip_copies(e['args'][0]))
                if a0 is not None and a0.get('k') == 'call' and a0.get('obj') is not None and (a0.get('callee') or '').split('::')[-1] in ('begin', 'end'):
                    a0 = strip_casts(a0['obj'])
                if a0 is not None and is_err_list(a0):
                    tgt, how = a0, (e.get('callee') or '').split('::')[-1]
            if tgt is None:
                continue
            if 'after errors' in how:
                # harmless when nothing can have been pushed into this list before (initialisation of a fresh result)
                gg_ = M.cfg(f)
                prior = [p_ for p_ in pushes if show(strip_casts(p_['obj'])) == show(strip_casts(tgt)) and p_.get('sid') in gg_.by_sid and e.get('sid') in gg_.by_sid and
                         gg_.can_follow(gg_.ev(p_), gg_.ev(e))]
                if not prior:
                    continue
            removed.append((f, e, how))
    for f, e, how in removed:
        E.violation('%s: %s' % (f['q'], show(e)[:60]), 'recorded diagnostics are removed again (%s): a source that was found faulty can come back marked incorrect with an incomplete or '
                    'empty error list' % how, '%s:%d' % (rel(lib, f['file']), e['loc'][0]), witness={'input': 'an empty main file: its only error is located at the end of the hidden standard-macro file'})
    if not removed:
        if n_lists < 5:
            E.unknown('diagnostics only grow', 'only %d append(s) to error lists found' % n_lists)
        else:
            E.ok('diagnostics only grow', '%d appends to error lists, no removal from any of them' % n_lists, 'Compiler/src')

    # ------------------------------------------------------------------ f: error records
    F = rep.rule('C02.f', 'every error record has a non-empty message and a location taken from a token, a node, the scanner\'s '
                          'file, the generator\'s current position, or the "-"/-1 placeholder', floor=20)
    ERR_RECS = ('Theo::ParseError', 'Theo::SyntaxError', 'Theo::CodegenResult::Error')
    token_positions_rule(F, M, lib)
    dangling_rule(rep, M, lib)
    recursion_depth_rule(rep)
    unwritten_token_rule(rep, M, lib)
    uninitialised_locals_rule(rep, M, lib)
    progress_rule(rep, M, lib)
    # the generator reports errors at its current position; before the first visible node it is the initial one
    genf2 = lib.fn('Theo::gen')
    for e in walk_all_exprs(genf2['body']):
        if e.get('k') == 'init' and (e.get('rec') or '').endswith('FileState'):
            fl = dict(e['fields'])
            nm = M.strval(genf2, fl.get('name')) if fl.get('name') is not None else None
            ln = strip_casts(fl.get('line')) if fl.get('line') is not None else None
            lnv = ln.get('v') if ln is not None and ln.get('k') == 'int' else (-ln['e']['v'] if ln is not None and ln.get('k') == 'un' and ln['op'] == '-' and ln['e'].get('k') == 'int' else None)
            F.check(nm == '-' and lnv == -1, 'gen: initial position of the generator', 'the "-"/-1 placeholder',
                    'errors raised before the first visible source line (all nodes so far come from the hidden standard-macro file) are located at "%s":%s, '
                    'which is neither a supplied file nor the "-"/-1 placeholder' % (nm, lnv), '%s:%d' % (rel(lib, genf2['file']), e['loc'][0]),
                    witness={'input': 'files {"__standards__": "x0 := RUN f WITH END", "m": ""}, main "m"', 'effect': 'error "unknown name f" located at #root_file_context:0'})
    for f in lib.functions:
        if f['tmpl'] not in ('none', 'inst'):
            continue
        for e in walk_all_exprs(f['body']):
            if e.get('k') == 'construct' and e.get('rec') in ERR_RECS and len(e.get('args', [])) >= 3:
                # SyntaxError(line, file, msg) with a constructor that stores its arguments unchanged: read as the aggregate it replaces
                from .genrules import as_record_init
                e = as_record_init(lib, e) or e
            if e.get('k') == 'init' and e.get('rec') in ERR_RECS:
                flds = dict((a_, b_) for a_, b_ in e['fields'])
                msg = flds.get('msg') or flds.get('message')
                file_e, line_e = flds.get('file'), flds.get('line')
                inst = '%s: %s{%s}' % (f['q'], e['rec'].split('::')[-1], show(msg)[:50])
                where = '%s:%d' % (rel(lib, f['file']), e['loc'][0])
                okm = message_ok(lib, f, msg)
                okl, why = location_ok(lib, f, file_e, line_e)
                if okm is None or okl is None:
                    F.unknown(inst, 'cannot classify message/location: %s' % why, where)
                else:
                    F.check(okm and okl, inst, 'message has literal text; location from %s' % why,
                            'malformed error record: %s' % ('empty message' if not okm else why), where)


def progress_rule(rep, M, lib):
    """A loop of Theo::parse that runs `while the look-ahead is not the end of input` terminates only if every iteration consumes
    a token: ParseState::match() always moves on (it stops at the end marker), a grammar function need not consume anything when
    the token cannot start its construct."""
    R = rep.rule('C02.r', 'a front-end loop that runs until the end of input consumes a token in every iteration', floor=1)
    pf = lib.fn('Theo::parse')
    g = M.cfg(pf)
    n = 0
    for st in walk_stmts(pf['body']):
        if st['k'] not in ('while', 'for', 'do') or st.get('c') is None:
            continue
        ctxt = show(st['c'])
        if 'lookahead' not in ctxt or 'T_EOF' not in ctxt:
            continue
        n += 1
        conds = [nd for nd in g.nodes if nd.kind == 'cond' and nd.stmt is st]
        consuming = [ev for ev in g.calls() if (ev.e.get('callee') or '').endswith(('ParseState::match', 'ParseState::matchmk', 'ParseState::advance')) and
                     any(x is ev.e for x in walk_all_exprs(st['body'])) and not ev.conditional]
        # ... on every path from the loop head back to it
        ok = False
        if conds:
            head = conds[0]
            cons_nodes = set(ev.node.id for ev in consuming)
            seen, work, back = set(), [b for b in head.succ if b.kind == 'branch' and b.label is True] or list(head.succ), False
            body_ids = set(nd.id for nd in g.nodes if any(x is nd.stmt for x in walk_stmts(st['body'])) or
                           (nd.kind in ('branch', 'cond') and nd.of is not None and any(x is getattr(nd.of, 'stmt', None) for x in walk_stmts(st['body']))))
            while work:
                nd = work.pop()
                if nd.id in seen or nd.id in cons_nodes:
                    continue
                seen.add(nd.id)
                if nd.id == head.id:
                    back = True
                    break
                if nd.id not in body_ids and nd.kind != 'branch':
                    continue
                work.extend(nd.succ)
            ok = not back
        R.check(ok, 'parse: loop `%s`' % ctxt[:50], 'every path through the body passes ParseState::match (which always moves on, up to the end marker)',
                'an iteration can come back to the loop test without having consumed a token (only grammar functions are called, and they consume nothing when the token cannot start '
                'their construct): parse() does not return', '%s:%d' % (rel(lib, pf['file']), st['loc'][0]), witness={'input': 'x0 := 1 END'})
    if n == 0:
        R.unknown('parse: loops until end of input', 'no loop over the look-ahead found in Theo::parse')


def uninitialised_locals_rule(rep, M, lib):
    """definite assignment of scalar locals declared without an initialiser (every function of the library except the generated scanner)"""
    from .genrules import uninitialised_reads
    Q = rep.rule('C02.q', 'a scalar local that is declared without an initialiser is assigned on every path before it is read', floor=1)
    nf = nv = 0
    for f in lib.functions:
        if f.get('body') is None or f['tmpl'] == 'pattern' or f['file'].endswith('lex.yy.c'):
            continue
        try:
            res = uninitialised_reads(M, f)
        except AnalysisBroken:
            continue        # functions whose control flow the CFG builder refuses (goto) are covered by nothing here
        nf += 1
        for v, ev in res:
            nv += 1
            Q.violation('%s: %s' % (f['q'], v['name']), '%s is declared without a value (line %d) and is read at line %d on a path that assigns nothing to it (for instance when the loop '
                        'in between runs zero times): the result depends on what the stack happened to contain' % (v['name'], v['loc'][0], ev.e['loc'][0]),
                        '%s:%d' % (rel(lib, f['file']), ev.e['loc'][0]), witness={'variable': v['name'], 'read_at_line': ev.e['loc'][0]})
    Q.ok('definite assignment', '%d function bodies analysed, no read of an unassigned scalar local' % nf if not nv else '%d function bodies analysed' % nf, 'Compiler/src', nontrivial=True)


def unwritten_token_rule(rep, M, lib):
    """A Token that is declared without initialiser gets its fields from yylex(&tok, ...), which writes it only when it returns
    non-zero.  Every read of a field must be dominated by a test that some yylex(&tok) call returned non-zero."""
    P = rep.rule('C02.p', 'a token filled in by yylex is read only after a call that returned non-zero (no read of uninitialised fields)', floor=3)
    for f in lib.functions:
        if f.get('body') is None or not f['file'].endswith('scan.cpp') or f['tmpl'] == 'pattern':
            continue
        toks = [v for st in walk_stmts(f['body']) if st['k'] == 'decl' for v in st['vars']
                if (v.get('cty') or '').replace('const ', '') in ('Theo::Token', 'Token') and (v.get('init') is None or (strip_casts(v['init']).get('k') == 'construct' and not strip_casts(v['init']).get('args')))]
        if not toks:
            continue
        g = M.cfg(f)
        for tv in toks:
            writes = [ev for ev in g.calls() if is_call(ev.e, 'yylex') and ev.e.get('args') and any(
                x.get('k') == 'un' and x.get('op') == '&' and strip_casts(x['e']).get('d') == tv['d'] for x in walk_expr(ev.e['args'][0]))]
            if not writes:
                continue
            # result variables of those calls
            def result_var(wev):
                for d, ds in M.defs(f).items():
                    for dd in ds:
                        if dd[1] is not None and any(x is wev.e for x in walk_expr(dd[1])):
                            return d
                return None

            def nearest_def_is(cn, var_d, wev):
                """the definition of var_d that reaches the condition node cn last is the result of wev"""
                cands = []
                for ev in g.events:
                    e = ev.e
                    if ev.node.id not in g.dom[cn.id] and ev.node is not cn:
                        continue
                    if e.get('k') == 'assign' and strip_casts(e['l']).get('d') == var_d:
                        cands.append((ev, e['r']))
                for n in g.nodes:
                    if n.kind == 'stmt' and isinstance(n.label, tuple) and n.label[0] == 'decl' and n.label[1] == var_d and n.id in g.dom[cn.id] and n.exprs:
                        cands.append((n.events[-1] if n.events else None, n.exprs[0]))
                cands = [c for c in cands if c[0] is not None]
                if not cands:
                    return False
                last = cands[0]
                for c in cands[1:]:
                    if g.dominates(last[0], c[0]) or last[0].node.id in g.dom[c[0].node.id]:
                        last = c
                return any(x is wev.e for x in walk_expr(last[1]))
            for ev in g.events:
                e = ev.e
                if not (e.get('k') == 'member' and strip_casts(e['base']).get('k') == 'ref' and strip_casts(e['base']).get('d') == tv['d']):
                    continue
                inst = '%s: %s' % (f['q'].split('::')[-1], show(e))
                ok = False
                for cond, label, cn in g.guards_of(ev):
                    if not isinstance(label, bool) or cn.id < 0 and False:
                        continue
                    for wev in writes:
                        rv = result_var(wev)

                        def nonzero(z, rv=rv, wev=wev):
                            # "<result> != 0" / "<result>" : true means the call wrote the token
                            z0 = strip_casts(z)
                            if z0.get('k') == 'ref' and z0.get('d') == rv:
                                return True
                            return False

                        def is_zero_test(z, rv=rv):
                            return z.get('k') == 'bin' and z['op'] == '==' and ((strip_casts(z['l']).get('d') == rv and strip_casts(z['r']).get('v') == 0) or
                                                                                (strip_casts(z['r']).get('d') == rv and strip_casts(z['l']).get('v') == 0))

                        def is_nonzero_test(z, rv=rv):
                            return (z.get('k') == 'bin' and z['op'] == '!=' and ((strip_casts(z['l']).get('d') == rv and strip_casts(z['r']).get('v') == 0) or
                                                                                 (strip_casts(z['r']).get('d') == rv and strip_casts(z['l']).get('v') == 0))) or \
                                (z.get('k') == 'ref' and z.get('d') == rv)
                        from .genrules import guard_implies
                        implied = rv is not None and (guard_implies(cond, label, is_zero_test, False) or guard_implies(cond, label, is_nonzero_test, True))
                        if implied and (cn.id < 0 or nearest_def_is(cn, rv, wev) or cn.id < 0):
                            # short-circuit guards (cn.id < 0) belong to the statement of the read: the nearest definition is checked at its node
                            if cn.id < 0 and not nearest_def_is(ev.node, rv, wev):
                                continue
                            ok = True
                P.check(ok, inst, 'dominated by "yylex(&%s, ...) returned non-zero"' % tv['name'],
                        '%s is read although no call of yylex(&%s, ...) is known to have written it on this path (yylex leaves the token untouched at end of file, and %s is '
                        'declared without initialiser): an uninitialised read' % (show(e), tv['name'], tv['name']), '%s:%d' % (rel(lib, f['file']), e['loc'][0]))


def recursion_depth_rule(rep):
    """The parser is recursive descent: recursion that follows the NESTING of the input (a call between an opening and a
    closing token) is inherent; recursion along a SEQUENCE (statement after ';', parameter or argument after ',') makes the
    stack depth proportional to the length of the input, and a long enough input exhausts the stack."""
    from . import grammar
    Mr = rep.rule('C02.m', 'the stack depth of the parser follows the nesting of the input, not its length: no cycle of grammar functions '
                           'recurses without matching a closing token after the recursive call', floor=0)
    sk = grammar.Skeleton()
    cycles = sk.sequence_recursion()
    rep.extra['parser_recursion_cycles_without_closing_token'] = [' -> '.join(c) for c, steps in cycles]
    fns = sorted(q for q in sk.grammar_fns)
    for c, steps in cycles:
        for st in (steps or ['cycle ' + ' -> '.join(c)]):
            Mr.violation('sequence step %s' % st, 'the grammar functions %s call each other once per element of this sequence and nothing is matched after the '
                         'call returns: parsing n elements needs n nested activations, so a long (not deeply nested) input overflows the stack' % ' -> '.join(c),
                         'Compiler/src/parse.cpp', witness={'input': 'tens of thousands of repetitions of the step (statements after ";", parameters or arguments after ",", definitions, labels)'})
    for q in fns:
        if not any(q in c for c, steps in cycles):
            Mr.ok('function %s' % q, 'takes part in no sequence recursion', 'Compiler/src/parse.cpp')


SEQ_PREFIX = ('std::vector<', 'std::deque<', 'std::basic_string<', 'std::__cxx11::basic_string<')
INVALIDATING = ('push_back', 'emplace_back', 'insert', 'emplace', 'erase', 'pop_back', 'clear', 'resize', 'reserve', 'assign',
                'shrink_to_fit', 'swap', 'operator=', 'append', 'operator+=')
ELEMENT_ACCESS = ('back', 'front', 'operator[]', 'at')
POSITION_ACCESS = ('begin', 'end', 'cbegin', 'cend', 'rbegin', 'rend')


def _is_seq(e):
    c = (e.get('cty') or '').replace('const ', '')
    return c.startswith(SEQ_PREFIX)


def _method(e):
    if e.get('k') != 'call' or e.get('obj') is None:
        return None
    return (e.get('callee') or '').split('::')[-1]


def dangling_rule(rep, M, lib):
    """A reference, pointer or iterator into a contiguous/sequence container must not be used after an operation on that
    container that can invalidate it (reallocation, removal of the element).  Decided per function on its CFG: a use U of the
    handle is a violation when some path leads from the invalidating call I to U without passing the handle's (re)binding."""
    K = rep.rule('C02.k', 'no reference, pointer or iterator into a sequence container is used after an operation on that container that '
                          'invalidates it (undefined behaviour)', floor=10)
    n_handles = 0
    for f in lib.functions:
        if f.get('body') is None or not f['file'].endswith('.cpp') or f['file'].endswith('lex.yy.c'):
            continue
        handles = []     # (var decl dict, container text, source method, kind)
        for st in walk_stmts(f['body']):
            vs = []
            if st['k'] == 'decl':
                vs = [(v, v.get('init')) for v in st['vars']]
            elif st['k'] == 'rangefor' and st.get('var') is not None and st['var'].get('is_ref') and st.get('range') is not None:
                r = strip_casts(st['range'])
                if r is not None and _is_seq(r):
                    handles.append((st['var'], show(r), 'range', 'rangefor', st))
                continue
            for v, init in vs:
                if init is None:
                    continue
                cty = v.get('cty') or ''
                is_it = 'iterator' in cty
                is_ptr = cty.rstrip().endswith('*')
                if not (v.get('is_ref') or is_it or is_ptr):
                    continue
                src = None
                for x in walk_expr(init):
                    m = _method(x)
                    if m is None:
                        continue
                    o = strip_casts(x['obj'])
                    if o is not None and v.get('is_ref') and m in ('operator[]', 'at') and x is strip_casts(init) and x.get('args') and \
                            (o.get('cty') or '').replace('const ', '').startswith(('std::map<', 'std::unordered_map<')):
                        # a reference to the mapped value of one key: it dies with the erasure of that key (or of everything)
                        src = (show(o), 'key:' + show(strip_conv(x['args'][0])))
                        break
                    if o is None or not _is_seq(o):
                        continue
                    if v.get('is_ref') and m in ELEMENT_ACCESS and x is strip_casts(init):
                        src = (show(o), m)
                    elif is_ptr and m in ELEMENT_ACCESS + ('data',):
                        # a pointer INTO the sequence: &v[i], v.data() - but `T *p = v.back()` on a sequence of pointers copies an element
                        addr = any(y.get('k') == 'un' and y.get('op') == '&' and any(z is x for z in walk_expr(y['e'])) for y in walk_expr(init))
                        if m == 'data' or addr:
                            src = (show(o), m)
                    elif is_it and m in POSITION_ACCESS:
                        src = (show(o), m)
                    if src:
                        break
                if src:
                    handles.append((v, src[0], src[1], 'iterator' if is_it else ('pointer' if is_ptr else 'reference'), st))
        if not handles:
            continue
        g = M.cfg(f)
        # lambdas called here that invalidate a container of this function by name
        lam_inval = {}
        for ev in g.calls(lambda e: e.get('callee_lambda_id')):
            lam = lib.fn(ev.e['callee_lambda_id'], optional=True) if hasattr(lib, 'fn') else None
            if lam is None or lam.get('body') is None:
                continue
            for x in walk_all_exprs(lam['body']):
                m = _method(x)
                if m in INVALIDATING and _is_seq(strip_casts(x['obj'])):
                    lam_inval.setdefault(ev.e['sid'], []).append((show(strip_casts(x['obj'])), m))
        for v, cont, how, kind, st in handles:
            n_handles += 1
            d = v['d']
            inst = '%s: %s %s -> %s.%s()' % (f['q'].split('::')[-1], kind, v['name'], cont, how)
            # kill nodes: the (re)binding of the handle
            kills = set()
            for n in g.nodes:
                if n.kind == 'stmt' and isinstance(n.label, tuple) and n.label[0] == 'decl' and n.label[1] == d:
                    kills.add(n.id)
            lhs_sids = set()
            for ev in g.events:
                e = ev.e
                tgt = None
                if e.get('k') == 'assign' and e['op'] == '=':
                    tgt = strip_casts(e['l'])
                elif e.get('k') == 'call' and (e.get('callee') or '').endswith('::operator=') and e.get('obj') is not None:
                    tgt = strip_casts(e['obj'])
                if tgt is not None and tgt.get('k') == 'ref' and tgt.get('d') == d:
                    kills.add(ev.node.id)
                    lhs_sids.add(tgt.get('sid'))
            if kind == 'rangefor':
                body_nodes = None
            bad = None
            for iev in g.calls():
                e = iev.e
                hits = []
                m = _method(e)
                if how.startswith('key:'):
                    # node-based container: only the removal of that very key (or of all keys) invalidates
                    if m in ('clear', 'operator=', 'swap') and show(strip_casts(e['obj'])) == cont:
                        hits.append(m)
                    elif m in ('erase', 'extract') and show(strip_casts(e['obj'])) == cont and e.get('args'):
                        a0 = strip_conv(e['args'][0])
                        if is_call(a0, '::find') and a0.get('args'):
                            a0 = strip_conv(a0['args'][0])
                        if a0 is not None and 'key:' + show(a0) == how:
                            hits.append(m)
                    if not hits:
                        continue
                elif m in INVALIDATING and show(strip_casts(e['obj'])) == cont:
                    hits.append(m)
                for c2, m2 in lam_inval.get(e.get('sid'), []):
                    if c2 == cont:
                        hits.append(m2)
                if not hits:
                    continue
                m = hits[0]
                if kind == 'rangefor' and not any(x is e for x in walk_all_exprs(st.get('body'))):
                    continue        # the loop variable is bound when the loop is entered: what happened to the sequence before that does not concern it
                if m == 'pop_back' and how not in ('back', 'end', 'rbegin', 'range'):
                    continue
                if m in ('operator=', 'swap') and kind == 'rangefor':
                    pass
                # uses reachable from the invalidation without rebinding
                seen = set()
                work = [s2 for s2 in iev.node.succ]
                uses = [u for u in iev.node.events if u.idx > iev.idx and u.e.get('k') == 'ref' and u.e.get('d') == d and u.e.get('sid') not in lhs_sids]
                # an assignment in the same statement after the call rebinds (it = v.erase(it))
                if iev.node.id in kills and kind != 'rangefor':
                    uses = []
                    work = []
                while work and not uses:
                    n = work.pop()
                    if n.id in seen:
                        continue
                    seen.add(n.id)
                    if n.id in kills:
                        # a declaration node re-evaluates its initialiser before binding: uses inside it are uses of the new binding
                        continue
                    us = [u for u in n.events if u.e.get('k') == 'ref' and u.e.get('d') == d and u.e.get('sid') not in lhs_sids]
                    if us:
                        uses = us
                        break
                    work.extend(n.succ)
                if kind == 'rangefor' and not uses:
                    # the hidden iterator of the loop is used by the next iteration whenever the loop continues
                    cn = [n for n in g.nodes if n.kind == 'cond' and n.stmt is st]
                    if cn and (cn[0].id in seen or any(x.id == cn[0].id for x in iev.node.succ)):
                        uses = [iev]
                if uses:
                    bad = (iev, uses[0], m)
                    break
            if bad:
                iev, u, m = bad
                K.violation(inst, '%s.%s() at line %s can invalidate %s, which is used afterwards at line %s without being re-bound' % (
                    cont, m, iev.e['loc'][0] if iev.e.get('loc') else '?', v['name'], u.e['loc'][0] if u.e.get('loc') else '?'),
                    '%s:%d' % (rel(lib, f['file']), (u.e.get('loc') or iev.e.get('loc') or [0])[0]),
                    witness={'container': cont, 'invalidated_by': m, 'handle': v['name']})
            else:
                K.ok(inst, 'no use of %s is reachable from an invalidating operation on %s without passing its binding' % (v['name'], cont),
                     '%s:%d' % (rel(lib, f['file']), v['loc'][0]))
    rep.extra['container_handles'] = n_handles


def value_leaves(M, f, e, depth=0):
    """possible source expressions of a value: looks through single-definition locals and ?: """
    e = strip_copies(strip_casts(e))
    if e is None or depth > 6:
        return [e]
    if e.get('k') == 'cond':
        return value_leaves(M, f, e['t'], depth + 1) + value_leaves(M, f, e['e'], depth + 1)
    if e.get('k') == 'construct' and len(e.get('args') or []) in (1, 2) and 'basic_string' in (e.get('rec') or ''):
        return value_leaves(M, f, e['args'][0], depth + 1)
    if e.get('k') == 'ref' and e.get('dk') == 'var':
        ds = M.defs(f).get(e['d'], [])
        if ds and all(d[1] is not None for d in ds) and all(d[0] in ('init', 'assign') for d in ds):
            out = []
            for d in ds:
                out.extend(value_leaves(M, f, d[1], depth + 1))
            return out
    return [e]


def token_positions_rule(F, M, lib):
    """tokens synthesised by the scanner driver take their position from a scanned token or the placeholder"""
    scan0 = lib.fn('Theo::scan')
    # tokens are synthesised in scan() itself or in a helper scan() calls
    makers = [scan0]
    for x in walk_all_exprs(scan0['body']):
        if x.get('k') == 'call' and x.get('callee_in_repo') and x.get('obj') is None:
            h = lib.fn(x.get('callee'), optional=True)
            if h is not None and h.get('body') is not None and h not in makers and h['file'] == scan0['file'] and \
                    any(y.get('k') in ('construct', 'init') and y.get('rec') == 'Theo::Token' for y in walk_all_exprs(h['body'])):
                makers.append(h)
    for scan in makers:
      g = M.cfg(scan)
      for e in walk_all_exprs(scan['body']):
          cons = None
          if e.get('k') == 'construct' and e.get('rec') == 'Theo::Token' and len(e['args']) == 4:
              cons = (e['args'][2], e['args'][3])
          elif e.get('k') == 'init' and e.get('rec') == 'Theo::Token':
              fl = dict(e['fields'])
              cons = (fl.get('file'), fl.get('line'))
          if cons is None:
              continue
          where = '%s:%d' % (rel(lib, scan['file']), e['loc'][0])
          inst = 'scan: synthesised token %s' % show(e)[:50]
          bad = []
          unk = []
          for leaf in value_leaves(M, scan, cons[0]):
              txt = show(leaf)
              if leaf.get('k') == 'str':
                  if leaf['v'] != '-':
                      bad.append('file name literal "%s"' % leaf['v'])
              elif leaf.get('k') == 'member' and leaf['name'] in ('file', 'f', 'filename'):
                  pass
              elif leaf.get('k') == 'ref' and leaf.get('dk') == 'param':
                  ev = g.ev(e)
                  from .genrules import guarded
                  if not guarded(g, ev, lambda c: (c.get('callee') or '').endswith('::contains') and leaf['name'] in show(c), True):
                      bad.append('the caller-supplied name %s, which need not be a supplied file (e.g. a missing main file)' % leaf['name'])
              else:
                  unk.append(txt)
          for leaf in value_leaves(M, scan, cons[1]):
              if leaf.get('k') == 'member' and leaf['name'] == 'line':
                  continue
              v = leaf.get('v') if leaf.get('k') == 'int' else (-leaf['e']['v'] if leaf.get('k') == 'un' and leaf['op'] == '-' and leaf['e'].get('k') == 'int' else None)
              if v == -1:
                  continue
              if v is not None:
                  bad.append('line literal %d' % v)
              else:
                  unk.append(show(leaf))
          if bad:
              F.violation(inst, 'position taken from %s: errors reported at this token name a location that is neither in a supplied file nor the "-"/-1 placeholder' % '; '.join(bad), where)
          elif unk:
              F.unknown(inst, 'cannot classify position source(s) %s' % unk, where)
          else:
              F.ok(inst, 'position copied from a scanned token or the "-"/-1 placeholder', where)


def is_clamp(e, lib=None, depth=0):
    """MIN(a, size()-1) : (a < b) ? a : b,  std::min(a, size()-1),  or an in-repo helper that returns one of these"""
    e = strip_conv(strip_casts(e)) if e is not None else None
    if e is None or depth > 2:
        return False
    if e.get('k') == 'paren':
        return is_clamp(e['e'], lib, depth)
    if e.get('k') == 'call' and (e.get('callee') or '').split('<')[0] in ('std::min',) and len(e.get('args', [])) == 2:
        return any('size() - 1' in show(strip_casts(a)) for a in e['args'])
    if e.get('k') == 'call' and e.get('obj') is None and lib is not None and e.get('callee'):
        g = lib.fn(e['callee'], optional=True)
        if g is not None and g.get('body') is not None:
            rets = [s2 for s2 in walk_stmts(g['body']) if s2['k'] == 'return' and s2.get('e') is not None]
            others = [s2 for s2 in walk_stmts(g['body']) if s2['k'] not in ('return', 'block')]
            if len(rets) == 1 and not others:
                return is_clamp(rets[0]['e'], lib, depth + 1)
        return False
    if e.get('k') != 'cond':
        return False
    c = strip_casts(e['c'])
    if c.get('k') != 'bin' or c['op'] not in ('<', '<='):
        return False
    t, el = strip_casts(e['t']), strip_casts(e['e'])
    return show(strip_casts(c['l'])) == show(t) and show(strip_casts(c['r'])) == show(el) and 'size() - 1' in show(el)


def nonempty_reason(M, lib, f, g, ev, seq, k_needed, _depth=0, _stack=()):
    """structural argument that `seq` has at least k_needed elements at ev"""
    sname = show(seq)
    # J2': guard by an enclosing conditional expression  seq.empty() ? ... : seq.back()
    if k_needed == 1:
        sn0 = sname.replace(' ', '')
        for x in walk_all_exprs(f['body']):
            if x.get('k') == 'cond':
                ctxt = show(strip_casts(x['c'])).replace(' ', '')
                in_t = any(y is ev.e for y in walk_expr(x['t']))
                in_e = any(y is ev.e for y in walk_expr(x['e']))
                if in_e and ctxt == sn0 + '.empty()':
                    return 'in the false branch of %s.empty() ? : ' % sname
                if in_t and ctxt == '!' + sn0 + '.empty()':
                    return 'in the true branch of !%s.empty() ? : ' % sname
    # J2: guards (valid only if no element can be removed between the evaluation of the guard and the use)
    def _kept(cn, reason):
        if cn is None or cn.id < 0:
            return reason
        rms = [x for x in g.calls() if (x.e.get('callee') or '').split('::')[-1] in ('pop_back', 'clear', 'erase', 'resize') and x.e.get('obj') is not None and
               show(strip_casts(x.e['obj'])) == sname and x is not ev]
        for x in rms:
            if x.node is ev.node:
                if x.idx < ev.idx:
                    return None
                continue
            seen, work = set(), list(x.node.succ)
            while work:
                n = work.pop()
                if n.id in seen or n.id == cn.id:
                    continue
                seen.add(n.id)
                if n is ev.node:
                    return None
                work.extend(n.succ)
        return reason
    for cond, label, cn in g.guards_of(ev):
        c = strip_casts(cond)
        txt = show(c).replace(' ', '')
        sn = sname.replace(' ', '')
        if label is True and txt in ('!%s.empty()' % sn,) and k_needed == 1:
            _r = _kept(cn, 'guarded by !%s.empty()' % sname)
            if _r:
                return _r
        if label is False and txt == '%s.empty()' % sn and k_needed == 1:
            _r = _kept(cn, 'guarded by %s.empty() == false' % sname)
            if _r:
                return _r
        # size tests that are top-level conjuncts of a true guard
        if label is True and c.get('k') == 'bin' and c['op'] == '&&':
            for y in walk_expr(c):
                if y.get('k') == 'bin' and y['op'] in ('==', '>=', '>') and show(strip_casts(y['l'])).replace(' ', '').replace('(int)', '') == sn + '.size()' and \
                        strip_casts(y['r']).get('k') == 'int' and conj_of(c, y):
                    n2 = strip_casts(y['r'])['v']
                    if (y['op'] == '==' and n2 >= k_needed) or (y['op'] == '>=' and n2 >= k_needed) or (y['op'] == '>' and n2 + 1 >= k_needed):
                        _r = _kept(cn, 'guarded by a conjunct %s.size() %s %d' % (sname, y['op'], n2))
                        if _r:
                            return _r
        if c.get('k') == 'bin' and sn + '.size()' in txt:
            l, r = strip_casts(c['l']), strip_casts(c['r'])
            if r.get('k') == 'int' and show(l).replace(' ', '').replace('(int)', '') == sn + '.size()':
                n, op = r['v'], c['op']
                if label is False and op == '!=' and n >= k_needed:
                    _r = _kept(cn, 'guarded by %s.size() == %d' % (sname, n))
                    if _r:
                        return _r
                if label is True and op == '==' and n >= k_needed:
                    _r = _kept(cn, 'guarded by %s.size() == %d' % (sname, n))
                    if _r:
                        return _r
                if label is True and op == '>' and n + 1 >= k_needed:
                    _r = _kept(cn, 'guarded by %s.size() > %d' % (sname, n))
                    if _r:
                        return _r
                if label is True and op == '>=' and n >= k_needed:
                    _r = _kept(cn, 'guarded by %s.size() >= %d' % (sname, n))
                    if _r:
                        return _r
        # through a bool variable holding the size test
        if c.get('k') == 'bin' and c['op'] == '&&' or c.get('k') == 'ref':
            for x in walk_expr(c):
                if x.get('k') == 'ref' and x.get('dk') == 'var' and (x.get('cty') == 'bool') and label is True:
                    o = M.origin(f, x)
                    for y in walk_expr(o):
                        if y.get('k') == 'bin' and y['op'] == '==' and show(strip_casts(y['l'])).replace(' ', '') == sn + '.size()' and \
                                strip_casts(y['r']).get('k') == 'int' and strip_casts(y['r'])['v'] >= k_needed and conj_of(o, y):
                            _r = _kept(cn, 'guarded by %s (which requires %s.size() == %d)' % (x['name'], sname, strip_casts(y['r'])['v']))
                            if _r:
                                return _r
    # J4: the sequence is a reference parameter, every caller passes a sequence that is non-empty at the call, and nothing
    #     removes elements between the entry of this function and the use
    s0 = strip_casts(seq)
    root0, path0 = member_path(s0) if s0 is not None and s0.get('k') == 'member' else (s0, [])
    root0 = strip_casts(root0) if root0 is not None else None
    if root0 is not None and root0.get('k') == 'ref' and root0.get('dk') == 'param' and (f['q'], sname) in _stack:
        # a recursive call chain: the claim for this function is what is being established (every function on the chain is
        # checked for removals before its use, and every entry from outside the cycle is checked at its call site)
        return 'holds on entry (recursive chain)'
    if root0 is not None and root0.get('k') == 'ref' and root0.get('dk') == 'param' and _depth < 6:
        pidx = [i for i, p in enumerate(f['params']) if p.get('d') == root0.get('d') and '&' in (p.get('cty') or '')]

        def rebase(arg):
            # the same member chain, rooted at the caller's argument
            def sub(x):
                if x is root0 or (isinstance(x, dict) and x.get('k') == 'ref' and x.get('d') == root0.get('d') and x.get('sid') == root0.get('sid')):
                    return strip_casts(arg)
                if isinstance(x, dict):
                    return {k2: sub(v2) for k2, v2 in x.items()}
                if isinstance(x, list):
                    return [sub(y) for y in x]
                return x
            return sub(s0)
        rm = [x for x in g.calls() if (x.e.get('callee') or '').split('::')[-1] in ('pop_back', 'clear', 'erase', 'resize') and x.e.get('obj') is not None and
              show(strip_casts(x.e['obj'])) == sname and g.can_follow(x, ev) and x is not ev]
        if pidx and not rm:
            callers = [(g2, c2) for g2 in lib.functions if g2.get('body') is not None and g2['tmpl'] in ('none', 'inst')
                       for c2 in walk_all_exprs(g2['body']) if c2.get('k') == 'call' and c2.get('callee') == f['q'] and c2.get('obj') is None]
            reasons = []
            for g2, c2 in callers:
                if len(c2['args']) <= pidx[0]:
                    reasons = []
                    break
                gg = M.cfg(g2)
                r = nonempty_reason(M, lib, g2, gg, gg.ev(c2), rebase(c2['args'][pidx[0]]), k_needed, _depth + 1, _stack + ((f['q'], sname),))
                if r is None:
                    reasons = []
                    break
                reasons.append('%s: %s' % (g2['q'].split('::')[-1], r))
            if reasons:
                return 'reference parameter; at every call site the argument is non-empty (%s)' % '; '.join(reasons)[:200]
    # J3: enclosing iteration over the same sequence
    for st in walk_stmts(f['body']):
        if st['k'] == 'rangefor' and show(strip_casts(st['range'])) == sname:
            if any(x is ev.e for x in walk_all_exprs(st['body'])):
                return 'inside the iteration over %s' % sname
    # J1: dominating push on the same object (directly or through a callee that always pushes), no pop/clear in between
    if k_needed == 1:
        for pev in g.calls():
            c = pev.e
            pushes = False
            if (c.get('callee') or '').split('::')[-1] in ('push_back', 'emplace_back') and c.get('obj') is not None and show(strip_casts(c['obj'])) == sname:
                pushes = True
            elif c.get('callee_in_repo'):
                tgt = [x for x in lib.functions if x['q'] == c.get('callee')]
                if len(tgt) == 1:
                    tg = M.cfg(tgt[0])
                    tail = sname.split('.')[-1]
                    for tev in tg.calls():
                        if (tev.e.get('callee') or '').split('::')[-1] in ('push_back', 'emplace_back') and tev.e.get('obj') is not None and \
                                show(strip_casts(tev.e['obj'])).split('.')[-1] == tail and tg.on_all_paths(tev):
                            pushes = True
            if pushes and g.dominates(pev, ev):
                rm = [x for x in g.calls() if (x.e.get('callee') or '').split('::')[-1] in ('pop_back', 'clear', 'erase', 'resize') and x.e.get('obj') is not None and
                      show(strip_casts(x.e['obj'])) == sname and g.can_follow(pev, x) and g.can_follow(x, ev) and x is not ev]
                if not rm:
                    return 'dominated by %s' % show(c)[:60]
    return None


def empty_witness(M, f, g, ev, seq):
    """A concrete reason to believe the sequence can be empty at ev: it is a local of this function that starts
    empty and some path from its declaration reaches ev without passing any push onto it."""
    s0 = strip_casts(seq)
    # the code's own size test admits an empty sequence
    sn = show(s0).replace(' ', '')
    lo, hi = 0, 10 ** 9
    tested = False
    for cond, label, cn in g.guards_of(ev):
        c = strip_casts(cond)
        if c.get('k') == 'bin' and c['op'] in ('<', '<=', '>', '>=', '==', '!=') and show(strip_casts(c['l'])).replace(' ', '').replace('(int)', '') == sn + '.size()' \
                and strip_casts(c['r']).get('k') == 'int' and isinstance(label, bool):
            n, op = strip_casts(c['r'])['v'], c['op']
            if not label:
                op = {'<': '>=', '<=': '>', '>': '<=', '>=': '<', '==': '!=', '!=': '=='}[op]
            tested = True
            if op == '<':
                hi = min(hi, n - 1)
            elif op == '<=':
                hi = min(hi, n)
            elif op == '>':
                lo = max(lo, n + 1)
            elif op == '>=':
                lo = max(lo, n)
            elif op == '==':
                lo, hi = max(lo, n), min(hi, n)
    if tested and lo == 0 and hi >= 0:
        return 'the size test guarding this use admits size() in [%d, %s]: an empty %s passes it' % (lo, hi if hi < 10 ** 9 else 'inf', show(s0))
    if s0.get('k') != 'ref' or s0.get('dk') != 'var':
        return None
    ds = M.defs(f).get(s0['d'], [])
    if len(ds) != 1 or ds[0][0] != 'init':
        return None
    init = strip_casts(ds[0][1]) if ds[0][1] is not None else None
    starts_empty = init is None or (init.get('k') in ('construct', 'init') and not (init.get('args') or init.get('elems') or init.get('fields')))
    if not starts_empty:
        return None
    pushes = [x for x in g.calls() if (x.e.get('callee') or '').split('::')[-1] in ('push_back', 'emplace_back', 'insert', 'resize', 'assign') and
              x.e.get('obj') is not None and strip_casts(x.e['obj']).get('d') == s0['d']]
    # is there a path entry -> ev avoiding every push?  (reachability in the CFG with the push nodes removed)
    blocked = set(x.node.id for x in pushes if x.node is not ev.node)
    seen, st = set(), [g.entry]
    while st:
        n = st.pop()
        if n.id in seen or n.id in blocked:
            continue
        seen.add(n.id)
        st.extend(n.succ)
    if ev.node.id in seen:
        return 'declared empty in %s; a path reaches this use without passing any of the %d push(es) onto it' % (f['q'], len(pushes))
    return None


def conj_of(root, y):
    """y is a top-level conjunct of root (so root true implies y true)"""
    root = strip_casts(root)
    if root is y:
        return True
    if root.get('k') == 'bin' and root['op'] == '&&':
        return conj_of(root['l'], y) or conj_of(root['r'], y)
    return False


def verify_exception(x, M, lib, f, e):
    """Structural re-verification of a tabled exception; returns (ok, detail)."""
    v = x.get('verify')
    fns = {g['q']: g for g in lib.functions if g['tmpl'] in ('none', 'inst')}
    if v == 'prepare_emitted_first':
        # gen(): emit(PrepareExec) dominates every other call; only removeTopPotBreak pops, and it pops only a POTENTIAL_BREAK
        genf = [g for g in lib.functions if g['q'] == 'Theo::gen'][0]
        gg = M.cfg(genf)
        em = [ev for ev in gg.calls() if ev.e.get('callee') == 'GenState::emit' and 'PrepareExec' in show(ev.e)]
        others = [ev for ev in gg.calls() if (ev.e.get('callee') or '').startswith(('GenState::', 'gen_ast', 'dispatch')) and ev not in em and ev.e.get('callee') != 'GenState::emit']
        ok = len(em) == 1 and all(gg.dominates(em[0], o) for o in others)
        pops = [(g2['q'], c2) for g2 in lib.functions_in('gen.cpp') for c2 in walk_all_exprs(g2['body']) if is_call(c2, '::pop_back') and field_chain(c2['obj'])[1][-1:] == ['code']]
        ok = ok and all(q == 'GenState::removeTopPotBreak' for q, _ in pops)
        return ok, 'PREPARE emitted before any dispatcher; %d pop site(s), all in removeTopPotBreak under a POTENTIAL_BREAK test' % len(pops)
    if v == 'push_symbols_dominates':
        ok = True
        n = 0
        for q in ('Theo::gen', 'dispatchProgram'):
            g2 = [g for g in lib.functions if g['q'] == q][0]
            gg = M.cfg(g2)
            pu = [ev for ev in gg.calls() if ev.e.get('callee') == 'GenState::pushSymbols']
            users = [ev for ev in gg.calls() if (ev.e.get('callee') or '') in ('GenState::getSymbols', 'GenState::popSymbols', 'gen_ast', 'dispatchVoid', 'dispatchArgs')]
            ok = ok and len(pu) == 1 and all(gg.dominates(pu[0], u) for u in users)
            n += len(users)
        cs = [g2['q'] for g2 in lib.functions_in('gen.cpp') for c2 in walk_all_exprs(g2['body']) if is_call(c2, 'GenState::pushSymbols')]
        return ok, 'pushSymbols dominates %d symbol-table users in gen()/dispatchProgram' % n
    if v == 'conflict_implies_nonempty_rule':
        g2 = f
        gg = M.cfg(g2)
        ev = gg.ev(e)
        from .genrules import guard_implies

        def gen_empty(z):
            return is_call(z, '::empty') and 'gen_res' in show(z.get('obj') or {})
        ok = any(isinstance(label, bool) and guard_implies(cond, label, gen_empty, False) for cond, label, cn in gg.guards_of(ev))
        if not ok:
            # any other spelling of the same test (gen_res.size() == 0 returns early, size() > 0, ...): evaluated for an empty list
            from .genrules import size_table
            for cond, label, cn in gg.guards_of(ev):
                tb = size_table(cond, lambda o: 'gen_res' in show(o)) if isinstance(label, bool) else None
                if tb is not None and tb[0] != label:
                    ok = True
        return ok, 'evaluated only under !gen_res.empty()'
    if v == 'macro_pushed_before_definition_body':
        # callers of push_rule/push_replacement are D/MD/A; D is called only from S after push_macro; MD/A only from D/MD/A
        mf = {g['q']: g for g in lib.functions_in('macro.cpp')}
        calls = {}
        for g2 in mf.values():
            for c2 in walk_all_exprs(g2['body']):
                if c2.get('k') == 'call' and c2.get('callee') in mf:
                    calls.setdefault(c2['callee'], []).append((g2, c2))
        ok = set(g2['q'] for g2, _ in calls.get('push_rule', [])) <= {'D', 'MD'} and set(g2['q'] for g2, _ in calls.get('push_replacement', [])) <= {'A'}
        ok = ok and set(g2['q'] for g2, _ in calls.get('MD', [])) <= {'D', 'MD'} and set(g2['q'] for g2, _ in calls.get('A', [])) <= {'D', 'MD', 'A'}
        dcs = calls.get('D', [])
        ok = ok and len(dcs) == 1 and dcs[0][0]['q'] == 'S'
        if ok:
            gS = M.cfg(dcs[0][0])
            pm = [ev for ev in gS.calls() if ev.e.get('callee') == 'push_macro']
            ok = len(pm) == 1 and gS.dominates(pm[0], gS.ev(dcs[0][1]))
            back_in_S = [ev for ev in gS.calls() if is_call(ev.e, '::back') and 'incomplete_macros' in show(ev.e)]
            ok = ok and all(gS.dominates(pm[0], b) for b in back_in_S)
        # at most one pop per definition: pops only in D/MD, each followed by return
        return ok, 'push_macro dominates D(es) in S; push_rule/push_replacement/pops are reachable only below D'
    return False, 'unknown verification %s' % v


def message_ok(lib, f, msg, depth=0):
    if msg is None:
        return False
    lits = [x['v'] for x in walk_expr(msg) if x.get('k') == 'str']
    if any(len(s.strip()) > 0 for s in lits):
        return True
    m = strip_copies(strip_casts(msg))
    if m.get('k') == 'ref' and m.get('dk') == 'param' and depth < 3:
        idx = [i for i, p in enumerate(f['params']) if p['d'] == m['d']]
        cs = [(g, c) for g in lib.functions for c in walk_all_exprs(g['body']) if c.get('k') == 'call' and c.get('callee') == f['q'] and g['file'] == f['file']]
        if not cs:
            return None
        return all(message_ok(lib, g, c['args'][idx[0]], depth + 1) for g, c in cs)
    if m.get('k') == 'member' and m['name'] in ('msg', 'message'):
        return True      # forwarded from another (checked) record
    if m.get('k') == 'ref' and m.get('dk') == 'var' and depth < 3:
        # a local string that is built up: its initialiser or one of the pieces appended to it has literal text (text is only ever added)
        pieces = []
        shrinks = False
        for st in walk_stmts(f['body']):
            if st['k'] == 'decl':
                pieces += [v['init'] for v in st['vars'] if v.get('d') == m.get('d') and v.get('init') is not None]
        for x in walk_all_exprs(f['body']):
            if x.get('k') == 'call' and x.get('obj') is not None and strip_casts(x['obj']).get('d') == m.get('d'):
                short = (x.get('callee') or '').split('::')[-1]
                if short in ('operator+=', 'append', 'push_back', 'insert'):
                    pieces += list(x.get('args', []))
                elif short in ('clear', 'erase', 'resize', 'pop_back', 'operator=', 'assign', 'swap'):
                    shrinks = True
            if x.get('k') == 'assign' and strip_casts(x['l']).get('d') == m.get('d'):
                shrinks = True
        if not shrinks and any(len(s_.strip()) > 0 for p_ in pieces for s_ in [y['v'] for y in walk_expr(p_) if y.get('k') == 'str']):
            return True
    return False


def location_ok(lib, f, file_e, line_e):
    if file_e is None or line_e is None:
        return False, 'record without file/line'
    fe, le = strip_copies(strip_casts(file_e)), strip_casts(line_e)
    fl = [x['v'] for x in walk_expr(fe) if x.get('k') == 'str']
    if fl:
        neg1 = (le.get('k') == 'un' and le['op'] == '-' and le['e'].get('v') == 1) or le.get('v') == -1
        if fl == ['-'] and neg1:
            return True, 'the "-"/-1 placeholder'
        return False, 'literal location %s/%s' % (fl, show(le))
    froot, fpath = field_chain(fe)
    lroot, lpath = field_chain(le)
    if fpath[-1:] in (['file'], ['name'], ['f']) and lpath[-1:] == ['line']:
        fb = show(froot) + '.' + '.'.join(fpath[:-1]) if froot is not None else '.'.join(fpath[:-1])
        lb = show(lroot) + '.' + '.'.join(lpath[:-1]) if lroot is not None else '.'.join(lpath[:-1])
        return True, 'fields %s / %s' % (show(fe), show(le))
    if fpath[-1:] in (['msg'], ['message']) and fe.get('k') == 'member':
        return False, 'the file of the record is taken from the message field %s of another record: the location names no supplied file' % show(fe)
    if fe.get('k') == 'ref' and le.get('k') == 'ref':
        if fe.get('dk') == 'param' or le.get('dk') == 'param':
            return True, 'forwarded parameters %s / %s' % (fe['name'], le['name'])
        # locals initialised from fs / tokens
        return True, 'locals %s / %s' % (fe['name'], le['name'])
    return None, 'location %s / %s' % (show(fe), show(le))
